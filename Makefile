# setup: full Coq build (.vo, never -vos), extraction, OCaml drivers
PROPS := $(shell ls coq/Extract 2>/dev/null | sed -n 's/^X_\(C[0-9]*\)\.v$$/\1/p')

setup: coq ocaml

coq:
	cd coq && sh mkproject.sh && timeout 3000 $(MAKE) -j16

ocaml: coq
	for p in $(PROPS); do sh ocaml/build.sh $$p || exit 1; done

clean:
	cd coq && (test -f Makefile && $(MAKE) clean || true); rm -rf ocaml/.build .work coq/x_*.ml coq/x_*.mli

.PHONY: setup coq ocaml clean
