#!/bin/sh
# seedregress.sh : re-run the quick check of its property against every seeded change (seeded/*/patch.diff) and every
# behaviour-preserving refactoring (benign/*/benign.diff); prints one line each; updates seeded/*/meta.json
cd "$(dirname "$0")/.."
for d in seeded/C*; do
  name=$(basename $d); pid=${name%%-*}
  /venv/bin/python tools/seedeval.py $pid $(pwd)/$d ${name}r > .work/regress-$name.json 2>&1
  python3 - "$name" <<'PY'
import json, os, shutil, sys
name = sys.argv[1]
try:
    r = json.load(open('.work/regress-%s.json' % name))
except Exception as e:
    print(name, 'ERR', e); sys.exit(0)
src = 'seeded/%sr/meta.json' % name
if os.path.exists(src):
    a = json.load(open(src)); b = json.load(open('seeded/%s/meta.json' % name))
    b['evaluation']['checks'] = a['evaluation']['checks']; b['evaluation']['detected'] = a['evaluation']['detected']
    json.dump(b, open('seeded/%s/meta.json' % name, 'w'), indent=1)
    shutil.rmtree('seeded/%sr' % name)
print(name, 'DETECTED' if r.get('detected') else 'MISSED', [[x['signature'] for x in v['violations']][:2] for v in r.get('checks', {}).values()])
PY
done
for d in benign/C*; do
  name=$(basename $d); id=${name%%-*}
  echo "$name: $(sh tools/benigneval.sh $id $(pwd)/$d/benign.diff | head -1)"
done
