#!/usr/bin/env python3
"""Writes /verif/MANIFEST.json from the table below (kept in one place so it stays valid)."""
import json
import os

VERIF = os.path.dirname(os.path.dirname(os.path.abspath(__file__)))

CHECKS = {
    'C05': dict(
        text='Coq theorems over an executable model of SizedReader (refinement to a cursor over the body: '
             'exact/ordered/bounded/maxbytes for every operation list, fragmentation and buffer size), tied to the '
             'code by differential runs of the extracted model against the real class on generated operation '
             'sequences, with an independent property oracle.',
        note='Trusts Coq kernel, extraction+driver, the harness; the socket file is modelled as returning 1..n bytes.',
        technique='Coq proof (invariant + refinement) + extracted-model differential correspondence',
        ref='6/C05'),
}

CHECKS.update({
    'C03': dict(
        text='Coq theorems over an executable model of the query-string and urlencoded-body parsers (unquote(quote)=id for every '
             'encoding style, parse(encode m)=to_dict m for every multimap/separator/charset list, merge order, all-or-nothing '
             'decoding), tied to the code by differential runs of the extracted model against in-process WSGI requests, with an '
             'independent ground-truth oracle.',
        note='Codecs are section variables with a round-trip hypothesis (concrete utf-8 instance proved); whole-dict key order '
             'across query+body is proved per key only; urllib internals are modelled for ASCII query strings.',
        technique='Coq proof (codec round-trip laws) + extracted-model differential correspondence', ref='6/C03'),
    'C12': dict(
        text='Coq theorems over models of header encoding, finalize status/cookie lines, html.escape, quoteattr, RFC 2047 base64 '
             'and the access-log escaping (no control byte in any emitted header item, escape/unescape and b64 round trips, '
             'single-line log records for all strings); delete table regenerated from source each run (tie); differential runs '
             'over sinks x payloads with an independent oracle.',
        note='Morsel.OutputString, str.title, valid_status, urljoin and email.header are oracles recorded from the running code.',
        technique='Coq proof (all-strings invariants) + generated constant ties + differential correspondence', ref='6/C12'),
    'C14': dict(
        text='Coq theorems over a model of the session store (RAM and file backends) quantified over all stores, clocks, RNG '
             'streams and operation histories: no adoption of client ids, persistence until expiry, no resurrection '
             '(non-interference of expired data), exact sweep, torn files are absent sessions; comparison operators and the '
             '_load except clause regenerated from source (tie); differential histories with patched clock/urandom.',
        note='Sequential histories (locking is C13); ids are opaque tokens; pickle.load raise-set is an assumption measured each run; '
             'the instant expiry = now is left open as the property text does.',
        technique='Coq proof (history induction, non-interference) + generated ties + differential correspondence', ref='6/C14'),
    'C15': dict(
        text='Coq theorems by induction over all sequential histories of requests, clock steps and sweeps of a model of '
             'MemoryCache/caching.get/tee_output: served responses are genuine per Vary value, fresh (Age = whole seconds <= '
             'min(delay, max-age)), invalidation, no-cache, no-store; differential histories with a generation-number oracle.',
        note='AntiStampedeCache waiting between threads is not modelled (sequential histories only): partial for the schedules part; '
             'Vary assumed constant per URI; bodies abstracted to generation numbers in the model (the oracle compares real bodies).',
        technique='Coq proof (history invariants) + differential correspondence', ref='6/C15'),
    'C17': dict(
        text='Coq theorems: gunzip(compress chunks)=concat chunks for every chunking (RFC 1952 reader checking CRC-32/ISIZE; zlib as a '
             'section hypothesis), the gzip decision incl. the exact 406 condition, and charset negotiation (announced charset '
             'acceptable, can encode, nothing strictly preferred can; else 406); header bytes/CRC update regenerated from source '
             '(ties); differential runs with gzip.decompress / bytes.decode oracles.',
        note='zlib and the codecs are runtime oracles; forced encodings and streamed bodies are covered by D and the oracle only; '
             'two recorded known findings (stream-unencodable, bom-per-chunk).',
        technique='Coq proof (framing + decision procedures) + generated ties + differential correspondence', ref='6/C17'),
    'C19': dict(
        text='Coq theorems over a model of basic_auth and digest_auth with MD5 uninterpreted: digest soundness and completeness '
             '(handler reached iff the header parses, the nonce is ts:H(ts:realm:key), HA1 known, response = KD(...), not stale), '
             'exact reject outcomes (400/401, stale=true iff genuine expired nonce), basic iff; differential runs against an '
             'independent RFC 2617/7617 client with all single-field corruptions; oracle-call traces compared.',
        note='MD5, urllib parse_keqv_list, base64, NFC, charset decoding, get_ha1/checkpassword are oracles; challenge re-parse is '
             'checked by the harness, not proved.',
        technique='Coq proof (decision equivalence with uninterpreted hash) + differential correspondence', ref='6/C19'),
})

CHECKS.update({
    'C02': dict(
        text='Coq theorems over an executable model of Dispatcher.find_handler and MethodDispatcher (trail walk, _cp_dispatch as an '
             'oracle table, reverse scan): for every object tree, oracle table and path the chosen callable is exposed, comes from the '
             'deepest trail entry that offers a handler (exposed default before the node, index only on an exact match), the virtual '
             'path is the unconsumed segments in order with %2F restored, the function equals a short declarative resolver '
             '(c02_spec), and the verb rules (HEAD->GET, 405 + sorted Allow, 404); tied to the code by differential runs on generated '
             'real Python object trees with an independent oracle.',
        note='Python attribute lookup (getattr/dir/bool) is materialised from the real objects and is an input of the model; '
             '_cp_dispatch/popargs are oracles assumed deterministic; RoutesDispatcher is outside the model.',
        technique='Coq proof (refinement of find_handler to a declarative resolver) + extracted-model differential correspondence', ref='6/C02'),
    'C04': dict(
        text='Coq theorems over an executable model of the multipart parser layered on the C05 reader model: read_lines_to_boundary '
             'returns exactly the content and leaves the stream just after the delimiter line for every content without a '
             'delimiter-like line, every buffer size and socket fragmentation; nothing past Content-Length is consumed; same-name '
             'parts group in wire order; field/file classification; differential runs of whole multipart requests through WSGI.',
        note='Proved under the weakest precondition for which the code is exact (no line that strips to the delimiter); the RFC '
             'precondition (CRLF--boundary) is refuted for the faithful model and recorded as a known finding together with parts '
             'carrying a registered Content-Type; tempfile is a byte store; parse_header modelled for the parameter forms generated.',
        technique='Coq proof (stream refinement composed with the C05 cursor spec) + differential correspondence', ref='6/C04'),
    'C06': dict(
        text='Coq theorems over a model of response framing (tool effects on body/Content-Length, finalize, the HEAD rule, error and '
             'redirect pages, ranged static bodies): the invariant "Content-Length absent or equal to the body length" is preserved '
             'by every rewriting tool and established by finalize for every composition and order of tools, handler shape and '
             'status, no-body statuses carry neither body nor length, HEAD = GET headers with zero bytes; the table of which '
             'function that assigns response.body also resets Content-Length is regenerated from the sources on every run and '
             'checked by a proven-sound boolean checker (tie); differential runs over a bounded lattice of handlers x tools.',
        note='The bytes produced by gzip/codecs/JSON/templates are opaque (only lengths enter); which branch a tool takes is supplied '
             'by a reference of the tool decisions; streamed responses: partial (c06_stream_partial), as the property demands less of them.',
        technique='Coq proof (framing invariant over all tool compositions) + generated tool-effects tie + differential correspondence', ref='6/C06'),
    'C07': dict(
        text='Coq theorems over models of every framework parser of client data with explicit crash points (each Python operation that '
             'can raise returns Crash in the model, library calls are section variables ranging over their declared raise-sets): each '
             'parser is total with outcome Ok or Reject 4xx for every input and every oracle behaviour (24 theorems), and the '
             'pipeline maps total parsers to a non-5xx status; differential runs of grammar-generated and mutated requests through '
             'WSGI; the oracle reports any 5xx from any code path with the raising function as signature.',
        note='Standard-library parsers are oracles with declared raise-sets (sampled each run); completeness of the parser list is by '
             'reading, backed by the oracle pass over all code paths; two recorded known findings.',
        technique='Coq proof (exception-flow totality per parser) + differential correspondence + 5xx oracle', ref='6/C07'),
    'C10': dict(
        text='Coq theorems over a heap model of per-request state: if every isolation field is initialised as a fresh copy or fresh '
             'empty object no per-request operation writes an object reachable from a class-level root (frame), hence the '
             'observation of a request is independent of every history before it and of every interleaving with requests on other '
             'threads; the initialisation kind of every attribute is regenerated from the sources each run and checked by the '
             'proven checker (tie); differential request histories on 1..16 real threads with mutating handlers.',
        note='Shallow copies by design (nested mutable values shared); threading.local and dict/list atomicity trusted; request '
             'initialisation is one model step.',
        technique='Coq proof (frame/non-interference over histories and interleavings) + generated initialisation-kind tie + differential correspondence', ref='6/C10'),
    'C11': dict(
        text='Coq theorems over character-level models of normpath/join/abspath/unquote and the staticdir / FileSession guards: every '
             'path handed to the file system resolves (lexically, and under a model kernel walk) inside the configured root for '
             'every URL branch and session id, otherwise the request is refused; differential runs of a traversal grammar in a '
             'sandbox tree with a file-system audit hook as independent oracle.',
        note='Symlink-free tree (A_fs); POSIX path rules only; filelock/pickle/http.cookies mirrored in the harness.',
        technique='Coq proof (segment-prefix containment for all strings) + differential correspondence with fs audit', ref='6/C11'),
    'C16': dict(
        text='Coq theorems over models of get_ranges, _serve_fileobj and validate_etags/validate_since: get_ranges equals the '
             'declarative RFC 7233 slice list for every grammar header and length and ignores every invalid header, each 206 part is '
             'content[start:stop] with a truthful Content-Range, 416 exactly when no range is satisfiable, HTTP/1.0 gets the whole '
             'entity, and the conditional-request status equals a decision table written from the property text; differential runs '
             'directly and through WSGI, exhaustive on small scopes.',
        note='Header values as a WSGI server delivers them; ETag parameters with ";" unsupported in the model; dates compared as strings as in the code.',
        technique='Coq proof (parser = declarative spec, decision-table equivalence) + differential correspondence', ref='6/C16'),
    'C18': dict(
        text='Coq theorems over a model of the process bus (publish with priority sort, failure collection, SystemExit fix-up, '
             're-entrant (un)subscribe/publish, start/stop/exit/restart/graceful): every listener of the snapshot runs exactly once '
             'in priority order whatever subset raises, state seen by listeners, exit order, the lifecycle table, start/exit '
             'failure outcomes; differential call sequences against a real Bus with os._exit intercepted.',
        note='Set-iteration order of equal priorities is an environment parameter; single-threaded callers; one recorded known finding (raising log listener).',
        technique='Coq proof (publish/lifecycle invariants for all listener sets and failure patterns) + differential correspondence', ref='6/C18'),
    'C20': dict(
        text='Coq theorems over interleaving transition systems of BackgroundTask/Monitor and ThreadManager at bytecode-step '
             'granularity: in every execution at most one callback invocation follows stop, a cancel sticks, at most one live '
             'worker per monitor, graceful leaves exactly one, every serving thread gets start_thread/stop_thread exactly once; '
             'schedules of the model are replayed on the real classes under a deterministic scheduler (sys.monitoring) and all '
             'schedules up to a pre-emption bound are enumerated on the real threads.',
        note='Real OS scheduling, Thread.join and signal delivery are outside the model (partial for runtime behaviour); dict ops atomic; fairness is a hypothesis.',
        technique='Coq proof (invariants of an interleaving transition system) + schedule-replay correspondence on real threads', ref='6/C20'),
})

CHECKS.update({
    'C13': dict(
        text='Coq theorems over an interleaving transition system of RamSession.acquire_lock / release_lock / _regenerate / clean_up at '
             'the granularity of shared-table fetches and lock operations (any number of request threads plus the sweep, session '
             'new/live/expired): in every reachable state at most one thread is between a completed acquire_lock and its '
             'release_lock for an id (a thread in its critical section owns the lock object currently in the table), hence no '
             'lost update; and over the session hooks plugged into the pipeline model: the lock count is 0 after close() for every '
             'request outcome. Schedules enumerated on the real threads under a deterministic scheduler are replayed through the '
             'extracted model and journals compared; the hook table (points, priorities, failsafe flags) is regenerated from the '
             'sources each run (tie).',
        note='filelock / OS locking across processes is trusted (file backend: abstract mutex per path); bytecode atomicity of dict '
             'operations (GIL) assumed; progress only under fairness (c13_progress_partial); the runtime cannot be exhibited by the '
             'model beyond the scheduling points.',
        technique='Coq proof (mutual-exclusion invariant of an interleaving transition system) + generated hook-table tie + schedule-replay correspondence', ref='6/C13'),
})

CHECKS.update({
    'C01': dict(
        text='Coq theorems over a big-step semantics (Python try/except/else/finally rules) of control-flow skeletons of the whole '
             'request pipeline (Request.run/respond/_do_respond/handle_error/close, get_serving/release_serving, AppResponse, '
             'InternalRedirector, _TrappedResponse) composed into a PEP 3333 server session; for EVERY environment (each call site '
             'succeeds or raises anything of its raise-set at any occurrence, every environment condition either way): no '
             'exception other than KeyboardInterrupt/SystemExit/the server\'s own escapes, start_response is called exactly once '
             'without exc_info with a 2xx..5xx status, an unexpected failure yields 5xx, and with show_tracebacks off traceback '
             'text reaches the client only through the trapper running after the request was released (that residue is refuted for '
             'the faithful model and recorded as a known finding). Decided by a symbolic executor proved sound w.r.t. the semantics. '
             'The skeletons are REGENERATED from /repo by a fail-closed Python-ast translator on every run and tied to the ones '
             'the theorems are about by reflexivity (16 tie lemmas); server sessions with injected faults at 12 call sites x hook '
             'failures x handler shapes are run through the real pipeline and the extracted model and journals compared.',
        note='Values are abstracted to status class / taint / types; throw_errors off; engine listeners do not raise; the WSGI server '
             'calls close(); the class-default request in the serving slot is modelled in its steady (closed) state; AppResponse.close '
             'reached from the server finds iter_response set (an object whose __init__ raised is never returned).',
        technique='Coq proof (verified symbolic execution of source-generated control-flow skeletons) + reflexivity ties to regenerated skeletons + fault-injection correspondence', ref='6/C01'),
    'C09': dict(
        text='Coq theorems: HookMap.run executes a subsequence of THE stable ascending sort of the attached hooks (permutation, sorted, '
             'stable); after the first failing hook exactly the remaining failsafe hooks run once each in order whatever they do and '
             'the point raises; on_end_resource runs exactly once in respond() for every environment; per-function bounds of every '
             'hook point (documented order); and the full end-hook clause: in every terminating server session - any handler, '
             'hooks, error pages, body iterator, start_response failures, any number of close() calls, internal redirects - '
             'on_end_request has run EXACTLY ONCE for every request object that was served (c09_end_request_exactly_once: at most '
             'once by a counting invariant over the close() idiom, at least once by an abstract interpretation of the request '
             'identities proved sound w.r.t. the semantics), and never inside Request.run. All of it is proved for any skeleton '
             'program passing flow_checks; the skeletons are regenerated from /repo on every run, the kernel re-evaluates '
             'flow_checks on them and the theorems are re-instantiated; probe hooks x faults x streaming outcomes are run through '
             'the real pipeline and the extracted model (running the regenerated program) and journals compared.',
        note='Assumes the WSGI server calls close() on the returned iterable and engine listeners do not raise; hooks raising '
             'KeyboardInterrupt/SystemExit are outside the failsafe clause; values abstracted to hook ids and exception kinds.',
        technique='Coq proof (stable-sort/failsafe lemmas + counting invariants over source-generated skeletons) + reflexivity ties + fault-injection correspondence', ref='6/C09'),
})

CHECKS.update({
    'C08': dict(
        text='Coq theorems over the dispatch model of C02 extended with per-level config collection, set_conf, find_config, the '
             'Toolbox enter/exit protocol and unrepr: request.config equals fold_left overlay over [global; root _cp_config; '
             'section "/"; per trail entry its _cp_config then the sections of the prefixes it consumed; default handler\'s '
             'config right after its owner] for both dispatchers and every tree/config/path (c08_merge, c08_value), deeper wins, '
             'section beats _cp_config at the same level, a section for a path that is not a segment prefix of the request '
             'contributes nothing (string-prefix siblings included), find_config = longest-prefix hit, a tool is set up iff the '
             'merged tools.t.on is truthy with exactly the merged kwargs, toolmaps probes equal merged-config probes, and '
             'build(to_ast v) = canon v for every well-formed literal; the _Builder method vocabulary and the on/priority '
             'literals are regenerated from the sources each run (ties); differential runs over scope assignments x paths x '
             'INI literals with an independent reference merge.',
        note='unrepr theorem is partial: dict literals keyed by bools/floats/complex (cross-type key equality) are covered by D and '
             'the oracle only; merge theorems assume each level dict has every key once; configparser tokenisation is an oracle.',
        technique='Coq proof (refinement of the trail merge to a fold of overlays; structural induction over literals) + generated ties + differential correspondence', ref='6/C08'),
})

PENDING = {}


def main():
    props = [json.loads(l) for l in open(os.path.join(VERIF, 'properties.jsonl'))]
    checks = []
    na = []
    for p in props:
        pid = p['id']
        if pid in CHECKS:
            c = CHECKS[pid]
            checks.append({
                'property_id': pid,
                'quick_cmd': '/venv/bin/python -m vcheck %s --tier quick' % pid,
                'thorough_cmd': '/venv/bin/python -m vcheck %s --tier thorough' % pid,
                'evidence_file': 'evidence/%s.json' % pid,
                'replay_cmd_template': '/venv/bin/python -m vcheck replay {path}',
                'engine': 'coq-model+diff',
                'level_claimed': {'category': 'proof', 'text': c['text'], 'design_ref': c['ref']},
                'level_note': c['note'],
                'technique': c['technique'],
            })
        else:
            na.append({'property_id': pid,
                       'reason': PENDING.get(pid, 'check not built yet in this round (model planned in DESIGN.md section 6); not claimed')})
    m = {
        'version': 1,
        'setup_cmd': 'make -C /verif setup',
        'hooks': {'guard': 'CHERRYPY_VERIF', 'enable': 'no source hooks: instrumentation is applied from outside the repository',
                  'baseline_off_cmd': 'cd /repo && /venv/bin/python -m pytest -ra -q -p no:cacheprovider --timeout=900 --continue-on-collection-errors',
                  'source_commits': [], 'add_only': True},
        'engines': [{'name': 'coq-model+diff', 'path': 'vcheck/', 'serves_properties': sorted(CHECKS),
                     'kind_free_text': 'Coq 8.16 theorems over executable Gallina models (coq/), extracted to OCaml and compared '
                                       'with the real code on generated inputs; Python-ast translator for generated ties'}],
        'checks': checks,
        'notes': 'See DESIGN.md. known_findings.json lists recorded findings and fixed defects.',
        'not_applicable': na,
    }
    json.dump(m, open(os.path.join(VERIF, 'MANIFEST.json'), 'w'), indent=1)


if __name__ == '__main__':
    main()
