#!/usr/bin/env python3
"""Writes /verif/MANIFEST.json from the table below (kept in one place so it stays valid)."""
import json
import os

VERIF = os.path.dirname(os.path.dirname(os.path.abspath(__file__)))

CHECKS = {
    'C05': dict(
        text='Coq theorems over an executable model of SizedReader (refinement to a cursor over the body: '
             'exact/ordered/bounded/maxbytes for every operation list, fragmentation and buffer size), tied to the '
             'code by differential runs of the extracted model against the real class on generated operation '
             'sequences, with an independent property oracle.',
        note='Trusts Coq kernel, extraction+driver, the harness; the socket file is modelled as returning 1..n bytes.',
        technique='Coq proof (invariant + refinement) + extracted-model differential correspondence',
        ref='6/C05'),
}

PENDING = {}


def main():
    props = [json.loads(l) for l in open(os.path.join(VERIF, 'properties.jsonl'))]
    checks = []
    na = []
    for p in props:
        pid = p['id']
        if pid in CHECKS:
            c = CHECKS[pid]
            checks.append({
                'property_id': pid,
                'quick_cmd': '/venv/bin/python -m vcheck %s --tier quick' % pid,
                'thorough_cmd': '/venv/bin/python -m vcheck %s --tier thorough' % pid,
                'evidence_file': 'evidence/%s.json' % pid,
                'replay_cmd_template': '/venv/bin/python -m vcheck replay {path}',
                'engine': 'coq-model+diff',
                'level_claimed': {'category': 'proof', 'text': c['text'], 'design_ref': c['ref']},
                'level_note': c['note'],
                'technique': c['technique'],
            })
        else:
            na.append({'property_id': pid,
                       'reason': PENDING.get(pid, 'check not built yet in this round (model planned in DESIGN.md section 6); not claimed')})
    m = {
        'version': 1,
        'setup_cmd': 'make -C /verif setup',
        'hooks': {'guard': 'CHERRYPY_VERIF', 'enable': 'no source hooks: instrumentation is applied from outside the repository',
                  'baseline_off_cmd': 'cd /repo && /venv/bin/python -m pytest -ra -q -p no:cacheprovider --timeout=900 --continue-on-collection-errors',
                  'source_commits': [], 'add_only': True},
        'engines': [{'name': 'coq-model+diff', 'path': 'vcheck/', 'serves_properties': sorted(CHECKS),
                     'kind_free_text': 'Coq 8.16 theorems over executable Gallina models (coq/), extracted to OCaml and compared '
                                       'with the real code on generated inputs; Python-ast translator for generated ties'}],
        'checks': checks,
        'notes': 'See DESIGN.md. known_findings.json lists recorded findings and fixed defects.',
        'not_applicable': na,
    }
    json.dump(m, open(os.path.join(VERIF, 'MANIFEST.json'), 'w'), indent=1)


if __name__ == '__main__':
    main()
