#!/usr/bin/env python3
"""Writes /verif/MANIFEST.json from the table below (kept in one place so it stays valid)."""
import json
import os

VERIF = os.path.dirname(os.path.dirname(os.path.abspath(__file__)))

CHECKS = {
    'C05': dict(
        text='Coq theorems over an executable model of SizedReader (refinement to a cursor over the body: '
             'exact/ordered/bounded/maxbytes for every operation list, fragmentation and buffer size), tied to the '
             'code by differential runs of the extracted model against the real class on generated operation '
             'sequences, with an independent property oracle.',
        note='Trusts Coq kernel, extraction+driver, the harness; the socket file is modelled as returning 1..n bytes.',
        technique='Coq proof (invariant + refinement) + extracted-model differential correspondence',
        ref='6/C05'),
}

CHECKS.update({
    'C03': dict(
        text='Coq theorems over an executable model of the query-string and urlencoded-body parsers (unquote(quote)=id for every '
             'encoding style, parse(encode m)=to_dict m for every multimap/separator/charset list, merge order, all-or-nothing '
             'decoding), tied to the code by differential runs of the extracted model against in-process WSGI requests, with an '
             'independent ground-truth oracle.',
        note='Codecs are section variables with a round-trip hypothesis (concrete utf-8 instance proved); whole-dict key order '
             'across query+body is proved per key only; urllib internals are modelled for ASCII query strings.',
        technique='Coq proof (codec round-trip laws) + extracted-model differential correspondence', ref='6/C03'),
    'C12': dict(
        text='Coq theorems over models of header encoding, finalize status/cookie lines, html.escape, quoteattr, RFC 2047 base64 '
             'and the access-log escaping (no control byte in any emitted header item, escape/unescape and b64 round trips, '
             'single-line log records for all strings); delete table regenerated from source each run (tie); differential runs '
             'over sinks x payloads with an independent oracle.',
        note='Morsel.OutputString, str.title, valid_status, urljoin and email.header are oracles recorded from the running code.',
        technique='Coq proof (all-strings invariants) + generated constant ties + differential correspondence', ref='6/C12'),
    'C14': dict(
        text='Coq theorems over a model of the session store (RAM and file backends) quantified over all stores, clocks, RNG '
             'streams and operation histories: no adoption of client ids, persistence until expiry, no resurrection '
             '(non-interference of expired data), exact sweep, torn files are absent sessions; comparison operators and the '
             '_load except clause regenerated from source (tie); differential histories with patched clock/urandom.',
        note='Sequential histories (locking is C13); ids are opaque tokens; pickle.load raise-set is an assumption measured each run; '
             'the instant expiry = now is left open as the property text does.',
        technique='Coq proof (history induction, non-interference) + generated ties + differential correspondence', ref='6/C14'),
    'C15': dict(
        text='Coq theorems by induction over all sequential histories of requests, clock steps and sweeps of a model of '
             'MemoryCache/caching.get/tee_output: served responses are genuine per Vary value, fresh (Age = whole seconds <= '
             'min(delay, max-age)), invalidation, no-cache, no-store; differential histories with a generation-number oracle.',
        note='AntiStampedeCache waiting between threads is not modelled (sequential histories only): partial for the schedules part; '
             'Vary assumed constant per URI; bodies abstracted to generation numbers in the model (the oracle compares real bodies).',
        technique='Coq proof (history invariants) + differential correspondence', ref='6/C15'),
    'C17': dict(
        text='Coq theorems: gunzip(compress chunks)=concat chunks for every chunking (RFC 1952 reader checking CRC-32/ISIZE; zlib as a '
             'section hypothesis), the gzip decision incl. the exact 406 condition, and charset negotiation (announced charset '
             'acceptable, can encode, nothing strictly preferred can; else 406); header bytes/CRC update regenerated from source '
             '(ties); differential runs with gzip.decompress / bytes.decode oracles.',
        note='zlib and the codecs are runtime oracles; forced encodings and streamed bodies are covered by D and the oracle only; '
             'two recorded known findings (stream-unencodable, bom-per-chunk).',
        technique='Coq proof (framing + decision procedures) + generated ties + differential correspondence', ref='6/C17'),
    'C19': dict(
        text='Coq theorems over a model of basic_auth and digest_auth with MD5 uninterpreted: digest soundness and completeness '
             '(handler reached iff the header parses, the nonce is ts:H(ts:realm:key), HA1 known, response = KD(...), not stale), '
             'exact reject outcomes (400/401, stale=true iff genuine expired nonce), basic iff; differential runs against an '
             'independent RFC 2617/7617 client with all single-field corruptions; oracle-call traces compared.',
        note='MD5, urllib parse_keqv_list, base64, NFC, charset decoding, get_ha1/checkpassword are oracles; challenge re-parse is '
             'checked by the harness, not proved.',
        technique='Coq proof (decision equivalence with uninterpreted hash) + differential correspondence', ref='6/C19'),
})

PENDING = {}


def main():
    props = [json.loads(l) for l in open(os.path.join(VERIF, 'properties.jsonl'))]
    checks = []
    na = []
    for p in props:
        pid = p['id']
        if pid in CHECKS:
            c = CHECKS[pid]
            checks.append({
                'property_id': pid,
                'quick_cmd': '/venv/bin/python -m vcheck %s --tier quick' % pid,
                'thorough_cmd': '/venv/bin/python -m vcheck %s --tier thorough' % pid,
                'evidence_file': 'evidence/%s.json' % pid,
                'replay_cmd_template': '/venv/bin/python -m vcheck replay {path}',
                'engine': 'coq-model+diff',
                'level_claimed': {'category': 'proof', 'text': c['text'], 'design_ref': c['ref']},
                'level_note': c['note'],
                'technique': c['technique'],
            })
        else:
            na.append({'property_id': pid,
                       'reason': PENDING.get(pid, 'check not built yet in this round (model planned in DESIGN.md section 6); not claimed')})
    m = {
        'version': 1,
        'setup_cmd': 'make -C /verif setup',
        'hooks': {'guard': 'CHERRYPY_VERIF', 'enable': 'no source hooks: instrumentation is applied from outside the repository',
                  'baseline_off_cmd': 'cd /repo && /venv/bin/python -m pytest -ra -q -p no:cacheprovider --timeout=900 --continue-on-collection-errors',
                  'source_commits': [], 'add_only': True},
        'engines': [{'name': 'coq-model+diff', 'path': 'vcheck/', 'serves_properties': sorted(CHECKS),
                     'kind_free_text': 'Coq 8.16 theorems over executable Gallina models (coq/), extracted to OCaml and compared '
                                       'with the real code on generated inputs; Python-ast translator for generated ties'}],
        'checks': checks,
        'notes': 'See DESIGN.md. known_findings.json lists recorded findings and fixed defects.',
        'not_applicable': na,
    }
    json.dump(m, open(os.path.join(VERIF, 'MANIFEST.json'), 'w'), indent=1)


if __name__ == '__main__':
    main()
