#!/usr/bin/env python3
"""seedeval.py PID SRC_DIR NAME [--tests] [--via-repo] [--checks C01,C09]

Confirms one seeded change (SRC_DIR holds patch.diff, demo.py, meta.json written by an independent sub-agent)
in a scratch worktree of /repo outside /repo and /verif, runs the property's quick check against it, and files
the result under /verif/seeded/NAME/ (patch.diff, demo.py, meta.json).

  1. demo on a clean worktree exits 0; patch applies; demo on the changed worktree exits != 0;
  2. (--tests) the repository's whole suite, under the port lock, passes every test of BASELINE.stable_pass;
  3. `python -m vcheck PID --tier quick` with VERIF_REPO=<changed worktree> (or, with --via-repo, with the patch
     applied to /repo itself and undone straight afterwards): exit status and VIOLATION lines are recorded.
The worktree is removed at the end."""
import json
import os
import re
import shutil
import subprocess
import sys
import xml.etree.ElementTree as ET

VERIF = os.path.dirname(os.path.dirname(os.path.abspath(__file__)))
PY = '/venv/bin/python'


def sh(cmd, cwd=None, env=None, timeout=3600):
    p = subprocess.run(cmd, shell=isinstance(cmd, str), cwd=cwd, env=env, timeout=timeout,
                       stdout=subprocess.PIPE, stderr=subprocess.STDOUT, text=True)
    return p.returncode, p.stdout


def run_check(pid, repo):
    env = dict(os.environ, VERIF_REPO=repo)
    rc, out = sh([PY, '-m', 'vcheck', pid, '--tier', 'quick'], cwd=VERIF, env=env, timeout=3000)
    viol = [l for l in out.splitlines() if l.startswith('VIOLATION')]
    summary = [l for l in out.splitlines() if l.startswith('[%s]' % pid)]
    details = []
    for v in viol[:6]:
        m = re.search(r'replay=(\S+)', v)
        if m and os.path.exists(os.path.join(VERIF, m.group(1))):
            b = json.load(open(os.path.join(VERIF, m.group(1))))
            details.append({'signature': b.get('signature'), 'what': (b.get('what') or '')[:300],
                            'no_failing_input_found': b.get('no_failing_input_found'),
                            'no_longer_checks': (b.get('no_longer_checks') or [])[:6]})
    return {'exit': rc, 'violation_lines': viol[:10], 'summary': summary[-1] if summary else out[-400:],
            'violations': details}


def main():
    args = [a for a in sys.argv[1:] if not a.startswith('--')]
    flags = [a for a in sys.argv[1:] if a.startswith('--')]
    pid, src, name = args[:3]
    checks = [pid]
    for f in flags:
        if f.startswith('--checks='):
            checks = f.split('=', 1)[1].split(',')
    wt = '/tmp/eval-%s' % name
    res = {'property': pid, 'name': name}
    sh(['git', '-C', '/repo', 'worktree', 'remove', '--force', wt])
    rc, out = sh(['git', '-C', '/repo', 'worktree', 'add', wt, 'HEAD'])
    assert rc == 0, out
    try:
        demo = os.path.join(src, 'demo.py')
        env = dict(os.environ, TREE=wt, PYTHONPATH=wt, PYTHONHASHSEED='0')
        rc0, out0 = sh([PY, demo], cwd=wt, env=env, timeout=600)
        res['demo_clean'] = {'exit': rc0, 'tail': out0[-300:]}
        rca, outa = sh(['git', '-C', wt, 'apply', os.path.join(src, 'patch.diff')])
        res['patch_applies'] = rca == 0
        if rca != 0:
            res['patch_error'] = outa[-400:]
        rc1, out1 = sh([PY, demo], cwd=wt, env=env, timeout=600)
        res['demo_changed'] = {'exit': rc1, 'tail': out1[-300:]}
        rcc, outc = sh([PY, '-m', 'compileall', '-q', 'cherrypy'], cwd=wt)
        res['compiles'] = rcc == 0
        res['confirmed_demo'] = (rc0 == 0 and rca == 0 and rc1 != 0)
        if '--tests' in flags and res['confirmed_demo']:
            junit = '/tmp/eval-%s.junit.xml' % name
            cmd = ('flock /tmp/cptest.lock %s -m pytest -q -p no:cacheprovider --timeout=900 '
                   '--continue-on-collection-errors --junitxml=%s' % (PY, junit))
            rct, outt = sh(cmd, cwd=wt, timeout=3000)
            base = set(json.load(open('/root/.vp/BASELINE.json'))['stable_pass'])
            passed = set()
            for tc in ET.parse(junit).getroot().iter('testcase'):
                if not any(ch.tag in ('failure', 'error', 'skipped') for ch in tc):
                    passed.add('%s::%s' % (tc.get('classname'), tc.get('name')))
            missing = sorted(base - passed)
            res['suite'] = {'stable_pass_total': len(base), 'stable_pass_failing': missing[:20],
                            'tail': outt[-300:]}
            res['suite_ok'] = not missing
            os.unlink(junit)
        if res['confirmed_demo'] and '--no-check' not in flags:
            res['checks'] = {}
            for c in checks:
                if '--via-repo' in flags:
                    evf = os.path.join(VERIF, 'evidence', c + '.json')
                    saved = open(evf).read() if os.path.exists(evf) else None
                    sh(['git', '-C', '/repo', 'apply', os.path.join(src, 'patch.diff')])
                    try:
                        res['checks'][c] = run_check(c, '/repo')
                    finally:
                        sh(['git', '-C', '/repo', 'checkout', '--', '.'])
                        if saved is not None:          # the committed evidence describes the unchanged tree
                            open(evf, 'w').write(saved)
                else:
                    res['checks'][c] = run_check(c, wt)
            res['detected'] = any(v['exit'] != 0 and v['violation_lines'] for v in res['checks'].values())
    finally:
        sh(['git', '-C', '/repo', 'worktree', 'remove', '--force', wt])
        shutil.rmtree(wt, ignore_errors=True)
    dst = os.path.join(VERIF, 'seeded', name)
    if res.get('confirmed_demo'):
        os.makedirs(dst, exist_ok=True)
        shutil.copy(os.path.join(src, 'patch.diff'), dst)
        shutil.copy(os.path.join(src, 'demo.py'), dst)
        meta = {}
        try:
            meta = json.load(open(os.path.join(src, 'meta.json')))
        except Exception:
            pass
        old = {}
        if os.path.exists(os.path.join(dst, 'meta.json')):
            old = json.load(open(os.path.join(dst, 'meta.json')))
        ev = old.get('evaluation', {})
        ev.update(res)
        json.dump({'breaks': pid, 'from_subagent': meta, 'evaluation': ev},
                  open(os.path.join(dst, 'meta.json'), 'w'), indent=1)
    print(json.dumps(res, indent=1))


if __name__ == '__main__':
    main()
