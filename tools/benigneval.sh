#!/bin/sh
# benigneval.sh ID DIFF : run the quick check of property ID against a scratch worktree with a behaviour-preserving diff applied
id="$1"; diff="$2"; wt=/tmp/evalb-$id
cd /verif
git -C /repo worktree remove --force $wt 2>/dev/null
git -C /repo worktree add $wt HEAD -q || exit 2
if ! git -C $wt apply "$diff"; then echo "$id: patch does not apply"; git -C /repo worktree remove --force $wt; exit 2; fi
VERIF_REPO=$wt /venv/bin/python -m vcheck $id --tier quick > .work/benign-$id.out 2> .work/benign-$id.err
rc=$?
echo "$id rc=$rc $(grep -c VIOLATION .work/benign-$id.out) violation lines; $(tail -1 .work/benign-$id.err | cut -c1-150)"
grep -A1 VIOLATION .work/benign-$id.out .work/benign-$id.err 2>/dev/null | grep -v "^--" | cut -c1-260 | head -6
git -C /repo worktree remove --force $wt
