#!/bin/sh
# applyfix.sh NAME [pytest targets...] : apply fixes/NAME.diff to /repo, run tests, commit with fixes/NAME.msg
set -e
n="$1"; shift
cd /repo
git apply --check "/verif/fixes/$n.diff"
git apply "/verif/fixes/$n.diff"
if [ $# -gt 0 ]; then
  /venv/bin/python -m pytest -q -p no:cacheprovider --timeout=300 -x "$@" 2>&1 | tail -3
fi
git commit -qa -F "/verif/fixes/$n.msg"
git log --oneline | head -1
