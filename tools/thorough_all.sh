#!/bin/sh
# thorough_all.sh [IDS...] : run the thorough tier of the given (default: all registered) checks one after the other
cd "$(dirname "$0")/.."
mkdir -p .work && make setup > .work/thorough_setup.log 2>&1 || { echo "setup failed"; tail -5 .work/thorough_setup.log; exit 1; }
mkdir -p .work/thorough
ids="$*"
[ -n "$ids" ] || ids=$(python3 -c "import json; print(' '.join(c['property_id'] for c in json.load(open('MANIFEST.json'))['checks']))")
for p in $ids; do
  /usr/bin/time -f "%e s" /venv/bin/python -m vcheck $p --tier thorough > .work/thorough/$p.out 2> .work/thorough/$p.err
  echo "$p rc=$? $(grep -c VIOLATION .work/thorough/$p.out) violations; $(tail -2 .work/thorough/$p.err | tr '\n' ' ' | cut -c1-220)"
done
