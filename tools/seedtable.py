#!/usr/bin/env python3
"""prints the markdown table of the independently seeded changes under seeded/ and what the checks reported"""
import glob, json, os
V = os.path.dirname(os.path.dirname(os.path.abspath(__file__)))
print('| Seed | Property | Files | Needs, to manifest | First evaluation | Current quick check reports |')
print('|---|---|---|---|---|---|')
notes = json.load(open(os.path.join(V, 'seeded', 'NOTES.json'))) if os.path.exists(os.path.join(V, 'seeded', 'NOTES.json')) else {}
for d in sorted(glob.glob(os.path.join(V, 'seeded', 'C*'))):
    m = json.load(open(os.path.join(d, 'meta.json')))
    name = os.path.basename(d)
    sub = m.get('from_subagent', {})
    ev = m.get('evaluation', {})
    sigs = []
    for c, v in ev.get('checks', {}).items():
        for x in v.get('violations', []):
            s = x['signature'] + (' (no-failing-input-found)' if x.get('no_failing_input_found') else '')
            if s not in sigs:
                sigs.append(s)
    needs = (sub.get('needs_to_manifest') or '').replace('|', '/').replace('\n', ' ')
    if len(needs) > 230:
        needs = needs[:227] + '...'
    print('| %s | %s | %s | %s | %s | %s |' % (
        name, m.get('breaks'), ', '.join(os.path.basename(f) for f in sub.get('files_touched', [])), needs,
        notes.get(name, 'caught'), '; '.join(sigs[:4]) if ev.get('detected') else 'MISSED'))
