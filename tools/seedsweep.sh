#!/bin/sh
# seedsweep.sh SEEDS... : run every registered quick check with each seed (checks in parallel, seeds in sequence)
cd "$(dirname "$0")/.."
mkdir -p .work && make setup > .work/sweep_setup.log 2>&1 || { echo "setup failed"; tail -5 .work/sweep_setup.log; exit 1; }
mkdir -p .work/sweep
for s in "$@"; do
  python3 -c "import json; print('\n'.join(c['property_id'] for c in json.load(open('MANIFEST.json'))['checks']))" | \
    xargs -P 6 -I{} sh -c "VERIF_SEED=$s /venv/bin/python -m vcheck {} --tier quick > .work/sweep/{}.$s.out 2> .work/sweep/{}.$s.err; echo \"seed=$s {} rc=\$? \$(tail -1 .work/sweep/{}.$s.err | cut -c1-160)\""
done
