#!/bin/sh
# coqat.sh FILE LINE : compile FILE truncated after LINE, then show goals
f="$1"; n="$2"
tmp=$(dirname "$f")/Scratch_$$.v
head -n "$n" "$f" > "$tmp"
printf '\nShow.\nAbort All.\n' >> "$tmp"
timeout 300 coqc -Q /verif/coq CV "$tmp" 2>&1 | tail -n ${3:-60}
rm -f "$tmp" $(dirname "$f")/Scratch_$$.* $(dirname "$f")/.Scratch_$$.aux
