"""C19 - HTTP authentication admits exactly the right credentials.

An independent RFC 2617/7616/7617 client (below; it shares nothing with cherrypy.lib.auth_*) produces
Authorization headers for every qop x algorithm x method, the generator corrupts one field at a time, the
request goes through the real tool chain (vcheck.impl.wsgi) to a probe handler that records whether it ran
and the login it saw, and the same case goes through the extracted Coq model (Model/M_auth.v).

How the model's external functions are instantiated in D: every call the real code makes to md5_hex,
bytes.decode(charset), parse_http_list/parse_keqv_list, get_ha1, base64.b64decode, unicodedata.normalize
and checkpassword during the request is recorded by wrappers installed from outside (module attributes of
auth_digest / auth_basic, restored in teardown).  The tables given to the model are built from those
recordings - for MD5 only the *inputs* are taken from the recording, the digests are computed by the harness
with hashlib - and the model returns the trace of its own external calls, which compare() requires to be the
same sequence, arguments included.  time.time is patched from outside (auth_digest.time).
"""
import base64
import binascii
import hashlib
import json
import re
import unicodedata

from .. import core, sx
from ..impl import wsgi


def md5u(s, enc='utf-8'):
    return hashlib.md5(s.encode(enc)).hexdigest()


# --------------------------------------------------------------------------------------------------
# independent client (RFC 2617 3.2.2, RFC 7616 for UTF-8 user names, RFC 7617 for Basic)

def q(s):
    """quoted-string"""
    return '"' + s.replace('\\', '\\\\').replace('"', '\\"') + '"'


def client_response(user, realm, password, nonce, method, uri, qop, algorithm, nc, cnonce, body, enc='utf-8'):
    H = lambda x: md5u(x, enc)
    ha1 = H('%s:%s:%s' % (user, realm, password))
    if algorithm is not None and algorithm.lower() == 'md5-sess':
        ha1 = H('%s:%s:%s' % (ha1, nonce, cnonce))
    if qop == 'auth-int':
        ha2 = H('%s:%s:%s' % (method, uri, hashlib.md5(body).hexdigest()))
    else:
        ha2 = H('%s:%s' % (method, uri))
    if qop:
        return H('%s:%s:%s:%s:%s:%s' % (ha1, nonce, nc, cnonce, qop, ha2))
    return H('%s:%s:%s' % (ha1, nonce, ha2))


def render(fields):
    """fields: list of (name, value, quoted?)"""
    return 'Digest ' + ', '.join('%s=%s' % (k, q(v) if quoted else v) for k, v, quoted in fields)


def issue_nonce(ts, realm, key):
    ts = str(ts)
    return '%s:%s' % (ts, md5u('%s:%s:%s' % (ts, realm, key)))


# --------------------------------------------------------------------------------------------------
# independent verifier used by the oracle

def rfc_params(s):
    """auth-param list (RFC 7235): token BWS "=" BWS (token | quoted-string), comma separated.
    Returns list of pairs or None when malformed."""
    i, n, out = 0, len(s), []
    ws = ' \t'
    while True:
        while i < n and (s[i] in ws or s[i] == ','):
            i += 1
        if i >= n:
            return out
        j = i
        while j < n and s[j] not in ' \t=,"':
            j += 1
        key = s[i:j]
        if not key:
            return None
        i = j
        while i < n and s[i] in ws:
            i += 1
        if i >= n or s[i] != '=':
            return None
        i += 1
        while i < n and s[i] in ws:
            i += 1
        if i < n and s[i] == '"':
            i += 1
            val = []
            while True:
                if i >= n:
                    return None
                if s[i] == '\\':
                    if i + 1 >= n:
                        return None
                    val.append(s[i + 1])
                    i += 2
                elif s[i] == '"':
                    i += 1
                    break
                else:
                    val.append(s[i])
                    i += 1
            val = ''.join(val)
        else:
            j = i
            while j < n and s[j] != ',':      # lenient token: anything up to the next comma
                j += 1
            val = s[i:j].rstrip(ws)
            if not val:
                return None
            i = j
        out.append((key, val))
        while i < n and s[i] in ws:
            i += 1
        if i < n and s[i] != ',':
            return None


def lenient_params(s):
    """what a tolerant reader extracts: split at commas outside quoted strings, key = value at the first '=',
    one pair of surrounding quotes removed, backslash escapes inside quotes resolved"""
    parts, cur, quote, i = [], [], False, 0
    while i < len(s):
        ch = s[i]
        if quote and ch == '\\' and i + 1 < len(s):
            cur.append(s[i + 1])
            i += 2
            continue
        if ch == '"':
            quote = not quote
        if ch == ',' and not quote:
            parts.append(''.join(cur))
            cur = []
        else:
            cur.append(ch)
        i += 1
    parts.append(''.join(cur))
    out = []
    for p in parts:
        p = p.strip()
        if not p:
            continue
        k, sep, v = p.partition('=')
        if not sep:
            return None
        if len(v) >= 2 and v[0] == '"' and v[-1] == '"':
            v = v[1:-1]
        out.append((k, v))
    return out


def rfc2047(wire):
    """the framework decodes RFC 2047 encoded words in every request header before any tool sees it
    (_cprequest.process_headers); the same reading with the standard library, or None"""
    if b'=?' not in wire:
        return None
    from email.header import decode_header
    try:
        return ''.join(a.decode(cs or 'latin-1') if isinstance(a, bytes) else a
                       for a, cs in decode_header(wire.decode('latin-1')))
    except Exception:
        return None


def py_int(s):
    try:
        return int(s)
    except ValueError:
        return None


def digest_classify(c, login=None, liberal=True):
    """'valid' | 'stale' (everything verifies, nonce expired) | 'invalid', by the harness's own computation.
    liberal: any accepted decoding of the wire bytes and either hashing charset; qop and algorithm per RFC
    (auth-int, MD5-sess included).  strict: what a conforming server configured like this one must accept."""
    wire = c['auth']
    if wire is None:
        return 'invalid'
    cfg = c['cfg']
    store = dict((u, p) for u, p in cfg['users'])
    decs = []
    for enc in ([cfg['charset'], 'latin-1', 'utf-8'] if liberal else [cfg['charset'], 'latin-1']):
        try:
            d = wire.decode(enc)
        except (UnicodeDecodeError, LookupError):
            continue
        decs.append((d, enc))
        if not liberal:
            break
    t2047 = rfc2047(wire)
    if t2047 is not None:
        decs.append((t2047, 'utf-8'))
        try:
            decs.append((t2047.encode('latin-1').decode(cfg['charset']), cfg['charset']))
        except (UnicodeError, LookupError):
            pass
    best = 'invalid'
    for text, enc in decs:
        text = text.strip()
        scheme, _, rest = text.partition(' ')
        if scheme.lower() != 'digest':
            continue
        for kv in ([rfc_params(rest), lenient_params(rest)] if liberal else [rfc_params(rest)]):
            if kv is None:
                continue
            r = digest_check_fields(c, cfg, store, dict(kv), login, liberal, enc)
            if r == 'valid':
                return r
            if r == 'stale':
                best = r
    return best


def digest_check_fields(c, cfg, store, d, login, liberal, enc):
    user, nonce, uri, resp = d.get('username'), d.get('nonce'), d.get('uri'), d.get('response')
    if not (user and nonce and uri and resp and d.get('realm')):
        return 'invalid'
    if login is not None and login != user:
        return 'invalid'
    if user not in store or not store[user]:
        return 'invalid'
    ts, sep, h = nonce.partition(':')
    if not sep or h != md5u('%s:%s:%s' % (ts, cfg['realm'], cfg['key'])):
        return 'invalid'
    t = py_int(ts)     # None: not a number - no server issues such a nonce; it can never be fresh
    alg = d.get('algorithm')
    qop = d.get('qop')
    if liberal:
        if alg is not None and alg.upper() not in ('MD5', 'MD5-SESS'):
            return 'invalid'
        if qop not in (None, '', 'auth', 'auth-int'):
            return 'invalid'
    else:
        if alg is not None and alg.upper() != 'MD5':
            return 'invalid'
        if qop not in (None, 'auth'):
            return 'invalid'
        if qop and not (d.get('nc') and d.get('cnonce')):
            return 'invalid'
        if not qop and (d.get('nc') or d.get('cnonce')):
            return 'invalid'
    ok = False
    for henc in (['utf-8', enc] if liberal else ['utf-8']):
        try:
            want = client_response(user, cfg['realm'], store[user], nonce, c['method'], uri, qop or None,
                                   alg, d.get('nc'), d.get('cnonce'), c.get('body') or b'', henc)
        except (UnicodeEncodeError, LookupError):
            continue
        if want == resp:
            ok = True
    if not ok:
        return 'invalid'
    if t is not None and t + 600 > c['now']:
        return 'valid'
    return 'stale'


def basic_valid(c, login=None):
    wire = c['auth']
    if wire is None:
        return False
    cfg = c['cfg']
    store = dict((u, p) for u, p in cfg['users'])
    raw = None
    for text in (wire.decode('latin-1'), rfc2047(wire)):
        if text is None or raw is not None:
            continue
        try:
            scheme, sep, params = text.strip().partition(' ')
            if sep and scheme.lower() == 'basic':
                raw = base64.b64decode(params.encode('ascii'))
        except (ValueError, binascii.Error):
            pass
    if raw is None:
        return False
    for enc in (cfg['charset'], 'latin-1'):
        try:
            s = raw.decode(enc)
        except (UnicodeDecodeError, LookupError):
            continue
        for t in (s, unicodedata.normalize('NFC', s)):
            u, sep, p = t.partition(':')
            if sep and (login is None or login == u) and store.get(u) and store[u] == p:
                return True
    return False


# --------------------------------------------------------------------------------------------------

REALMS = ['wonderland', 'R\u00e9:alm', 'r\U0001F600m ,x', 'a\\b c', 'in"ner']
KEYS = ['a565c27146791cfb', 'k:\u00e9', '\U0001F511']
CHARSETS = ['utf-8', 'UTF-8', 'utf-8', 'iso-8859-1', 'ISO-8859-1', 'latin-1', 'ascii', 'utf-16']
USERS = [['alice', '4x5istwelve'], ['bob', 'p:w:'], ['ren\u00e9', 'p\u00e4ssw\u00f6rd'],
         ['\U0001F600u', '\U0001F512'], ['co:lon', 'x'], ['qu"ote', 'a"b'], ['back\\slash', 'c\\d'],
         ['com,ma', 'e, f'], ['sp ace', ' lead'], ['nfd', 'e\u0301'], ['nfc', '\u00e9'], ['empty', ''],
         ['\u00c3\u00a9', 'Ã©pw']]
METHODS = ['GET', 'POST', 'HEAD', 'PUT', 'DELETE', 'GET', 'POST', 'get', 'Post']   # method tokens are case-sensitive (RFC 7231 4.1)
HEX = '0123456789abcdef'

D_CORRUPTIONS = [
    'wrong-password', 'other-users-ha1', 'unknown-user', 'nonce-ts+1', 'nonce-ts-1', 'nonce-hash-flip',
    'nonce-foreign-key', 'nonce-foreign-realm', 'nonce-no-colon', 'nonce-stale', 'nonce-stale-edge',
    'nonce-weird-ts', 'drop-field', 'extra-field', 'dup-username', 'wrong-scheme', 'scheme-case',
    'method-mismatch', 'uri-mismatch', 'response-flip', 'response-upper', 'response-empty', 'response-trunc',
    'nc-altered', 'cnonce-altered', 'qop-altered', 'qop-empty', 'qop-unknown', 'alg-unknown', 'alg-case',
    'quote-drop', 'quote-add', 'unquoted-all', 'empty-value', 'no-params', 'garbage', 'rfc2047', 'realm-field',
    'high-bytes', 'spaces', 'no-header', 'stale-and-wrong-password', 'latin1-client',
    'attack-ha1-none', 'attack-empty-password-user', 'attack-response-prefix', 'attack-override-field',
]
B_CORRUPTIONS = [
    'wrong-password', 'unknown-user', 'empty-password', 'no-colon', 'bad-padding', 'bad-chars', 'non-ascii',
    'wrong-scheme', 'scheme-case', 'no-space', 'spaces', 'no-header', 'nfd-form', 'other-charset', 'garbage',
    'extra-colon', 'trailing-junk', 'rfc2047', 'swap-user',
]


class FakeTime:
    def __init__(self):
        self.now = 0

    def time(self):
        return self.now + 0.25


class Rec:
    """what the real code called during one request"""

    def __init__(self):
        self.reset()

    def reset(self):
        self.trace = []      # [kind, [keys as str]]
        self.h_in = []
        self.dec = []        # (bytes, enc, result|None)
        self.parse = []      # (params, kind, dict|None)
        self.b64 = []
        self.nfc = []
        self.seen = ()
        self.raw_challenge = None
        self.ran = False
        self.login = None
        self.ndec = 0
        self.exc = None
        self.exc_at = None


class C19(core.Check):
    pid = 'C19'
    props_files = ('Props/C19.v',)
    refuted_files = ()
    model_fn = ('run_C19', 'Model.M_auth')
    rule = ('Authorization headers from an independent RFC 2617/7616/7617 client for qop in {none, auth, '
            'auth-int} x algorithm in {absent, MD5, md5, MD5-sess} x method, users/passwords/realms/keys over ASCII, '
            'Latin-1, non-BMP, with colons, quotes, backslashes, commas; accept_charset in {utf-8, iso-8859-1, '
            'latin-1, ascii, utf-16}; nonce age in {<0, 0, 599, 600, 601, large}; one corruption per case from a '
            'fixed list (digest %d kinds, basic %d kinds); non-trivial = the tool was reached with an '
            'Authorization header; distinct by (mode, corruption kind, qop, algorithm, outcome class)'
            % (len(D_CORRUPTIONS), len(B_CORRUPTIONS)))
    assumptions = (
        'MD5 is an uninterpreted function H in the model (no collision reasoning); in D its table holds the '
        'harness-computed MD5 of exactly the strings the real run hashed',
        'urllib.request.parse_http_list/parse_keqv_list, bytes.decode(accept_charset), base64.b64decode and '
        'unicodedata.normalize are oracles (recorded from the real run, call arguments compared with the model trace)',
        'str.lower/str.upper are modelled on ASCII letters only (tie obligation: no non-ASCII code point folds '
        'into the ASCII strings compared against)',
        'int() of a nonce timestamp containing non-ASCII characters is outside the model (Unsupported; such a '
        'nonce can only be produced with the server key)',
    )

    # ------------------------------------------------------------------ setup
    def setup(self):
        self.notes += [
            'H in D: md5_hex is wrapped from outside; the table given to the model maps every string the real run '
            'hashed to the MD5 the harness computes itself (hashlib, UTF-8); the model returns its own list of '
            'hashed strings and compare() requires the two sequences to be equal (same for the other oracles)',
            'interpretation: stale="true" is required exactly when everything else in the header verifies and the '
            'genuine nonce has expired (RFC 2617 3.2.1); an expired nonce under a wrong response gets a plain 401',
            'interpretation: the property is an only-if; valid credentials that are refused (MD5-sess -> 400, '
            'auth-int -> 400, Latin-1 hashing client, tolerated-but-odd quoting) are counted (valid-but-refused:*), '
            'not flagged',
            'interpretation: the realm parameter of the Authorization header and the match of its uri with the '
            'request-target are not compared by the code; the property text does not ask for it; not flagged',
            'interpretation: a realm containing a double quote is treated as an invalid configuration - basic_auth '
            'rejects it with ValueError on every request (500), digest_auth does not and sends realm="in"ner" which '
            'does not re-parse; a backslash in the realm is sent unescaped; both counted, reported to the lead, not flagged',
            'interpretation: the framework decodes RFC 2047 encoded words in every request header before the tool '
            'runs; the oracle reads the Authorization value both raw and decoded that way (email.header)',
            'the oracle accepts an admission when the fields some tolerant reader extracts (RFC 7235 reader, or a '
            'split-at-commas-outside-quotes reader) verify under accept_charset, ISO-8859-1 or UTF-8',
        ]
        import cherrypy
        from cherrypy.lib import auth_digest, auth_basic
        from cherrypy import _cprequest
        self.cherrypy = cherrypy
        self.ad, self.ab = auth_digest, auth_basic
        self.apps = {}
        self.rec = rec = Rec()
        self.clock = FakeTime()
        self.saved = [(auth_digest, n, getattr(auth_digest, n)) for n in
                      ('time', 'md5_hex', 'tonative', 'parse_http_list', 'parse_keqv_list')]
        self.saved += [(auth_basic, n, getattr(auth_basic, n)) for n in ('tonative', 'base64', 'unicodedata')]
        orig_md5_hex, orig_tonative = auth_digest.md5_hex, auth_digest.tonative
        orig_phl, orig_pkl = auth_digest.parse_http_list, auth_digest.parse_keqv_list

        def md5_hex(s):
            if isinstance(s, str):
                rec.trace.append([0, [s]])
                rec.h_in.append(s)
            return orig_md5_hex(s)

        def tonative(n, encoding='ISO-8859-1'):
            if not isinstance(n, bytes):
                return orig_tonative(n, encoding)
            rec.ndec += 1
            k = 1 if rec.ndec == 1 else 7
            key = n.decode('latin-1')
            rec.trace.append([k, [key]])
            try:
                r = orig_tonative(n, encoding)
            except ValueError:
                rec.dec.append((key, encoding, None))
                raise
            rec.dec.append((key, encoding, r))
            return r

        def parse_http_list(s):
            rec.trace.append([2, [s]])
            rec.parse.append([s, 2, None])
            return orig_phl(s)

        def parse_keqv_list(l):
            try:
                r = orig_pkl(l)
            except ValueError:
                rec.parse[-1][1] = 1
                raise
            except IndexError:
                rec.parse[-1][1] = 3
                raise
            rec.parse[-1][1] = 0
            rec.parse[-1][2] = dict(r)
            return r

        class B64:
            @staticmethod
            def b64decode(b, *a, **k):
                key = b.decode('latin-1')
                rec.trace.append([4, [key]])
                try:
                    r = base64.b64decode(b, *a, **k)
                except (ValueError, binascii.Error):
                    rec.b64.append((key, None))
                    raise
                rec.b64.append((key, r))
                return r

        class UD:
            @staticmethod
            def normalize(form, s):
                rec.trace.append([5, [s]])
                r = unicodedata.normalize(form, s)
                rec.nfc.append((form, s, r))
                return r

        auth_digest.time = self.clock
        auth_digest.md5_hex = md5_hex
        auth_digest.tonative = tonative
        auth_digest.parse_http_list = parse_http_list
        auth_digest.parse_keqv_list = parse_keqv_list
        auth_basic.tonative = tonative
        auth_basic.base64 = B64
        auth_basic.unicodedata = UD

        def see():
            rec.seen = (cherrypy.serving.request.headers.get('authorization'),)

        def fin():
            rec.raw_challenge = cherrypy.serving.response.headers.get('WWW-Authenticate')

        def err():
            import sys as _sys
            import traceback as _tb
            et, ev, tb = _sys.exc_info()
            fr = _tb.extract_tb(tb)[-1] if tb is not None else None
            rec.exc = getattr(et, '__name__', None)
            rec.exc_at = fr.name if fr is not None else None

        self.hook_err = _cprequest.Hook(err, priority=0)
        self.hook_see = _cprequest.Hook(see, priority=0)
        self.hook_fin = _cprequest.Hook(fin, priority=99)
        self.cache = {}

    def teardown(self):
        for mod, n, v in getattr(self, 'saved', []):
            setattr(mod, n, v)

    def app_for(self, cfg):
        key = json.dumps(cfg, sort_keys=True)
        if key in self.apps:
            return self.apps[key]
        cherrypy, rec = self.cherrypy, self.rec

        class Root:
            @cherrypy.expose
            def default(self, *a, **k):
                rec.ran = True
                rec.login = cherrypy.request.login
                return 'handler ran'
        conf = {'hooks.before_handler': self.hook_see, 'hooks.before_finalize': self.hook_fin,
                'hooks.before_error_response': self.hook_err}
        if cfg['mode'] == 'digest':
            real = self.ad.get_ha1_dict(dict((u, md5u('%s:%s:%s' % (u, cfg['realm'], p))) for u, p in cfg['users'] if p))

            def get_ha1(realm, user):
                rec.trace.append([3, [realm, user]])
                return real(realm, user)
            conf.update({'tools.auth_digest.on': True, 'tools.auth_digest.realm': cfg['realm'],
                         'tools.auth_digest.get_ha1': get_ha1, 'tools.auth_digest.key': cfg['key'],
                         'tools.auth_digest.accept_charset': cfg['charset']})
        else:
            real = self.ab.checkpassword_dict(dict((u, p) for u, p in cfg['users']))

            def checkpassword(realm, user, password):
                rec.trace.append([6, [realm, user, password]])
                return real(realm, user, password)
            conf.update({'tools.auth_basic.on': True, 'tools.auth_basic.realm': cfg['realm'],
                         'tools.auth_basic.checkpassword': checkpassword,
                         'tools.auth_basic.accept_charset': cfg['charset']})
        app = wsgi.make_app(Root(), {'/': conf})
        self.apps[key] = app
        return app

    # ------------------------------------------------------------------ generation
    def gen_cfg(self, rng, mode):
        realm = rng.choice(REALMS[:4] * 6 + REALMS[4:])
        return {'mode': mode, 'realm': realm, 'key': rng.choice(KEYS) if mode == 'digest' else '',
                'charset': rng.choice(CHARSETS), 'users': USERS}

    def wire(self, rng, text, prefer=None):
        encs = [prefer] if prefer else [rng.choice(['utf-8', 'utf-8', 'latin-1'])]
        for e in encs + ['utf-8']:
            try:
                return text.encode(e), e
            except UnicodeEncodeError:
                continue

    def gen_digest(self, rng, corruption=None):
        cfg = self.gen_cfg(rng, 'digest')
        realm, key = cfg['realm'], cfg['key']
        user, pw = rng.choice([u for u in USERS if u[1]])
        qop = rng.choice([None, 'auth', 'auth', 'auth-int'])
        alg = rng.choice([None, None, 'MD5', 'MD5-sess', 'md5'])
        method = rng.choice(METHODS)
        uri = rng.choice(['/', '/a/b', '/p?x=1&y=%C3%A9', '/sp%20ace', '/q"uote'])
        now = rng.choice([1790000000, 1790000000, 600, 5, 2 ** 31 + 7, 10 ** 12])
        age = rng.choice([0, 0, 0, 1, 599, -5, -100000])
        nc, cnonce = '%08x' % rng.choice([1, 2, 255]), rng.choice(['0a4f113b', 'c:n', 'c"n', 'cn\u00e9'])
        body = b'a=b' if method in ('POST', 'PUT') else b''
        kind = corruption if corruption is not None else (
            'none' if rng.random() < .22 else rng.choice(D_CORRUPTIONS))
        henc = 'utf-8'
        use_pw, resp_user, resp_method, resp_uri = pw, user, method, uri
        nonce_realm, nonce_key = realm, key
        ts = str(now - age)
        if kind == 'wrong-password':
            use_pw = rng.choice([pw + 'x', pw[:-1], '', pw.upper() if pw.upper() != pw else pw + ' '])
        elif kind == 'other-users-ha1':
            resp_user, use_pw = rng.choice([u for u in USERS if u[0] != user and u[1]])
        elif kind == 'unknown-user':
            user = resp_user = rng.choice(['mallory', 'Alice', 'alice ', 'empty'])
        elif kind in ('nonce-stale', 'stale-and-wrong-password'):
            ts = str(now - rng.choice([600, 601, 3600, 10 ** 6]))
            if kind == 'stale-and-wrong-password':
                use_pw = pw + 'x'
        elif kind == 'nonce-stale-edge':
            ts = str(now - rng.choice([598, 599, 600, 601]))
        elif kind == 'nonce-foreign-key':
            nonce_key = key + 'x'
        elif kind == 'nonce-foreign-realm':
            nonce_realm = realm + 'x'
        elif kind == 'nonce-weird-ts':
            base = str(now - rng.choice([0, 599, 600, 700]))
            ts = rng.choice([' ' + base, base + '\t', '+' + base, '0' + base, base[:1] + '_' + base[1:] if len(base) > 1 else base,
                             base + '_', '_' + base, base + '.0', '', 'abc', '-' + base, '0x10', base[:1] + '__' + base[1:],
                             '1' * 4300, '1' * 4301, '\x1f' + base, base + '\x0b\x0c', '\u0661\u0662', base + '\u00a0'])
        elif kind == 'latin1-client':
            henc = 'latin-1'
        elif kind == 'attack-empty-password-user':
            user, use_pw = resp_user, _ = 'empty', ''
        # a response computed over something other than this request, with the header itself naming - in a field
        # no RFC defines - the value it was computed over: nothing in the header may stand in for the request's
        # method, target, the stored secret or the server key
        extras = []
        if kind == 'attack-override-field':
            sub = rng.choice(['method', 'method', 'uri', 'password', 'key'])
            if sub == 'method':
                resp_method = rng.choice([m for m in METHODS if m != method])
                extras = [[n, resp_method, rng.random() < .7] for n in rng.choice(
                    [['method'], ['http_method'], ['method', 'http_method'], ['Method'], ['request-method'], ['METHOD']])]
            elif sub == 'uri':
                resp_uri = uri + 'x'
                extras = [[n, resp_uri, True] for n in rng.choice([['request_uri'], ['digest-uri'], ['path'], ['URI']])]
            elif sub == 'password':
                use_pw = pw + 'x'
                extras = [rng.choice([['password', use_pw, True], ['ha1', md5u('%s:%s:%s' % (user, realm, use_pw)), True],
                                      ['HA1', md5u('%s:%s:%s' % (user, realm, use_pw)), True]])]
            else:
                nonce_key = key + 'x'
                extras = [[n, nonce_key, True] for n in rng.choice([['key'], ['nonce_key'], ['secret']])]
        nonce = '%s:%s' % (ts, md5u('%s:%s:%s' % (ts, nonce_realm, nonce_key)))
        if kind == 'method-mismatch':
            resp_method = rng.choice([m for m in METHODS if m != method] + [method.swapcase()])
        if kind == 'uri-mismatch':
            resp_uri = uri + 'x'
        try:
            resp = client_response(resp_user, realm, use_pw, nonce, resp_method, resp_uri, qop, alg, nc, cnonce, body, henc)
        except UnicodeEncodeError:
            resp = client_response(resp_user, realm, use_pw, nonce, resp_method, resp_uri, qop, alg, nc, cnonce, body)
        if kind == 'attack-ha1-none':
            # a user the store does not know, response computed with the text a missing HA1 formats to
            user = rng.choice(['mallory', 'nobody'])
            ha2 = md5u('%s:%s' % (method, uri))
            fake = rng.choice(['None', '', 'null'])
            resp = md5u('%s:%s:%s:%s:%s:%s' % (fake, nonce, nc, cnonce, qop, ha2)) if qop else md5u('%s:%s:%s' % (fake, nonce, ha2))
        fields = [['username', user, True], ['realm', realm, True], ['nonce', nonce, True], ['uri', uri, True],
                  ['response', resp, True]]
        if alg:
            fields.append(['algorithm', alg, False])
        if qop:
            fields += [['qop', qop, False], ['nc', nc, False], ['cnonce', cnonce, True]]
        if rng.random() < .3:
            fields.append(['opaque', '5ccc069c403ebaf9f0171e9517f40e41', True])
        for x in extras:
            fields.insert(rng.randrange(len(fields) + 1), x)
        if rng.random() < .3:
            rng.shuffle(fields)

        def setf(name, fn):
            for f in fields:
                if f[0] == name:
                    f[1] = fn(f[1])

        def flip(h):
            if not h:
                return 'f'
            i = rng.randrange(len(h))
            return h[:i] + rng.choice([x for x in HEX if x != h[i]]) + h[i + 1:]
        if kind == 'nonce-ts+1':
            setf('nonce', lambda v: '%d:%s' % (int(ts) + 1, v.split(':', 1)[1]))
        elif kind == 'nonce-ts-1':
            setf('nonce', lambda v: '%d:%s' % (int(ts) - 1, v.split(':', 1)[1]))
        elif kind == 'nonce-hash-flip':
            setf('nonce', lambda v: v.split(':', 1)[0] + ':' + flip(v.split(':', 1)[1]))
        elif kind == 'nonce-no-colon':
            setf('nonce', lambda v: v.replace(':', rng.choice(['', ';', '%3A'])))
        elif kind == 'drop-field':
            del fields[rng.randrange(len(fields))]
        elif kind == 'extra-field':
            fields.insert(rng.randrange(len(fields) + 1), rng.choice(
                [['foo', 'bar', True], ['userhash', 'false', False], ['username*', "UTF-8''x", False],
                 ['Username', 'mallory', True], ['auth-param', 'a,b="c', True]]))
        elif kind == 'dup-username':
            fields.insert(rng.choice([0, len(fields)]), ['username', rng.choice(['mallory', 'bob']), True])
        elif kind == 'response-flip':
            setf('response', flip)
        elif kind == 'response-upper':
            setf('response', lambda v: v.upper())
        elif kind == 'response-empty':
            setf('response', lambda v: rng.choice(['', 'None', 'null', '0' * 32]))
        elif kind == 'attack-response-prefix':
            setf('response', lambda v: v[:rng.choice([1, 8, 16, 31])])
        elif kind == 'response-trunc':
            setf('response', lambda v: rng.choice([v[:-1], v[1:], v + '0', ' ' + v]))
        elif kind == 'nc-altered':
            if qop:
                setf('nc', lambda v: '%08x' % (int(v, 16) + 1))
            else:
                fields.append(['nc', nc, False])
        elif kind == 'cnonce-altered':
            if qop:
                setf('cnonce', lambda v: v + 'x')
            else:
                fields.append(['cnonce', cnonce, True])
        elif kind == 'qop-altered':
            if qop:
                setf('qop', lambda v: 'auth-int' if v == 'auth' else 'auth')
            else:
                fields += [['qop', 'auth', False], ['nc', nc, False], ['cnonce', cnonce, True]]
        elif kind == 'qop-empty':
            fields[:] = [f for f in fields if f[0] not in ('qop', 'nc', 'cnonce')] + [['qop', '', True]]
        elif kind == 'qop-unknown':
            fields[:] = [f for f in fields if f[0] != 'qop'] + [['qop', rng.choice(['AUTH', 'auth,auth-int', 'x']), True]]
        elif kind == 'alg-unknown':
            fields[:] = [f for f in fields if f[0] != 'algorithm'] + [
                ['algorithm', rng.choice(['SHA-256', 'MD5-SESS', 'md5-sess', 'MD4', '', 'MD5 ']), True]]
        elif kind == 'alg-case':
            fields[:] = [f for f in fields if f[0] != 'algorithm'] + [['algorithm', rng.choice(['md5', 'Md5', 'mD5']), rng.random() < .5]]
        elif kind == 'unquoted-all':
            for f in fields:
                f[2] = False
        elif kind == 'realm-field':
            setf('realm', lambda v: rng.choice(['other', v + 'x', v.upper()]))
        text = render(fields)
        if kind == 'wrong-scheme':
            text = rng.choice(['Basic', 'Bearer', 'Digestx', 'Diges', 'Negotiate', 'NTLM', '']) + text[6:]
        elif kind == 'scheme-case':
            text = rng.choice(['digest', 'DIGEST', 'dIgEsT', 'D\u0130GEST', 'd\u0131gest']) + text[6:]
        elif kind == 'quote-drop':
            pos = [i for i, ch in enumerate(text) if ch == '"']
            i = rng.choice(pos)
            text = text[:i] + text[i + 1:]
        elif kind == 'quote-add':
            i = rng.randrange(7, len(text) + 1)
            text = text[:i] + rng.choice(['"', '\\', '\\"', ',']) + text[i:]
        elif kind == 'empty-value':
            text = rng.choice([text + ', x=', text.replace('uri=', 'uri=, y=', 1), 'Digest a=', 'Digest =', text + ',=',
                               text + ', novalue'])
        elif kind == 'no-params':
            text = rng.choice(['Digest', 'Digest ', 'digest  ', 'Digest ,', 'Digest ,,,'])
        elif kind == 'garbage':
            text = 'Digest ' + ''.join(rng.choice('abc=", \\:\u00e9\xff') for _ in range(rng.randrange(1, 40)))
        elif kind == 'rfc2047':
            text = rng.choice([text.replace('username=', 'x="=?utf-8?q?=E2=82=AC?=", username=', 1),
                               text.replace('username=', 'x="=?utf-8?b?8J+YgA==?=", username=', 1),
                               '=?utf-8?q?Digest?= ' + text[7:], text + ', y="=?iso-8859-1?q?=E9?="'])
        elif kind == 'spaces':
            text = rng.choice([text.replace(' ', '  ', 1), text.replace('Digest ', 'Digest\t', 1), ' ' + text + ' ',
                               text.replace('=', ' = ', 1), text.replace(', ', ',')])
        w, wenc = self.wire(rng, text, 'latin-1' if kind == 'latin1-client' else None)
        if kind == 'high-bytes':
            i = rng.randrange(7, len(w) + 1)
            w = w[:i] + bytes([rng.choice([0x80, 0xff, 0xc3, 0xe9, 0xf0])]) + w[i:]
        if kind == 'no-header':
            w = None
        return {'cfg': cfg, 'method': method, 'target': uri, 'body': body, 'auth': w, 'now': now,
                'tag': ['digest', kind, qop or 'none', alg or 'absent']}

    def gen_basic(self, rng, corruption=None):
        cfg = self.gen_cfg(rng, 'basic')
        user, pw = rng.choice([u for u in USERS if u[1] and ':' not in u[0]])
        kind = corruption if corruption is not None else ('none' if rng.random() < .25 else rng.choice(B_CORRUPTIONS))
        enc = rng.choice(['utf-8', 'utf-8', 'latin-1'])
        if kind == 'wrong-password':
            # the last two: compatibility look-alikes (full-width first character, U+FB01 for 'fi') - different
            # strings under NFC, the only normalisation RFC 7617 allows the server to apply
            pw = rng.choice([pw + 'x', pw[:-1], pw + ':', ':' + pw,
                             (chr(ord(pw[0]) + 0xFEE0) + pw[1:]) if pw and 0x21 <= ord(pw[0]) <= 0x7e else pw + 'x',
                             pw.replace('i', '\u2170', 1) if 'i' in pw else pw + '\uff01'])
        elif kind == 'unknown-user':
            user = rng.choice(['mallory', 'Alice', ' alice', ''])
        elif kind == 'empty-password':
            user, pw = rng.choice([('empty', ''), (user, '')])
        elif kind == 'nfd-form':
            user, pw = rng.choice([('nfc', 'e\u0301'), ('nfd', 'e\u0301'), ('nfd', '\u00e9'),
                                   (unicodedata.normalize('NFD', 'ren\u00e9'), 'p\u00e4ssw\u00f6rd')])
        elif kind == 'other-charset':
            enc = rng.choice(['utf-16', 'cp1252', 'utf-8-sig', 'utf-7'])
        elif kind == 'extra-colon':
            user, pw = rng.choice([('co:lon', 'x'), ('co', 'lon:x'), ('bob', 'p:w:'), ('bob:p', 'w:')])
        elif kind == 'swap-user':
            user = rng.choice([u[0] for u in USERS if u[0] != user and ':' not in u[0]])
        cred = '%s:%s' % (user, pw)
        if kind == 'no-colon':
            cred = rng.choice([user, user + pw, ''])
        try:
            raw = cred.encode(enc)
        except UnicodeEncodeError:
            raw = cred.encode('utf-8')
        b = base64.b64encode(raw).decode('ascii')
        if kind == 'bad-padding':
            b = rng.choice([b.rstrip('='), b + '=', b[:-1], b + 'A', '=' + b])
        elif kind == 'bad-chars':
            i = rng.randrange(len(b) + 1)
            b = b[:i] + rng.choice(['!', ' ', '-', '_', '\t', '%3D', '"']) + b[i:]
        elif kind == 'trailing-junk':
            b = b + rng.choice([' x', ',realm="x"', '==', ' ' + b])
        w = ('Basic ' + b).encode('ascii')
        if kind == 'non-ascii':
            i = rng.randrange(6, len(w) + 1)
            w = w[:i] + bytes([rng.choice([0x80, 0xe9, 0xff])]) + w[i:]
        elif kind == 'wrong-scheme':
            w = rng.choice([b'Digest', b'Basicx', b'Bearer', b'Basi', b'']) + w[5:]
        elif kind == 'scheme-case':
            w = rng.choice([b'basic', b'BASIC', b'bAsIc', 'bas\u0131c'.encode('utf-8'), b'BAS\xddC']) + w[5:]
        elif kind == 'no-space':
            w = rng.choice([b'Basic', b'Basic' + b.encode(), b'Basic\t' + b.encode(), b'Digest', b.encode()])
        elif kind == 'spaces':
            w = rng.choice([b'Basic  ' + b.encode(), b' Basic ' + b.encode() + b'  ', b'Basic ' + b.encode() + b' '])
        elif kind == 'garbage':
            w = b'Basic ' + bytes(rng.choice(b'abcQUJD=+/ :\xe9') for _ in range(rng.randrange(0, 30)))
        elif kind == 'rfc2047':
            w = rng.choice([b'Basic =?utf-8?b?' + b.encode() + b'?=', b'=?utf-8?q?Basic?= ' + b.encode(),
                            b'Basic ' + b.encode() + b' =?utf-8?q?=E2=82=AC?='])
        elif kind == 'no-header':
            w = None
        method = rng.choice(METHODS[:2])
        return {'cfg': cfg, 'method': method, 'target': '/', 'body': b'a=b' if method == 'POST' else b'', 'auth': w,
                'now': 1790000000,
                'tag': ['basic', kind, enc, '']}

    def gen_prims(self, rng):
        out = []
        for c in list(range(0, 130)) + [133, 160, 0x661]:
            out.append({'prim': 'int', 's': chr(c) + '12' + chr(c)})
            out.append({'prim': 'int', 's': '1' + chr(c) + '2'})
        for s in ['', '+', '-', '+-1', '1_0', '1__0', '_1', '1_', '0012', ' +1_2\n', '-0', '1' * 4301,
                  '0' * 4301, '0' * 4300, '0_' * 4299 + '0', '1_' * 4300 + '1', ' ', '\n12\t', '12 3', '0x1f', '1e3', '12.0']:
            out.append({'prim': 'int', 's': s})
        for n in [0, 1, 9, 10, 99, 100, 101, 1790000000, -1, -1200, 2 ** 61 + 5, -2 ** 61]:
            out.append({'prim': 'fmt', 'n': n})
        for _ in range(40):
            out.append({'prim': 'fmt', 'n': rng.randrange(-10 ** 6, 10 ** 15)})
            out.append({'prim': 'int', 's': ''.join(rng.choice('0123456789_+- \t') for _ in range(rng.randrange(1, 8)))})
        return out

    def cases(self):
        rng = self.rng
        nd, nb = (2600, 1100) if self.tier == 'quick' else (60000, 25000)
        out = self.gen_prims(rng)
        for k in D_CORRUPTIONS + ['none']:
            for _ in range(6 if self.tier == 'quick' else 60):
                out.append(self.gen_digest(rng, k))
        for k in B_CORRUPTIONS + ['none']:
            for _ in range(6 if self.tier == 'quick' else 60):
                out.append(self.gen_basic(rng, k))
        out += [self.gen_digest(rng) for _ in range(nd)]
        out += [self.gen_basic(rng) for _ in range(nb)]
        return out

    def search_cases(self, around=None):
        for c in around or []:
            yield c
        for _ in range(20000):
            yield self.gen_digest(self.rng) if self.rng.random() < .7 else self.gen_basic(self.rng)

    # ------------------------------------------------------------------ implementation
    def observe(self, c):
        rec = self.rec
        rec.reset()
        cfg = c['cfg']
        app = self.app_for(cfg)
        self.clock.now = c['now']
        hdrs = []
        if c['auth'] is not None:
            hdrs.append(('Authorization', c['auth']))
        if c.get('body'):
            hdrs += [('Content-Type', 'application/x-www-form-urlencoded'), ('Content-Length', str(len(c['body'])))]
        r = wsgi.call(app, c['method'], c['target'], hdrs, c.get('body') or b'')
        exc = rec.exc if (r.status is not None and r.status >= 500) else None
        return {
            'status': r.status, 'ran': rec.ran, 'login': rec.login,
            'www': wsgi.headers_all(r, 'WWW-Authenticate'), 'raw_challenge': rec.raw_challenge,
            'exc': exc, 'exc_at': rec.exc_at if exc else None, 'escaped': r.escaped, 'reached_tool': bool(rec.seen),
            'seen': rec.seen[0] if rec.seen else None,
            'trace': [list(t) for t in rec.trace], 'h_in': list(rec.h_in),
            'dec': [list(d) for d in rec.dec], 'parse': [list(p) for p in rec.parse],
            'b64': [list(b) for b in rec.b64], 'nfc': [list(n) for n in rec.nfc],
        }

    def impl(self, c):
        if 'prim' in c:
            if c['prim'] == 'int':
                s = c['s']
                if any(ord(ch) >= 128 for ch in s):
                    return {'prim': [2]}
                try:
                    return {'prim': [0, int(s)]}
                except ValueError:
                    return {'prim': [1]}
            return {'prim': sx.norm('%s' % c['n'])}
        k = id(c)
        if k in self.cache:
            return self.cache.pop(k)
        return self.observe(c)

    # ------------------------------------------------------------------ model side
    def encode(self, c):
        if 'prim' in c:
            return [2, c['s']] if c['prim'] == 'int' else [3, c['n']]
        obs = self.observe(c)
        self.cache[id(c)] = obs
        cfg = c['cfg']
        if not obs['reached_tool']:
            return [2, '']
        header = [] if obs['seen'] is None else [obs['seen']]
        dectab = [[[b], [] if r is None else [r]] for b, enc, r in obs['dec'] if enc == cfg['charset']]
        if cfg['mode'] == 'digest':
            htab = [[[s], md5u(s)] for s in obs['h_in']]
            parsetab = [[[s], [kind, [[k, v] for k, v in (d or {}).items()]]] for s, kind, d in obs['parse']]
            store = [[u, md5u('%s:%s:%s' % (u, cfg['realm'], p))] for u, p in cfg['users'] if p]
            return [0, cfg['realm'], cfg['key'], cfg['charset'], header, c['method'], c['now'],
                    htab, dectab, parsetab, store]
        b64tab = [[[k], [] if r is None else [r]] for k, r in obs['b64']]
        nfctab = [[[s], r] for form, s, r in obs['nfc'] if form == 'NFC']
        return [1, cfg['realm'], cfg['charset'], header, b64tab, dectab, nfctab, [[u, p] for u, p in cfg['users']]]

    def compare(self, c, mo, obs):
        if 'prim' in c:
            return None if mo == obs['prim'] else 'primitive %r: model %r python %r' % (c, mo, obs['prim'])
        if not obs['reached_tool']:
            self.count('tool-not-reached:%s' % obs['status'])
            return None
        out, trace = mo
        kind = out[0]
        if kind == 2:
            self.count('model-unsupported')
            if not any(ord(ch) >= 128 for ch in (obs['seen'] or '')):
                return 'model answered Unsupported for an ASCII header'
            return None
        if kind == 0:
            if not (obs['ran'] and obs['status'] == 200):
                return 'model: handler reached; impl: status %s ran=%s' % (obs['status'], obs['ran'])
            if sx.norm(obs['login']) != out[1]:
                return 'login: model %r impl %r' % (out[1], obs['login'])
        else:
            if obs['ran']:
                return 'model: status %d; impl: handler ran' % kind
            if obs['status'] != kind:
                return 'status: model %d impl %s (%s)' % (kind, obs['status'], obs['exc'])
            if kind == 401 and sx.norm(obs['raw_challenge']) != out[1]:
                return 'challenge: model %r impl %r' % (bytes(x for x in out[1] if 0 <= x < 256), obs['raw_challenge'])
            if kind == 500:
                want = {1: 'TypeError', 2: 'ValueError', 3: None, 4: 'ValueError', 5: 'ValueError'}[out[1]]
                if want is not None and obs['exc'] != want:
                    return '500: model reason %d impl %s' % (out[1], obs['exc'])
                if want is None and obs['exc'] in ('ValueError', 'TypeError', None):
                    return '500: model says parser exception, impl %s' % obs['exc']
        itrace = [[k, [sx.norm(s) for s in keys]] for k, keys in obs['trace']]
        if trace != itrace:
            for i, (a, b) in enumerate(zip(trace, itrace)):
                if a != b:
                    return 'external call %d differs: model %r impl %r' % (i, a, b)
            return 'external calls: model made %d, impl %d' % (len(trace), len(itrace))
        # enc of the two decode calls
        cs = c['cfg']['charset']
        for i, (b, enc, r) in enumerate(obs['dec']):
            if enc != (cs if i == 0 else 'ISO-8859-1'):
                return 'decode call %d used charset %r' % (i, enc)
        # the harness's MD5 = what the real md5_hex computes
        return None

    # ------------------------------------------------------------------ property oracle
    def known_5xx_class(self, c, obs):
        """5xx answers that do not admit anybody and are not the tool's doing.  (qop=auth-int, qop="" and an
        empty parameter value used to end in 500; since 36a7761, b4a1923, d550473 they are 400 and any 5xx from
        the digest tool is flagged.)"""
        cfg, w = c['cfg'], c['auth'] or b''
        at = (obs['exc'], obs.get('exc_at'))
        if cfg['mode'] == 'basic':
            return 'basic-realm-with-quote(config)' if '"' in cfg['realm'] and at == ('ValueError', 'basic_auth') else None
        return None

    def oracle(self, c, obs):
        if 'prim' in c:
            return []
        fails = []
        cfg = c['cfg']
        mode = cfg['mode']
        tag = c.get('tag', [mode, '?', '', ''])
        if not obs['reached_tool'] and not obs['ran']:
            self.count('answered-before-the-tool:%s:%s' % (obs['status'], obs['exc']))
            return fails
        if obs['ran']:
            login = obs['login']
            if mode == 'digest':
                ok = digest_classify(c, login) == 'valid'
            else:
                ok = basic_valid(c, login)
            if login is None or not ok:
                fails.append(('admitted-invalid:%s' % mode,
                              'the handler ran (login %r) for an Authorization header whose credentials do not verify: %r'
                              % (login, c['auth'])))
            self.count('admitted:%s' % mode)
            return fails
        st = obs['status']
        if mode == 'digest':
            strict = digest_classify(c, None, liberal=False)
            if strict == 'valid':
                self.count('valid-but-refused:%s:%s:%s:%s' % (tag[2], tag[3], tag[1], st))
        if st == 400:
            self.count('refused-400:%s' % mode)
            return fails
        if st is not None and st >= 500:
            cls = self.known_5xx_class(c, obs)
            if cls is None:
                fails.append(('unexpected-5xx:%s' % mode, 'status %s (%s) for header %r' % (st, obs['exc'], c['auth'])))
            else:
                self.count('5xx-not-admitting:%s' % cls)
                if len([n for n in self.notes if cls in n]) < 1:
                    self.notes.append('5xx, not an admission, a configuration error: %s; e.g. Authorization: %r'
                                      % (cls, c['auth']))
            return fails
        if st != 401:
            fails.append(('unexpected-status:%s' % mode, 'status %s for header %r' % (st, c['auth'])))
            return fails
        self.count('refused-401:%s' % mode)
        # the challenge
        if len(obs['www']) != 1:
            fails.append(('challenge-missing:%s' % mode, '401 with %d WWW-Authenticate headers' % len(obs['www'])))
            return fails
        ch = obs['www'][0]
        if '=?' in ch:
            from email.header import decode_header
            try:
                ch = ''.join(a.decode(cs or 'latin-1') if isinstance(a, bytes) else a for a, cs in decode_header(ch))
                self.count('challenge-rfc2047-encoded')
            except Exception:
                pass
        scheme, _, rest = ch.partition(' ')
        kv = rfc_params(rest)
        d = dict(kv) if kv is not None else {}
        want_cs = cfg['charset'].upper()
        if '"' in cfg['realm'] and mode == 'digest':
            self.count('digest-realm-with-quote(config):challenge-not-checked')
            return fails
        if kv is None or scheme != ('Digest' if mode == 'digest' else 'Basic') or d.get('realm') != cfg['realm']:
            # a backslash in the realm is sent unescaped: a quoted-string reader drops it
            if '\\' in cfg['realm'] and kv is not None and d.get('realm') == cfg['realm'].replace('\\', ''):
                self.count('realm-backslash-unescaped(config)')
            else:
                fails.append(('challenge-malformed:%s' % mode, 'challenge does not re-parse to the realm: %r' % ch))
                return fails
        if (d.get('charset') if want_cs != 'ISO-8859-1' else None) != (want_cs if want_cs != 'ISO-8859-1' else None):
            if not (want_cs == 'ISO-8859-1' and 'charset' not in d):
                fails.append(('challenge-charset:%s' % mode, 'charset parameter %r for accept_charset %r'
                              % (d.get('charset'), cfg['charset'])))
        if mode == 'digest':
            fresh = issue_nonce(c['now'], cfg['realm'], cfg['key'])
            if d.get('nonce') != fresh or d.get('algorithm') != 'MD5' or d.get('qop') != 'auth':
                fails.append(('challenge-fields:digest', 'nonce/algorithm/qop of the challenge: %r, expected nonce %r'
                              % (ch, fresh)))
            stale = d.get('stale')
            if stale is not None and stale.lower() != 'true':
                fails.append(('challenge-stale-value', 'stale=%r' % stale))
            lib = digest_classify(c, None, liberal=True)
            if stale is not None and lib != 'stale':
                fails.append(('stale-without-cause', 'stale=true although the header is not a valid response over a '
                              'genuine expired nonce: %r' % c['auth']))
            if stale is None and strict == 'stale':
                fails.append(('stale-not-signalled', 'valid response over a genuine expired nonce, 401 without stale=true: %r'
                              % c['auth']))
            if stale is not None:
                self.count('refused-401-stale')
        return fails

    def nontrivial(self, c, obs):
        if 'prim' in c or not obs['reached_tool'] or c['auth'] is None:
            return None
        tag = c.get('tag', ['?'] * 4)
        cls = 'ran' if obs['ran'] else str(obs['status'])
        self.count('kind:%s:%s' % (tag[0], tag[1]))
        self.count('outcome:%s:%s' % (tag[0], cls))
        return (tag[0], tag[1], tag[2], tag[3], cls, c['cfg']['charset'].lower())

    def shrink(self, c, still_fails):
        if 'prim' in c or c['auth'] is None:
            return c
        c = dict(c)
        b = core.shrink_list(list(c['auth']), lambda l: still_fails(dict(c, auth=bytes(l))))
        c['auth'] = bytes(b)
        return c

    # ------------------------------------------------------------------ generated ties
    def ties(self):
        import ast
        import os
        import sys
        obl = []
        # CPython case folding facts behind lower_ascii / upper_ascii
        bad = []
        for cp in range(128, sys.maxunicode + 1):
            ch = chr(cp)
            lo, up = ch.lower(), ch.upper()
            if all(ord(x) < 128 for x in lo) and set(lo) & set('digestbasic'):
                bad.append('lower U+%04X' % cp)
            if all(ord(x) < 128 for x in up) and set(up) & set('MD5-sess'):
                bad.append('upper U+%04X' % cp)
        obl.append(core.Obligation('py-tie: no non-ASCII code point lower()s into letters of digest/basic or '
                                   'upper()s into characters of MD5-sess', not bad, ' '.join(bad[:20])))
        src = open(os.path.join(core.REPO, 'cherrypy/lib/auth_digest.py')).read()
        tree = ast.parse(src)
        consts = {}
        for n in tree.body:
            if isinstance(n, ast.Assign) and len(n.targets) == 1 and isinstance(n.targets[0], ast.Name):
                try:
                    consts[n.targets[0].id] = ast.literal_eval(n.value)
                except ValueError:
                    pass
        consts['valid_qops'] = (consts['qop_auth'], consts['qop_auth_int'])
        fns = {n.name: n for n in ast.walk(tree) if isinstance(n, ast.FunctionDef)}
        pat = [ast.literal_eval(n.value) for n in ast.walk(fns['www_authenticate'])
               if isinstance(n, ast.Assign) and getattr(n.targets[0], 'id', '') == 'HEADER_PATTERN'][0]
        stale_lit = [n.body.value for n in ast.walk(fns['www_authenticate'])
                     if isinstance(n, ast.IfExp) and isinstance(n.body, ast.Constant) and 'stale' in str(n.body.value)][0]
        cs_lit = [n.left.value for n in ast.walk(fns['_get_charset_declaration'])
                  if isinstance(n, ast.BinOp) and isinstance(n.left, ast.Constant)][0]
        max_age = [kw.value.value for n in ast.walk(fns['digest_auth']) if isinstance(n, ast.Call)
                   for kw in n.keywords if kw.arg == 'max_age_seconds'][0]
        defaults = dict(zip([a.arg for a in fns['www_authenticate'].args.args][-len(fns['www_authenticate'].args.defaults):],
                            fns['www_authenticate'].args.defaults))
        alg_default = ast.literal_eval(defaults['algorithm'])
        qop_default = consts[defaults['qop'].id]
        expect = pat % ('r', '5:h', alg_default, qop_default, stale_lit, cs_lit % 'UTF-8')
        z = lambda s: '[' + ';'.join(str(ord(ch)) for ch in s) + ']'
        text = '\n'.join([
            'From Coq Require Import ZArith List Bool.', 'From CV Require Import Lib.Sx Lib.ListZ Model.M_auth.',
            'Import ListNotations.', 'Open Scope Z_scope.',
            'Lemma tie_constants : (s_auth, s_auth_int, s_MD5, s_MD5_sess, s_fallback, nonce_max_age) = (%s, %s, %s, %s, %s, %d).'
            % (z(consts['valid_qops'][0]), z(consts['valid_qops'][1]), z(consts['valid_algorithms'][0]),
               z(consts['valid_algorithms'][1]), z(consts['FALLBACK_CHARSET']), max_age),
            'Proof. vm_compute. reflexivity. Qed.',
            'Lemma tie_challenge : fst (respond_401 (fun _ => [104]) (Cfg [114] [107] [117;116;102;45;56]) 5 true) = R401 %s.'
            % z(expect),
            'Proof. vm_compute. reflexivity. Qed.', ''])
        ok, out = core.coq_check_text('Tie_C19', text)
        obl.append(core.Obligation('tie: valid_qops, valid_algorithms, FALLBACK_CHARSET, max_age_seconds, HEADER_PATTERN '
                                   'and defaults of www_authenticate as read from auth_digest.py = model constants',
                                   ok, '' if ok else out))
        # tool registration
        t = ast.parse(open(os.path.join(core.REPO, 'cherrypy/_cptools.py')).read())
        regs = {}
        for n in ast.walk(t):
            if (isinstance(n, ast.Assign) and isinstance(n.targets[0], ast.Attribute)
                    and n.targets[0].attr in ('auth_basic', 'auth_digest') and isinstance(n.value, ast.Call)):
                regs[n.targets[0].attr] = (ast.unparse(n.value.args[0]), ast.unparse(n.value.args[1]),
                                           [ast.unparse(k.value) for k in n.value.keywords if k.arg == 'priority'])
        want = {'auth_basic': ("'before_handler'", 'auth_basic.basic_auth', ['1']),
                'auth_digest': ("'before_handler'", 'auth_digest.digest_auth', ['1'])}
        obl.append(core.Obligation('py-tie: _cptools registers auth_basic/auth_digest at before_handler, priority 1',
                                   regs == want, repr(regs)))
        return obl


CHECK = C19
