"""C13 - session access is mutually exclusive and the lock is always released.

D (a): schedules (lists of thread ids at the granularity of the visible steps: every fetch of RamSession.cache /
.locks inside the anchored functions, every acquire / acquire(False) / release of a per-id lock object) are run
through the REAL RamSession code on real threads under vcheck.impl.scheduler (harness: vcheck.impl.sched_c13)
and through the extracted interleaving model of coq/Model/M_locks.v; step traces, journals and final shared
state are compared.  The schedules are the complete enumeration of all schedules with a bounded number of
pre-emptions, produced by stateless search on the real code (2..3 request threads + the clean_up sweep).
D (b): one request through the real WSGI stack (vcheck.impl.wsgi) for every request outcome x locking mode x
backend {RAM, file} x fault placement; the session's `locked` flag and lock count at six probe points are
compared with the bookkeeping model; afterwards the lock must be free for another thread and a following
request on the same id must complete.
G: SessionTool._setup / sessions.save / close / Session.save / _regenerate are re-read with `ast` on every
run and the hook table (points, priorities, failsafe flags) is tied to the model's by vm_compute.
O: judged from the implementation's observations only."""
import ast
import json
import os
import re
import shutil
import threading
import time

from .. import core

KIND = {'rmw': 0, 'fail': 1, 'regen': 2, 'ro': 3}
STATE = {'new': 0, 'live': 1, 'expired': 2, 'missing': 3}
MODES = ['implicit', 'early', 'explicit']
OUTCOMES = ['ok', 'httperror', 'redirect', 'exception', 'stream_done', 'stream_abandoned', 'regenerate',
            'body_error', 'internal_redirect']
# the streamed body raises after its first chunk (the server re-raises and calls close()): same lock
# bookkeeping as an abandoned stream - the deferred save and the release happen in on_end_request
MODEL_OUTCOME = {'stream_raises': 'stream_abandoned'}
ALL_OUTCOMES = OUTCOMES + ['stream_raises']
POINTS = {'before_request_body': 1, 'before_handler': 2, 'before_finalize': 3, 'on_end_resource': 4,
          'on_end_request': 5}


def model_fixed():
    """the model variant D compares with: the REPAIRED acquire_lock unless VERIF_C13_FIXED=0"""
    return os.environ.get('VERIF_C13_FIXED', '1') != '0'


class C13(core.Check):
    pid = 'C13'
    props_files = ('Props/C13.v',)
    refuted_files = ('Refuted/R_C13.v',)
    model_fn = ('run_C13', 'Model.M_locks')
    xcheck_n = 30
    rule = ('(a) complete enumeration (stateless search on the real threads under the deterministic scheduler) of '
            'all schedules with <= k pre-emptions, k per scenario in the distribution; scenario = session state '
            '{new, live, expired, missing} x request programs over {read-modify-write, handler fails, regenerate '
            'mid-request, no access} for 2..3 request threads x 0..2 clean_up sweeps x lock object already in the '
            'table or not; (b) every request outcome x locking mode x backend x fault placement, each as prime '
            'request + request under test + follow-up request on the same id; a schedule case is non-trivial when '
            'at least one pre-emption happened and two threads touched the lock table, distinct by (scenario, '
            'journal); a sequential case is non-trivial when the session lock was taken, distinct by case')
    assumptions = (
        'thread switches happen between bytecode instructions; in D only the instructions that fetch the shared '
        'tables (RamSession.cache, RamSession.locks) and the lock operations are scheduling points (the '
        'instructions in between touch thread-local data only); in the opcode-level search every instruction of '
        'acquire_lock / release_lock / clean_up is one',
        'dict operations (setdefault, get, pop, del, in, copy, list) are atomic (GIL); threading.RLock is replaced '
        'by a cooperative re-entrant lock with the same acquire/release/ownership semantics',
        'one clean_up sweep runs at a time (one Monitor thread per session class)',
        'filelock / flock are trusted for the file backend (across processes: not exercised); the file backend is '
        'checked sequentially only (release after every outcome), not under the scheduler',
        'the WSGI server calls close() on the response iterable, also when it abandons a streamed body')

    # ------------------------------------------------------------------ G: ties
    def ties(self):
        src_tools = open(os.path.join(core.REPO, 'cherrypy', '_cptools.py')).read()
        src_sess = open(os.path.join(core.REPO, 'cherrypy', 'lib', 'sessions.py')).read()
        t_tools, t_sess = ast.parse(src_tools), ast.parse(src_sess)

        def find_class(tree, name):
            return next(n for n in tree.body if isinstance(n, ast.ClassDef) and n.name == name)

        def find_fn(body, name):
            return next(n for n in body if isinstance(n, ast.FunctionDef) and n.name == name)
        # attributes set on the module functions: save.failsafe = True ...
        attrs = {}
        for n in t_sess.body:
            if (isinstance(n, ast.Assign) and len(n.targets) == 1 and isinstance(n.targets[0], ast.Attribute)
                    and isinstance(n.targets[0].value, ast.Name) and isinstance(n.value, ast.Constant)):
                attrs.setdefault(n.targets[0].value.id, {})[n.targets[0].attr] = n.value.value
        tool = find_class(t_tools, 'SessionTool')
        init = find_fn(tool.body, '__init__')
        call = next(n.value for n in ast.walk(init) if isinstance(n, ast.Expr) and isinstance(n.value, ast.Call)
                    and ast.unparse(n.value.func) == 'Tool.__init__')
        point0 = call.args[1].value
        callable0 = ast.unparse(call.args[2])
        tool_base = find_class(t_tools, 'Tool')
        tinit = find_fn(tool_base.body, '__init__')
        names = [a.arg for a in tinit.args.args]
        tool_prio = tinit.args.defaults[names.index('priority') - (len(names) - len(tinit.args.defaults))].value
        lock_fn = find_fn(tool.body, '_lock_session')
        if 'cherrypy.serving.session.acquire_lock()' not in ast.unparse(lock_fn):
            raise ValueError('SessionTool._lock_session does not call session.acquire_lock()')
        CALL = {'_sessions.init': ('init', 1), 'self._lock_session': (None, 2), '_sessions.save': ('save', 3),
                '_sessions.close': ('close', 4), 'cherrypy.session.save': (None, 5)}

        def row(when, c, p_default):
            if ast.unparse(c.func) not in ('hooks.attach', 'request.hooks.attach'):
                raise ValueError('unexpected call %s' % ast.unparse(c))
            pt = c.args[0]
            pt = point0 if ast.unparse(pt) == 'self._point' else pt.value
            cb = ast.unparse(c.args[1])
            cb = callable0 if cb == 'self.callable' else cb
            fname, code = CALL[cb]
            fa = attrs.get(fname, {}) if fname else {}
            prio = None
            for kw in c.keywords:
                if kw.arg == 'priority':
                    prio = kw.value.value if isinstance(kw.value, ast.Constant) else 'p'
                elif kw.arg == 'failsafe':
                    raise ValueError('explicit failsafe keyword')
            if prio == 'p':      # p = conf.pop('priority') or getattr(self.callable, 'priority', self._priority)
                prio = fa.get('priority', p_default)
            elif prio is None:   # Hook.__init__: getattr(callback, 'priority', 50)
                prio = fa.get('priority', 50)
            return (when, POINTS[pt], code, prio, bool(fa.get('failsafe', False)))
        from ..translate import pynorm
        setup = pynorm.inline_methods(tool, find_fn(tool.body, '_setup'))   # private helper methods, in place
        rows = []

        def walk(stmts, when):
            for s in stmts:
                if isinstance(s, ast.Expr) and isinstance(s.value, ast.Call) and \
                        ast.unparse(s.value.func).endswith('hooks.attach'):
                    rows.append(row(when, s.value, tool_prio))
                elif isinstance(s, ast.If):
                    t = ast.unparse(s.test)
                    m = re.fullmatch(r"locking == '(\w+)'", t)
                    if m is None:
                        if any('hooks.attach' in ast.unparse(x) for x in s.body + s.orelse):
                            raise ValueError('hooks attached under an unknown condition: %s' % t)
                        continue
                    walk(s.body, {'implicit': 1, 'early': 2}[m.group(1)])
                    walk(s.orelse, when)
                elif isinstance(s, (ast.For, ast.While, ast.Try, ast.With)):
                    if 'hooks.attach' in ast.unparse(s):
                        raise ValueError('hooks attached inside a compound statement')
        walk(setup.body, 0)
        # sessions.save: the streaming re-attach
        save_fn = find_fn(t_sess.body, 'save')
        re_rows = []
        for n in ast.walk(save_fn):
            tst = ast.unparse(n.test) if isinstance(n, ast.If) else None
            if tst in ('response.stream', 'not response.stream'):
                for s in (n.body if tst == 'response.stream' else n.orelse):      # the branch taken when streaming
                    if isinstance(s, ast.Expr) and isinstance(s.value, ast.Call) and \
                            ast.unparse(s.value.func).endswith('hooks.attach'):
                        re_rows.append(row(0, s.value, tool_prio))
        if len(re_rows) != 1:
            raise ValueError('sessions.save: expected exactly one re-attach under `if response.stream`')
        # Session.save: release in finally, guarded by self.locked
        sess_cls = find_class(t_sess, 'Session')
        ssave = find_fn(sess_cls.body, 'save')
        in_finally = False
        for n in ast.walk(ssave):
            if isinstance(n, ast.Try):
                for f in n.finalbody:
                    if isinstance(f, ast.If) and ast.unparse(f.test) == 'self.locked' and \
                            any('self.release_lock()' in ast.unparse(x) for x in f.body):
                        in_finally = True
        close_fn = find_fn(t_sess.body, 'close')
        close_ok = any(isinstance(n, ast.If) and "getattr(sess, 'locked', False)" in ast.unparse(n.test)
                       and any('sess.release_lock()' in ast.unparse(x) for x in n.body)
                       for n in ast.walk(close_fn))
        if not close_ok:
            # guard-clause form: a local holding the `locked` flag, `if not <local>: return`, then the release
            src_c = ast.unparse(close_fn)
            m = re.search(r"(\w+) = getattr\(sess, 'locked', False\)\n\s*if not \1:\n\s*return\n(.*)", src_c, flags=re.S)
            close_ok = bool(m and 'sess.release_lock()' in m.group(2) and
                            not re.search(r"\breturn\b|\braise\b", m.group(2).split('sess.release_lock()')[0]))
        regen = ast.unparse(find_fn(sess_cls.body, '_regenerate'))
        i_rel, i_acq, i_gen = regen.find('self.release_lock()'), regen.find('self.acquire_lock()'), \
            regen.find('self.generate_id()')
        regen_ok = 0 <= i_rel < i_gen < i_acq and regen.count('if old_session_was_locked') == 2

        def hr(r):
            return 'HR %d %d %d %d %s' % (r[0], r[1], r[2], r[3], 'true' if r[4] else 'false')

        def b(x):
            return 'true' if x else 'false'
        text = '\n'.join([
            'From Coq Require Import ZArith List Bool.', 'Import ListNotations.',
            'From CV Require Import Model.M_locks.', 'Open Scope Z_scope.',
            'Definition gen_hooks : list hrow := [%s].' % '; '.join(hr(r) for r in rows),
            'Lemma tie_sessiontool_setup : gen_hooks = session_hooks.', 'Proof. vm_compute; reflexivity. Qed.',
            'Lemma tie_save : %s = reattach_hook.' % hr(re_rows[0]), 'Proof. vm_compute; reflexivity. Qed.',
            'Lemma tie_session_save : %s = save_releases_in_finally.' % b(in_finally),
            'Proof. vm_compute; reflexivity. Qed.',
            'Lemma tie_close : %s = close_releases_if_locked.' % b(close_ok), 'Proof. vm_compute; reflexivity. Qed.',
            'Lemma tie_regenerate : %s = regenerate_relocks.' % b(regen_ok), 'Proof. vm_compute; reflexivity. Qed.',
            ''])
        ok, out = core.coq_check_text('Tie_C13', text)
        self.notes.append('G: hook table read from the source: %s ; re-attach %s ; save-finally %s close %s regen %s'
                          % (rows, re_rows[0], in_finally, close_ok, regen_ok))
        return [core.Obligation('tie_sessiontool_setup+tie_save+tie_session_save+tie_close+tie_regenerate '
                                '(generated from cherrypy/_cptools.py, cherrypy/lib/sessions.py)', ok,
                                '' if ok else out)]

    # ------------------------------------------------------------------ harness
    def setup(self):
        from ..impl.scheduler import Scheduler
        from ..impl.sched_c13 import Harness
        from ..impl import wsgi
        self.wsgi = wsgi
        self.cherrypy = wsgi.quiet_cherrypy()
        self.H = Harness()
        self.S = Scheduler(step_timeout=10.0, exec_timeout=60.0)
        self.opcode = None
        self.granularity(False)
        self.cache = {}
        self.all_sched = []
        self.main_sigs = set()
        self.work = os.path.join(core.WORK, 'C13', 'store.%d' % os.getpid())
        self.apps = {}
        self.cur = {}

    def teardown(self):
        S = getattr(self, 'S', None)
        if S is not None:
            self.stats['scheduler_executions'] = S.executions
            self.stats['threads_leaked'] = S.leaked_total
            S.close()
            self.S = None
        shutil.rmtree(getattr(self, 'work', '') or '/nonexistent', ignore_errors=True)
        n = sum(1 for t in threading.enumerate() if t.name.startswith(('vcheck-', 'c13-')))
        self.stats['threads_alive_at_teardown'] = n

    def granularity(self, opcode):
        if opcode != self.opcode:
            self.opcode = opcode
            self.H.bind(self.S, opcode=opcode)

    @staticmethod
    def key(c):
        return json.dumps(c, sort_keys=True)

    # ------------------------------------------------------------------ (a) scheduler cases
    def scenarios(self):
        q = self.tier == 'quick'
        R, F, G, N = KIND['rmw'], KIND['fail'], KIND['regen'], KIND['ro']
        # (state, kinds, sweeps, prelock, bound, cap)
        if q:
            return [('expired', [R, R], 1, 1, 2, 3000), ('new', [R, R], 1, 0, 2, 2000),
                    ('expired', [G, R], 1, 1, 2, 700), ('live', [R, G], 1, 1, 1, 700),
                    ('missing', [R, F], 1, 0, 1, 600), ('live', [R, R, R], 0, 1, 2, 700),
                    ('expired', [R, R, R], 1, 1, 1, 700), ('live', [N, R], 1, 0, 2, 500),
                    ('expired', [R, F], 2, 0, 1, 600)]
        return [('expired', [R, R], 1, 1, 3, 60000), ('expired', [R, R], 1, 0, 3, 60000),
                ('new', [R, R], 1, 0, 3, 40000), ('expired', [G, R], 1, 1, 2, 20000),
                ('live', [R, G], 1, 1, 2, 20000), ('missing', [R, F], 1, 0, 2, 20000),
                ('live', [R, R, R], 0, 1, 2, 20000), ('expired', [R, R, R], 1, 1, 2, 40000),
                ('new', [R, G, F], 1, 0, 2, 30000), ('live', [N, R], 1, 0, 3, 20000),
                ('expired', [R, F], 2, 0, 2, 20000), ('live', [F, R], 1, 1, 2, 10000)]

    def enumerate(self, base, bound, cap, out):
        self.granularity(bool(base.get('opcode')))
        setup = self.H.setup_fn(base)
        n = 0
        for r in self.S.explore(setup, bound, limit=cap):
            c = dict(base, sched=list(r.schedule))
            self.cache[self.key(c)] = self.H.observe(c, r)
            out.append(c)
            n += 1
        return n

    def seq_cases(self):
        out = []
        for backend in ('ram', 'file'):
            for mode in MODES:
                for oc in ALL_OUTCOMES:
                    for fe in (0, 1):
                        for fs in ((0, 1) if backend == 'file' else (0,)):
                            for ff in (0, 1):
                                out.append({'sys': 'seq', 'backend': backend, 'mode': mode, 'outcome': oc,
                                            'faults': [fe, fs, ff]})
        return out

    def cases(self):
        out = []
        for state, kinds, sweeps, prelock, bound, cap in self.scenarios():
            base = {'sys': 'ram', 'state': state, 'kinds': kinds, 'sweeps': sweeps, 'n0': 5, 'prelock': prelock}
            n = self.enumerate(base, bound, cap, out)
            self.count('ram %s %s sweeps=%d prelock=%d k<=%d%s' % (
                state, '/'.join(k for x in kinds for k, v in KIND.items() if v == x), sweeps, prelock, bound,
                '' if n < cap else ' (capped)'), n)
        self.all_sched = list(out)
        seq = self.seq_cases()
        self.count('sequential request outcome x locking x backend x faults', len(seq))
        return out + seq

    def search_cases(self, around=None):
        """one more pre-emption than the enumeration on the basic scenarios"""
        for c in around or []:
            yield c
        R = KIND['rmw']
        for state, kinds, sweeps, prelock in (('expired', [R, R], 1, 1), ('new', [R, R], 1, 0),
                                              ('expired', [R, R], 1, 0)):
            base = {'sys': 'ram', 'state': state, 'kinds': kinds, 'sweeps': sweeps, 'n0': 5, 'prelock': prelock}
            tmp = []
            self.enumerate(base, 3, 30000, tmp)
            for c in tmp:
                yield c

    # ------------------------------------------------------------------ implementation drivers
    def impl(self, c):
        if c['sys'] == 'seq':
            return self.impl_seq(c)
        k = self.key(c)
        if k in self.cache:
            return self.cache.pop(k)
        self.granularity(bool(c.get('opcode')))
        r = self.S.execute(self.H.setup_fn(c), c['sched'])
        return self.H.observe(c, r)

    # ---- (b) one request through the WSGI stack
    def app_for(self, backend, mode):
        k = (backend, mode)
        if k in self.apps:
            return self.apps[k]
        cherrypy = self.cherrypy
        from cherrypy.lib import sessions
        from cherrypy._cprequest import Hook
        chk = self
        cur = self.cur

        def lock_count(sess):
            if sess is None:
                return 0
            if backend == 'ram':
                lk = sessions.RamSession.locks.get(sess.id)
                if lk is None:
                    return 0
                m = re.search(r'owner=(\d+) count=(\d+)', repr(lk))
                return int(m.group(2)) if m and int(m.group(1)) == threading.get_ident() else 0
            lk = getattr(sess, 'lock', None)
            return 1 if (lk is not None and lk.is_locked) else 0

        def probe(i):
            def fn():
                sess = getattr(cherrypy.serving, 'session', None)
                if sess is not None:
                    cur['sess'] = sess
                cur['obs'].append([i, 1 if (sess is not None and sess.locked) else 0, lock_count(sess)])
            return fn

        def fail_end():
            if cur['faults'][0]:
                raise ValueError('on_end_request user hook fails')

        def fail_fin():
            if cur['faults'][2]:
                raise ValueError('before_finalize user hook fails')

        class Unpicklable(object):
            def __reduce__(self):
                raise TypeError('cannot pickle this')

        def use(out):
            sess = cherrypy.session
            if mode == 'explicit':
                sess.acquire_lock()
            v = sess.get('n', 0)
            sess['n'] = v + 1
            if cur['faults'][1] and backend == 'file':
                sess['bad'] = Unpicklable()
            probe(6)()
            return v

        class Root(object):
            @cherrypy.expose
            def index(self, **kw):
                oc = cur['outcome']
                probe(2)()
                v = use(oc)
                cur['read'] = v
                if oc == 'regenerate':
                    cherrypy.session.regenerate()
                if oc == 'httperror':
                    raise cherrypy.HTTPError(418, 'teapot')
                if oc == 'redirect':
                    raise cherrypy.HTTPRedirect('/other')
                if oc == 'exception':
                    raise ValueError('handler fails')
                if oc == 'internal_redirect':
                    raise cherrypy.InternalRedirect('/other')
                if oc in ('stream_done', 'stream_abandoned', 'stream_raises'):
                    cherrypy.response.stream = True

                    def gen():
                        yield b'chunk1 '
                        if oc == 'stream_raises':
                            raise ValueError('the body generator fails after its first chunk')
                        yield b'chunk2 '
                        yield b'chunk3'
                    return gen()
                return ('n=%d' % (v + 1)).encode()

            @cherrypy.expose
            def other(self, **kw):
                probe(2)()
                v = use('ok')
                return ('n=%d' % (v + 1)).encode()
        conf = {'/': {
            'tools.sessions.on': True, 'tools.sessions.locking': mode, 'tools.sessions.clean_freq': 0,
            'tools.sessions.storage_class': sessions.RamSession if backend == 'ram' else sessions.FileSession,
            'hooks.before_request_body.p0': Hook(probe(0), failsafe=True, priority=90),
            'hooks.before_handler.p1': Hook(probe(1), failsafe=True, priority=90),
            'hooks.before_finalize.p3': Hook(probe(3), failsafe=True, priority=90),
            'hooks.before_finalize.f': Hook(fail_fin, failsafe=False, priority=60),
            'hooks.on_end_resource.p4': Hook(probe(4), failsafe=True, priority=50),
            'hooks.on_end_request.p5': Hook(probe(5), failsafe=True, priority=95),
            'hooks.on_end_request.f': Hook(fail_end, failsafe=False, priority=10),
        }}
        if backend == 'file':
            conf['/']['tools.sessions.storage_path'] = self.work
        app = self.wsgi.make_app(Root(), conf)
        self.apps[k] = app
        return app

    def impl_seq(self, c):
        from cherrypy.lib import sessions
        from filelock import FileLock, Timeout
        backend, mode, oc = c['backend'], c['mode'], c['outcome']
        cur = self.cur
        sessions.RamSession.cache.clear()
        sessions.RamSession.locks.clear()
        shutil.rmtree(self.work, ignore_errors=True)
        if os.path.exists(self.work):            # a blocked worker of an earlier case still holds files there
            self._gen = getattr(self, '_gen', 0) + 1
            self.work = os.path.join(core.WORK, 'C13', 'store.%d.%d' % (os.getpid(), self._gen))
            shutil.rmtree(self.work, ignore_errors=True)
        os.makedirs(self.work, exist_ok=True)
        app = self.app_for(backend, mode)

        def request(outcome, faults, cookie=None, abandon=None):
            cur.update({'outcome': outcome, 'faults': faults, 'obs': [], 'sess': None, 'read': None})
            hdrs = [('Cookie', 'session_id=%s' % cookie)] if cookie else []
            if outcome == 'body_error':
                r = self.wsgi.call(app, 'POST', '/', hdrs + [('Content-Type', 'application/x-www-form-urlencoded'),
                                                            ('Content-Length', '5')], b'a=%ff')
            else:
                r = self.wsgi.call(app, 'GET', '/', hdrs, abandon_after=abandon)
            ck = None
            for v in self.wsgi.headers_all(r, 'Set-Cookie'):
                m = re.match(r'session_id=([0-9a-f]+)', v)
                if m:
                    ck = m.group(1)
            return r, ck

        def held_locks():
            """(acquisitions on the current id's lock, on all other locks) as seen from THIS thread"""
            sess = cur['sess']
            if backend == 'ram':
                tot, mine = 0, 0
                for k, lk in sessions.RamSession.locks.items():
                    m = re.search(r'owner=(\d+) count=(\d+)', repr(lk))
                    n = int(m.group(2)) if m else 0
                    tot += n
                    if sess is not None and k == sess.id:
                        mine = n
                return mine, tot - mine
            lk = getattr(sess, 'lock', None) if sess is not None else None
            return (1 if (lk is not None and lk.is_locked) else 0), 0

        def free_for_others():
            """can ANOTHER thread take every session lock right now?"""
            res = {}

            def body():
                bad = []
                if backend == 'ram':
                    for k, lk in list(sessions.RamSession.locks.items()):
                        if lk.acquire(blocking=False):
                            lk.release()
                        else:
                            bad.append(str(k)[:8])
                else:
                    for f in sorted(os.listdir(self.work)):
                        p = os.path.join(self.work, f)
                        if not f.endswith('.lock'):
                            p += '.lock'
                        fl = FileLock(p)
                        try:
                            fl.acquire(timeout=0)
                            fl.release()
                        except Timeout:
                            bad.append(f[:16])
                res['bad'] = bad
            t = threading.Thread(target=body, name='c13-freecheck', daemon=True)
            t.start()
            t.join(5)
            return res.get('bad', ['free-check did not finish'])
        # every request runs on its own worker thread that stays alive until the case is over (as the threads of
        # a server's pool do: a re-used thread ident would re-enter a leaked RLock and hide the leak), and is
        # given up after a time limit (a request blocked on a leaked lock must not hang the check)
        done = threading.Event()

        def on_worker(fn, limit=20):
            box = {}

            def body():
                try:
                    box['r'] = fn()
                except BaseException as e:      # noqa
                    box['exc'] = e
                done.wait(120)
            t = threading.Thread(target=body, name='c13-worker', daemon=True)
            t.start()
            t0 = time.time()
            while 'r' not in box and 'exc' not in box and time.time() - t0 < limit:
                time.sleep(0.002)
            if 'exc' in box:
                raise box['exc']
            return box.get('r')
        HUNG = {'sys': 'seq', 'hung': True, 'prime_ok': True, 'status': None, 'escaped': None, 'obs': [], 'locked': 0,
                'count': 0, 'leak': 0, 'notfree': [], 'follow': {'ran': False}, 'cookie_changed': False}
        if getattr(self, '_hung', 0) >= 3:
            return dict(HUNG, hung='skipped after 3 blocked requests')
        try:
            res0 = on_worker(lambda: request('ok', [0, 0, 0]))
            if res0 is None:
                self._hung = getattr(self, '_hung', 0) + 1
                return dict(HUNG, hung='the priming request blocked')
            r0, ck0 = res0
            prime_ok = r0['status'] == 200 and ck0 is not None and not free_for_others()
            res1 = on_worker(lambda: request(oc, c['faults'], ck0, abandon=1 if oc == 'stream_abandoned' else None))
            if res1 is None:
                self._hung = getattr(self, '_hung', 0) + 1
                return dict(HUNG, hung='the request under test blocked on the session lock its predecessor left')
            r1, ck1 = res1
        finally:
            done_later = done
        obs = list(cur['obs'])
        sess = cur['sess']
        mine, others = held_locks()
        locked = 1 if (sess is not None and sess.locked) else 0
        notfree = free_for_others()
        follow = {'ran': False}
        if not notfree:
            res = {}

            def body():
                r2, _ = request('ok', [0, 0, 0], ck1 or ck0)
                res['status'] = r2['status']
                res['body'] = r2['body'][:20]
            t = threading.Thread(target=body, name='c13-followup', daemon=True)
            t.start()
            t.join(10)
            follow = {'ran': True, 'completed': 'status' in res, 'status': res.get('status'),
                      'free_after': not free_for_others()}
        done.set()
        return {'sys': 'seq', 'prime_ok': prime_ok, 'status': r1['status'], 'escaped': r1['escaped'],
                'obs': obs, 'locked': locked, 'count': mine, 'leak': others, 'notfree': notfree, 'follow': follow,
                'cookie_changed': bool(ck1 and ck1 != ck0)}

    # ------------------------------------------------------------------ model side
    def encode(self, c):
        if c['sys'] == 'seq':
            return [1, MODES.index(c['mode']), OUTCOMES.index(MODEL_OUTCOME.get(c['outcome'], c['outcome']))] + list(c['faults'])
        return [0, 1 if model_fixed() else 0, STATE[c['state']], c['n0'], c['prelock'], list(c['kinds']), c['sweeps'],
                list(c['sched'])]

    def compare(self, c, mo, obs):
        if isinstance(mo, str):
            return 'model: ' + mo
        if c['sys'] == 'seq':
            if obs.get('hung'):
                return None if obs['hung'].startswith('skipped') else 'implementation blocked: ' + obs['hung']
            m_obs, m_locked, m_count, m_leak = mo
            if m_obs != obs['obs']:
                return 'lock bookkeeping at the probe points differs: model %s impl %s' % (m_obs, obs['obs'])
            if [m_locked, m_count, m_leak] != [obs['locked'], obs['count'], obs['leak']]:
                return 'after close(): model locked/count/leak %s impl %s' % (
                    [m_locked, m_count, m_leak], [obs['locked'], obs['count'], obs['leak']])
            return None
        m_status, m_trace, m_journal, m_cache, m_locks, m_objs, m_locked = mo
        if obs['labels_unknown']:
            return 'the implementation executed visible instructions the model does not have: %s' % obs['labels_unknown']
        if m_trace != obs['trace']:
            i = next((i for i, (a, b) in enumerate(zip(m_trace, obs['trace'])) if a != b),
                     min(len(m_trace), len(obs['trace'])))
            return 'step traces differ at step %d: model %s impl %s' % (i, m_trace[i:i + 3], obs['trace'][i:i + 3])
        if m_journal != obs['journal']:
            i = next((i for i, (a, b) in enumerate(zip(m_journal, obs['journal'])) if a != b),
                     min(len(m_journal), len(obs['journal'])))
            return 'journals differ at event %d: model %s impl %s' % (i, m_journal[i:i + 3], obs['journal'][i:i + 3])
        if m_status != obs['status']:
            return 'status: model %s impl %s (%s)' % (m_status, obs['status'], obs['detail'])
        for name, m, o in (('cache', m_cache, obs['cache']), ('lock table', m_locks, obs['locks']),
                           ('lock objects', m_objs, obs['objs']), ('locked flags', m_locked, obs['locked'])):
            if m != o:
                return 'final %s differ: model %s impl %s' % (name, m, o)
        return None

    # ------------------------------------------------------------------ property oracle (implementation only)
    def oracle(self, c, obs):
        fails = []
        if c['sys'] == 'seq':
            what = '%s backend, locking=%s, outcome=%s, faults(end,save,fin)=%s' % (
                c['backend'], c['mode'], c['outcome'], c['faults'])
            if obs.get('hung'):
                if obs['hung'].startswith('skipped'):
                    return fails
                fails.append(('next-request-blocked:%s' % c['backend'],
                              'a request on the session never got the lock (%s): %s' % (obs['hung'], what)))
                return fails
            if not obs['prime_ok']:
                fails.append(('seq-prime-failed', 'the priming request did not create a session / left a lock: ' + what))
            if obs['notfree'] or obs['locked'] or obs['count'] or obs['leak']:
                fails.append(('lock-held-after-close:%s' % c['backend'],
                              'after close() the session lock is still held (locked=%s count=%s other=%s, not '
                              'acquirable by another thread: %s): %s' % (obs['locked'], obs['count'], obs['leak'],
                                                                         obs['notfree'], what)))
            elif not obs['follow'].get('completed') or obs['follow'].get('status') != 200 \
                    or not obs['follow'].get('free_after'):
                fails.append(('next-request-blocked:%s' % c['backend'],
                              'a following request on the same session did not complete normally (%s): %s'
                              % (obs['follow'], what)))
            return fails
        if obs['status'] == 9:
            fails.append(('scheduler-stuck', 'execution did not complete under the scheduler: %s' % obs['detail']))
        for t, e in obs['errors'].items():
            fails.append(('exception:%s' % e.split(':')[0], 'thread %s ended with %s' % (t, e)))
        j = obs['journal']
        if obs['occ_max'] > 1:
            fails.append(('two-holders', '%d requests were between acquire_lock and release_lock of session %s at '
                          'the same time' % (obs['occ_max'], obs['occ_who'])))
        # read-modify-write atomicity: no other request saves the session between a request's load and its save
        reads = {}
        for i, e in enumerate(j):
            if e[0] == 2:
                reads[(e[1], e[2])] = i
            elif e[0] == 3 and (e[1], e[2]) in reads:
                i0 = reads.pop((e[1], e[2]))
                other = [x for x in j[i0 + 1:i] if x[0] == 3 and x[2] == e[2] and x[1] != e[1]]
                if other:
                    fails.append(('lost-update', 'request %d read counter of session %d, request %d saved it, then '
                                  'request %d saved its own update: an update is lost' % (e[1], e[2], other[0][1], e[1])))
        nreq = len(c['kinds'])
        if obs['status'] == 0 and c['state'] == 'live' and all(k in (KIND['rmw'], KIND['ro']) for k in c['kinds']):
            want = c['n0'] + sum(1 for k in c['kinds'] if k == KIND['rmw'])
            got = next((n for i, n, _ in obs['cache'] if i == 1), None)
            if got != want:
                fails.append(('lost-update', 'final counter %s after %d increments of %d' % (got, want - c['n0'], c['n0'])))
        for e in j:
            if e[0] == 4:
                who = 'request %d' % e[1] if e[1] < nreq else 'the clean_up sweep'
                fails.append(('release-raises' if e[1] < nreq else 'sweep-raises',
                              '%s: %s raised while releasing / looking up the session lock'
                              % (who, {1: 'KeyError', 2: 'RuntimeError'}.get(e[2], 'an exception'))))
        done = {e[1] for e in j if e[0] == 5}
        for t in sorted(done):
            if obs['locked'][t]:
                fails.append(('lock-not-released', 'request %d is over with session.locked still True' % t))
        for n, (owner, cnt) in enumerate(obs['objs']):
            if owner in done or (owner == nreq and obs['status'] == 0):
                fails.append(('lock-not-released', 'lock object %d is still owned (count %d) by thread %d which is over'
                              % (n, cnt, owner)))
        if obs['status'] == 2:
            fails.append(('deadlock', 'no thread is enabled but not all are over: %s' % obs['detail']))
        seen, out = set(), []
        for f in fails:
            if f[0] not in seen:
                seen.add(f[0])
                out.append(f)
                if not c.get('opcode'):
                    self.main_sigs.add(f[0])
        return out

    def nontrivial(self, c, obs):
        if c['sys'] == 'seq':
            return self.key(c) if any(o[1] for o in obs['obs']) else None
        tr = obs['trace']
        tids = {t for t, l in tr if l in (20, 21, 31)}
        switches = sum(1 for a, b in zip(tr, tr[1:]) if a[0] != b[0])
        if len(tids) < 2 or switches < len({t for t, _ in tr}):
            return None
        scen = json.dumps({k: v for k, v in c.items() if k != 'sched'}, sort_keys=True)
        return (scen, json.dumps(obs['journal']))

    def shrink(self, c, still_fails):
        if c['sys'] != 'ram':
            return c
        sched = core.shrink_list(c['sched'], lambda s: still_fails(dict(c, sched=s)))
        return dict(c, sched=sched)

    # ------------------------------------------------------------------ extra: determinism + opcode level
    def extra(self):
        out = []
        pool = self.all_sched
        bad = None
        for c in self.rng.sample(pool, min(40 if self.tier == 'quick' else 300, len(pool))):
            a, b = self.impl(c), self.impl(c)
            self.count('replayed twice (determinism)')
            if a != b or not a['trace'] or len(a['trace']) < len(c['sched']):
                bad = (c, a, b)
        if bad:
            out.append(core.Violation('scheduler-nondeterministic', 'the same schedule gave two different executions',
                                      case=bad[0], observed=bad[1], expected=bad[2], kind='correspondence',
                                      no_input=True, broken=['deterministic-replay']))
        # opcode granularity (oracle only): every instruction of acquire_lock / release_lock / clean_up
        q = self.tier == 'quick'
        found = {}
        R = KIND['rmw']
        for state, kinds, sweeps, prelock, bound, cap in (
                ('expired', [R, R], 1, 1, 1, 1500 if q else 30000), ('new', [R], 1, 0, 2 if not q else 1, 1500 if q else 30000),
                ('expired', [R, R], 1, 0, 1 if q else 2, 800 if q else 30000)):
            base = {'sys': 'ram', 'state': state, 'kinds': kinds, 'sweeps': sweeps, 'n0': 5, 'prelock': prelock,
                    'opcode': True}
            self.granularity(True)
            n = 0
            for r in self.S.explore(self.H.setup_fn(base), bound, limit=cap):
                c = dict(base, sched=list(r.schedule))
                obs = self.H.observe(c, r)
                n += 1
                for sig, what in self.oracle(c, obs):
                    if sig not in self.main_sigs and sig not in found:
                        found[sig] = core.Violation(sig, what + ' (opcode-level schedule)', case=c, observed=obs,
                                                    kind='oracle')
            self.count('opcode-level %s %d requests sweeps=%d k<=%d%s (oracle only)' % (
                state, len(kinds), sweeps, bound, '' if n < cap else ' (capped)'), n)
        self.granularity(False)
        return out + list(found.values()) + self.thread_probes()

    def thread_probes(self):
        """two histories on real threads with explicit rendez-vous (oracle only):
        (a) a streamed resource ended by InternalRedirect after it used the session: a later request for the same
            session on ANOTHER thread must get the lock (the release must not depend on how close() ends);
        (b) file backend, explicit locking: request R1 locks the session, deletes it (logout) and keeps working under
            the lock; R2, which had looked the id up before the delete, asks for the lock meanwhile: it must not get it
            while R1 is still between acquire_lock and release_lock."""
        import tempfile
        import time
        import cherrypy
        from cherrypy.lib import sessions
        from ..impl import wsgi
        out = []
        store = tempfile.mkdtemp(prefix='c13x', dir=os.path.join(core.WORK, 'C13'))
        flags = {}
        ev = {'go2': threading.Event(), 'r2_has_lock': threading.Event(), 'holding': threading.Event(),
              'late_done': threading.Event()}

        class Root(object):
            @cherrypy.expose
            def first(self):
                cherrypy.session['n'] = cherrypy.session.get('n', 0) + 1
                return b'ok'

            @cherrypy.expose
            def streamed(self):
                cherrypy.session['n'] = cherrypy.session.get('n', 0) + 1
                cherrypy.response.stream = True
                raise cherrypy.InternalRedirect('/first')

            @cherrypy.expose
            def r1(self):
                sess = cherrypy.session
                sess.acquire_lock()
                flags['r1_in_cs'] = True
                sess['n'] = 1
                sess.delete()
                ev['go2'].set()
                ev['r2_has_lock'].wait(1.5)          # keeps working under the lock
                flags['r2_entered_while_r1_inside'] = ev['r2_has_lock'].is_set()
                flags['r1_in_cs'] = False
                return b'r1'

            @cherrypy.expose
            def hold(self):
                sess = cherrypy.session
                sess.acquire_lock()
                flags['holder_in_cs'] = True
                ev['holding'].set()
                ev['late_done'].wait(2.0)              # holds the lock longer than the other request's lock_timeout
                flags['holder_in_cs'] = False
                sess['h'] = 1
                return b'hold'

            @cherrypy.expose
            def late(self):
                sess = cherrypy.session
                try:
                    sess.acquire_lock()                # lock_timeout 0.4 s: must raise LockTimeout, not return
                    flags['late_entered_while_held'] = bool(flags.get('holder_in_cs'))
                    sess['l'] = 1
                finally:
                    ev['late_done'].set()
                return b'late'

            @cherrypy.expose
            def r2(self):
                sess = cherrypy.session                # the id was looked up in before_request_body
                ev['go2'].wait(10)
                sess.acquire_lock()
                if flags.get('r1_in_cs'):
                    ev['r2_has_lock'].set()
                sess['m'] = 2
                return b'r2'
        try:
            for backend in ('ram', 'file'):
                conf = {'tools.sessions.on': True, 'tools.sessions.clean_freq': 0,
                        'tools.sessions.storage_class': sessions.RamSession if backend == 'ram' else sessions.FileSession}
                if backend == 'file':
                    conf['tools.sessions.storage_path'] = store
                    conf['tools.sessions.lock_timeout'] = 20
                app = wsgi.make_app(Root(), {'/': conf, '/r1': {'tools.sessions.locking': 'explicit'},
                                             '/r2': {'tools.sessions.locking': 'explicit'},
                                             '/hold': {'tools.sessions.locking': 'explicit'},
                                             '/late': {'tools.sessions.locking': 'explicit',
                                                       'tools.sessions.lock_timeout': 0.4}})

                def get(path, sid=None, box=None):
                    r = wsgi.call(app, 'GET', path, [] if sid is None else [('Cookie', 'session_id=' + sid)])
                    if box is not None:
                        box.append(r['status'])
                    return r
                r = get('/first')
                sid = [v for k, v in r['headers'] if k.lower() == 'set-cookie'][0].split(';')[0].split('=', 1)[1]
                # (a)
                ra = get('/streamed', sid)
                box = []
                t = threading.Thread(target=get, args=('/first', sid, box), daemon=True)
                t.start()
                t.join(6)
                self.count('thread probe: streamed InternalRedirect then another thread (%s)' % backend)
                if t.is_alive() or box != [200]:
                    out.append(core.Violation(
                        'lock-not-released:streamed-internal-redirect',
                        '%s backend: a streamed resource ended by InternalRedirect (answered %s); the next request for '
                        'the same session on another thread %s' % (backend, ra['status'], 'is still blocked after 6 s: '
                                                                     'the lock was never released' if t.is_alive()
                                                                     else 'was answered %r' % box),
                        case={'k': 'streamed-internal-redirect', 'backend': backend},
                        observed={'first': ra['status'], 'second': box, 'blocked': t.is_alive()}))
                    break
                # (b)
                if backend == 'file':
                    flags.clear()
                    ev['go2'].clear()
                    ev['r2_has_lock'].clear()
                    sid = [v for k, v in get('/first')['headers'] if k.lower() == 'set-cookie'][0].split(';')[0].split('=', 1)[1]
                    b2 = []
                    t2 = threading.Thread(target=get, args=('/r2', sid, b2), daemon=True)
                    t2.start()
                    time.sleep(0.3)                     # R2 is past the id lookup, waiting for go2
                    b1 = []
                    t1 = threading.Thread(target=get, args=('/r1', sid, b1), daemon=True)
                    t1.start()
                    t1.join(15)
                    t2.join(15)
                    self.count('thread probe: delete() under the lock while another request waits (file)')
                    if flags.get('r2_entered_while_r1_inside') or t1.is_alive() or t2.is_alive():
                        out.append(core.Violation(
                            'two-holders:after-delete',
                            'file backend: R1 locked session %s, deleted it and kept working; R2 (same id, looked up '
                            'before the delete) %s' % (sid, 'acquired the session lock while R1 was still inside its '
                                                       'critical section' if flags.get('r2_entered_while_r1_inside')
                                                       else 'or R1 never finished'),
                            case={'k': 'delete-under-lock'}, observed={'flags': dict(flags), 'r1': b1, 'r2': b2}))
                # (c) file backend: a request whose lock_timeout runs out while another one holds the session
                if backend == 'file' and not out:
                    flags.clear()
                    sid = [v for k, v in get('/first')['headers'] if k.lower() == 'set-cookie'][0].split(';')[0].split('=', 1)[1]
                    bh, bl = [], []
                    th = threading.Thread(target=get, args=('/hold', sid, bh), daemon=True)
                    th.start()
                    ev['holding'].wait(10)
                    tl = threading.Thread(target=get, args=('/late', sid, bl), daemon=True)
                    tl.start()
                    tl.join(15)
                    th.join(15)
                    self.count('thread probe: lock_timeout runs out while the session is held (file)')
                    if flags.get('late_entered_while_held'):
                        out.append(core.Violation(
                            'two-holders:after-lock-timeout',
                            'file backend: a request with lock_timeout 0.4 s asked for the lock of session %s while another '
                            'request held it; after the timeout acquire_lock() returned and the request went on inside the '
                            'locked section (answers: holder %r, late %r)' % (sid, bh, bl),
                            case={'k': 'lock-timeout-while-held'}, observed={'flags': dict(flags), 'holder': bh, 'late': bl}))
                import logging
                try:
                    cherrypy.engine.unsubscribe('graceful', app.log.reopen_files)
                except Exception:
                    pass
                for lg in (app.log.error_log, app.log.access_log):
                    logging.Logger.manager.loggerDict.pop(lg.name, None)
        finally:
            sessions.RamSession.cache.clear()
            sessions.RamSession.locks.clear()
            shutil.rmtree(store, ignore_errors=True)
        return out


CHECK = C13
