"""C07 - malformed client input is answered with 4xx, never with 5xx.

Every case is one request on the wire: (method token, request-target, header list, body bytes, protocol),
built from per-element grammars (query strings, RFC 2047 words, cookies, Range, conditionals, Accept-*,
Authorization, Content-Type / -Length / -Disposition parameters, charsets, url-encoded / multipart / JSON
bodies) and SYSTEMATIC mutations of them (truncation, duplication, wrong separators, unknown charsets,
non-numeric numbers, unbalanced quotes, missing terminators), sent through vcheck.impl.wsgi (cheroot's environ)
to every target resource of one application (plain handler, parser API consumer, strict-signature handler,
static dir / file, sessions ram / file, caching, basic + digest auth, json_in, multipart consumers,
encode + gzip, accept, proxy, referer, etags, MethodDispatcher).

Oracle (independent of the model): status < 500 for EVERY request that reaches CherryPy.  The finding's
signature is 5xx:<module>.<function>:<ExceptionClass>, taken from the live exception CherryPy logs
(innermost frame inside the cherrypy package).

Model (coq/Model/M_malformed.v): for the element a case focuses on, the parser model with explicit crash
points predicts Ok | Reject code | Crash cls @ point; library calls (decode_header, bytes.decode,
SimpleCookie.load, json, base64, unquote, parse_keqv_list, float) are oracles whose answers the harness takes
from the standard library itself and whose declared raise-sets are checked on every call.  The model runs in
its *repaired* configuration; C07_VARIANT=written selects the as-written one (development aid)."""
import base64
import hashlib
import json
import os
import re
import shutil
import sys
import time
import logging

from .. import core, sx
from ..impl import wsgi

WORKDIR = os.path.join(core.WORK, 'C07')
STATICDIR = os.path.join(WORKDIR, 'static')
SESSDIR = os.path.join(WORKDIR, 'sess')

REALM = 'wonderland'
DIGEST_KEY = 'a565c27146791cfb'
USERS = {'alice': '4x5istwelve', 'ren\xe9': 'p\xe4ss'}

# ---------------------------------------------------------------------------------------------------
# mutation operators (systematic: every operator x every applicable position; the generator samples them
# in the quick tier and enumerates them in the thorough tier)

UNKNOWN_CHARSETS = ['nope', 'undefined', 'hex', 'base64', 'rot13', 'unicode_escape', 'raw_unicode_escape', 'idna',
                    'punycode', 'utf-16', 'utf-32', 'utf-7', 'zlib', 'bz2', 'mbcs', 'oem', '', 'utf\xe98', 'utf-8 ',
                    'x' * 300, 'utf-8;', '"', 'ascii\x00', 'cp65001', 'unicode_internal', 'string_escape', 'quopri', 'uu']
NON_NUMBERS = ['', 'abc', '-1', '+1', '1e3', '0x10', '1.5', ' 1', '1 ', '1_0', '\xb2', '99999999999999999999999',
               '9' * 4400, 'nan', 'inf', '-', '1,2', '١']
SEPARATORS = [(';', ','), (',', ';'), ('=', ':'), (':', '='), (' ', '\t'), ('&', ';'), ('/', '\\'), ('=', ' = '),
              ('; ', ';'), (', ', ','), ('-', '–'), ('"', "'"), ('?', '??'), ("'", '"')]


def latin1(s):
    return ''.join(c for c in s if ord(c) < 256)


def mutations(s):
    """all (label, mutant) of the string s under the systematic operators"""
    n = len(s)
    out = []
    # truncation
    for i in range(n):
        out.append(('truncate', s[:i]))
    # head truncation (missing introducer)
    for i in (1, 2, 3):
        if i < n:
            out.append(('behead', s[i:]))
    # duplication of a prefix / suffix / the whole / each token
    out.append(('duplicate', s + s))
    out.append(('duplicate', s + ', ' + s))
    out.append(('duplicate', s + '; ' + s))
    for m in re.finditer(r'[^,;&= ]+', s):
        out.append(('duplicate', s[:m.end()] + m.group(0) + s[m.end():]))
        out.append(('drop-token', s[:m.start()] + s[m.end():]))
    # wrong separators
    for a, b in SEPARATORS:
        b = latin1(b)
        i = s.find(a)
        while i >= 0:
            out.append(('separator', s[:i] + b + s[i + len(a):]))
            i = s.find(a, i + 1)
        if a in s:
            out.append(('separator', s.replace(a, b)))
    # non-numeric numbers
    for m in re.finditer(r'[0-9]+(?:\.[0-9]+)?', s):
        for r in NON_NUMBERS:
            r = latin1(r)
            out.append(('number', s[:m.start()] + r + s[m.end():]))
    # unbalanced quotes / brackets
    for i, ch in enumerate(s):
        if ch in '"\'<>()[]{}':
            out.append(('quote', s[:i] + s[i + 1:]))
            out.append(('quote', s[:i] + ch + s[i:]))
    out.append(('quote', '"' + s))
    out.append(('quote', s + '"'))
    out.append(('quote', s + '\\'))
    # unknown charsets
    for m in re.finditer(r'(?i)(utf-?8|iso-8859-1|us-ascii|latin-?1|utf-16)', s):
        for r in UNKNOWN_CHARSETS:
            out.append(('charset', s[:m.start()] + r + s[m.end():]))
    # missing terminators
    for t in ('?=', '"', '--', '\r\n', ';', '=', "''"):
        if s.endswith(t):
            out.append(('terminator', s[:-len(t)]))
        i = s.rfind(t)
        if i >= 0:
            out.append(('terminator', s[:i] + s[i + len(t):]))
    # foreign characters
    for ch in ('\x00', '\x7f', '\xa0', '\xff', '\t', '%', '=?', '\x0b', '\x85'):
        for i in sorted({0, n // 2, n}):
            out.append(('char', s[:i] + ch + s[i:]))
    out.append(('empty', ''))
    out.append(('long', s * 40))
    return out


def header_ok(v):
    """what a conforming server delivers as a field value: latin-1, no CR/LF, stripped"""
    v = latin1(v).replace('\r', '').replace('\n', '')
    return v.strip()


def b_mutations(b):
    """byte-string analogue (bodies)"""
    out = []
    n = len(b)
    step = max(1, n // 48)
    for i in list(range(0, n, step)) + [max(n - 1, 0), max(n - 2, 0), max(n - 3, 0), max(n - 4, 0)]:
        out.append(('truncate', b[:i]))
    for a, r in ((b'\r\n', b'\n'), (b'\r\n', b'\r'), (b'\r\n\r\n', b'\r\n'), (b': ', b' '), (b':', b''), (b'; ', b', '),
                 (b'=', b''), (b'"', b''), (b'--', b'-'), (b'--', b''), (b'&', b'&&'), (b'=', b'=='), (b',', b',,'),
                 (b'{', b''), (b'}', b''), (b'[', b''), (b']', b''), (b'\r\n', b'\r\n '), (b'\r\n', b'\r\n\t'),
                 (b'utf-8', b'nope'), (b'utf-8', b'undefined'), (b'utf-8', b'utf-16'), (b'utf-8', b'hex'),
                 (b'form-data', b''), (b'name', b'nam\xe9'), (b'Content-Disposition', b'Content-Type')):
        i = b.find(a)
        k = 0
        while i >= 0 and k < 12:
            out.append(('replace:%s>%s' % (a.decode('latin-1').encode('unicode_escape').decode(),
                                           r.decode('latin-1').encode('unicode_escape').decode()),
                        b[:i] + r + b[i + len(a):]))
            i = b.find(a, i + 1)
            k += 1
        if a in b:
            out.append(('replace-all', b.replace(a, r)))
    out.append(('duplicate', b + b))
    for ch in (b'\x00', b'\xff', b'\xc3', b'%', b'%zz', b'%ff', b'\r', b'\n', b'--'):
        for i in sorted({0, n // 2, n}):
            out.append(('char', b[:i] + ch + b[i:]))
    out.append(('empty', b''))
    return out


# ---------------------------------------------------------------------------------------------------
# element grammars: valid members (the mutation operators are applied to these)

RFC2047_VALID = ['=?utf-8?q?f=C3=BCr?=', '=?utf-8?b?6IiA?=', '=?iso-8859-1?q?caf=E9?=', '=?us-ascii?Q?plain?=',
                 '=?UTF-8?B?w6k=?= =?UTF-8?B?w6k=?=']
RFC2047_BAD = ['=?nope?q?x?=', '=?utf-8?q?=FF?=', '=?utf-8?b?%%%?=', 'abc =?utf-8?q?x?=', '=?utf-8?q?x?= abc',
               '=?unicode_escape?q?=5Cud800?=', '=?utf-16?b?AA==?=', '=??q?x?=', '=?hex?q?zz?=', '=?undefined?q?x?=',
               '=?idna?q?xn--a?=', '=?utf-8?x?abc?=', '=?utf-8?b?QQ?=', '=?utf-8?b?Q?=', '=?', '=?utf-8?q?', 'a=?b',
               '=?utf-8?q??=', '=?utf-8*en?q?x?=', '=?rot13?q?x?=', '=?base64?q?x?=', '=?zlib?q?x?=', '=?utf-7?q?+?=',
               '=?punycode?q?=FF?=', '=?raw_unicode_escape?q?=5Cuzzzz?=', '=?utf-8?q?a?==?nope?q?b?=',
               '=?utf-32?q?abc?=', '=?ascii?q?=80?=', '=?cp65001?q?x?=', '=?utf\xe98?q?x?=', '=?utf-8?q?\xe9?=']
RFC2047_HEADERS = ['X-Custom', 'User-Agent', 'Accept', 'Cookie', 'Content-Type', 'Authorization', 'Host', 'Range',
                   'If-None-Match', 'Referer', 'Accept-Encoding', 'Accept-Charset', 'Content-Disposition',
                   'Cache-Control', 'X-Forwarded-For', 'X-Forwarded-Host']

COOKIES_VALID = ['a=b', 'a=b; c=d', 'session_id=0123456789abcdef0123456789abcdef01234567', 'a="quoted value"; b=2',
                 '$Version=1; a=b; $Path=/', 'k=v; Path=/; Domain=example.com', 'a="\\"esc\\"\\073"', 'a=; b=']
COOKIES_BAD = ['a b=c', '=x', 'a="unterminated', 'a,b=1', ';;;', 'a[]=1', 'a:b=1', 'a=b=c', '"a"=b', 'a\xe9=1', 'a=\xe9',
               'expires=1', 'path=/', 'a=b; expires', '$=1', 'a=b,c=d', 'a=b; ;c=d', '{a}=1', 'a@b=1', '(a)=1', 'a=1; a=2',
               'a="\\000"', 'a="\\777"', 'Max-Age=x', 'domain', 'a=b; $Path', 'a==', 'a="b"c', '\x7f=1', 'a\x00=1']

RANGES = ['bytes=0-4', 'bytes=2-', 'bytes=-3', 'bytes=0-0,2-3', 'bytes=abc', 'bytes', 'bytes=1-2x', 'bytes=-0', 'bytes=--5',
          'bytes=+1-5', 'bytes=1_0-1_2', 'items=0-3', 'bytes=0-1,,2-3', 'bytes=2-1', 'bytes=\xa01-3', 'bytes=', 'bytes=-',
          'bytes=,', '=0-1', 'bytes==0-1', 'bytes=1-2-3', 'bytes=0-99999999999999999999999', 'bytes=' + '9' * 4400 + '-',
          'bytes=-' + '9' * 4400, 'bytes=\xb2-3', 'bytes=0-\xb9']

CONDITIONALS = {
    'If-Modified-Since': ['Sun, 13 Sep 2020 12:26:40 GMT', 'yesterday', '', 'Sun, 13 Sep 2020', '0', 'Sun, 99 Sep 2020 12:26:40 GMT',
                          'Sun, 13 Sep 99999 12:26:40 GMT', '\xe9', 'Sun, 13 Sep 2020 12:26:40 +9999'],
    'If-Unmodified-Since': ['Sun, 13 Sep 2020 12:26:40 GMT', 'tomorrow', 'Fri, 01 Jan 2100 00:00:00 GMT', '-1'],
    'If-None-Match': ['"abc"', '*', 'W/"abc"', '"abc', 'abc"', '"a", "b"', ',', '"a";q=x', 'W/', '""', '"a"; "', '\xe9', '"a,b"'],
    'If-Match': ['"abc"', '*', 'W/"abc"', '"abc', '"a", ', ';', '"a";x="'],
    'If-Range': ['"abc"', 'Sun, 13 Sep 2020 12:26:40 GMT', 'x'],
}

ACCEPTS = {
    'Accept': ['text/html', 'text/html;q=0.5, */*;q=0.1', 'text/*', '*/*', 'text/html;level=1;q=0.7', 'text/html;q=abc',
               'text/html;q=', ';q=1', 'text/html;q=1;q=2', 'text/html;level="1', ',', ';;', 'text/html;q=1e400',
               'text/html;q=nan', 'text/html;q=-1', 'text/html;q=inf', 'text/html;q=0x1', 'text/html;q=1_0', 'text',
               '/', 'text/html;q=0.5;ext="a,b"', 'text/html; q = 0.5', 'text/html;q="0.5"', 'text/html;q=0,5',
               'text/html;q=\xbd', 'text/html;q=1 1', 'a/b;q=0.5;q', 'text/html;q=;level=1', 'text/html;Q=x'],
    'Accept-Charset': ['utf-8', 'iso-8859-1;q=0.5, utf-8', '*', 'utf-8;q=0', 'utf-8;q=abc', 'nope', 'utf-8;q=', ';q=1',
                       '*;q=x', 'utf-8;q=0.5;q=x', ',', 'utf-8,', 'undefined', 'hex', 'utf-16', 'utf-8;q=1e999', 'idna',
                       'unicode_escape', 'utf-8;q=nan', '\xe9', 'x' * 300, 'rot13', 'utf-8;q="', 'utf-8\x00', 'ascii\x00', '\x00'],
    'Accept-Encoding': ['gzip', 'gzip, deflate', 'identity', '*', 'gzip;q=0', 'gzip;q=abc', 'gzip;q=', ';q=1', 'gzip;q=1;q=x',
                        'identity;q=0', 'identity;q=x', ',', 'gzip;', 'x-gzip;q=0.5, gzip;q=nan', 'gzip;q=-', 'gzip;q="1',
                        'gzip;q=\xbd', '*;q=zero', 'gzip ; q = x', 'br;q=x, gzip'],
    'Accept-Language': ['en', 'en;q=x', 'en-US,en;q=0.5'],
    'TE': ['trailers', 'trailers;q=x', 'deflate;q=0.5'],
}

CACHE_CONTROLS = ['max-age=0', 'max-age=100', 'no-cache', 'max-age=abc', 'max-age=', 'max-age', 'max-age=-1', 'max-age=1.5',
                  'max-age=\xb2', 'max-age=1, max-age=x', 'no-store', 'max-age="5"', 'max-age=5;x', 'max-age=1_0',
                  'max-age=' + '9' * 4400, 'max-age=99999999999999999999', 'MAX-AGE=x', ' max-age = x', 'max-age==',
                  'only-if-cached', ',', 'max-age=١'.encode('utf-8').decode('latin-1'), 'max-age=+1', 'max-age= 1']
PRAGMAS = ['no-cache', 'x', '', ',']

CONTENT_TYPES_FORM = ['application/x-www-form-urlencoded', 'application/x-www-form-urlencoded; charset=utf-8',
                      'application/x-www-form-urlencoded; charset=iso-8859-1', 'application/x-www-form-urlencoded;charset="utf-8"',
                      'APPLICATION/X-WWW-FORM-URLENCODED', 'application/x-www-form-urlencoded; charset=utf-8; charset=nope']
CONTENT_TYPES_OTHER = ['text/plain', 'text/plain; charset=utf-8', 'application/octet-stream', '', '/', 'text', 'multipart',
                       'multipart/', 'multipart/mixed', 'multipart/form-data', 'multipart/form-data; boundary=',
                       'multipart/form-data; boundary=""', 'multipart/form-data; boundary="a b "', 'multipart/form-data; boundary=\xe9',
                       'multipart/form-data; boundary=' + 'x' * 300, 'multipart/form-data; boundary', 'multipart/form-data; boundary=a;boundary=b',
                       'multipart/x; boundary=ok', 'application/json', 'application/json; charset=utf-16', 'text/javascript',
                       'application/x-www-form-urlencoded, text/plain', ';charset=utf-8', 'a/b;c', 'a/b;=', 'a/b;"', 'text/plain; charset',
                       'text/plain;q=x', 'multipart/form-data; boundary="unterminated', 'text/plain; charset=',
                       'multipart/form-data;boundary=a\tb', 'multipart/form-data; boundary=a, x/y', 'x/y, multipart/form-data; boundary=a',
                       'multipart/form-data; boundary=?', 'multipart/form-data; boundary=\x7f',
                       # a valid ASCII run followed by an octet outside it (the validity test must cover the whole value)
                       'multipart/form-data; boundary=abc\xe9', 'multipart/form-data; boundary="ab cd\xff"',
                       'multipart/mixed; boundary=ok\x80ok', 'multipart/form-data; boundary=abc\x7f', 'multipart/form-data; boundary=a\x1fb']

FORM_BODIES = [b'a=1&b=2', b'a=1&a=2&a=3', b'a=%C3%A9', b'a=%FF', b'a=%zz', b'a', b'=1', b'a=1;b=2', b'&&', b'a=+%2B', b'a=1&self=2',
               b'a=\xff', b'a=\xc3\xa9', b'%', b'a=%', b'a=%1', b'\xe9=1', b'a=1&a', b'a' * 3000, b'a=\x00', b'a==&=', b'a=1\r\n']

BOUNDARY = 'BbB42'


def mp_body(parts, boundary=BOUNDARY, close=True, preamble=b'', epilogue=b''):
    """parts: list of (header lines list[bytes], content bytes)"""
    b = boundary.encode('latin-1')
    out = [preamble]
    for hdrs, content in parts:
        out.append(b'--' + b + b'\r\n')
        for h in hdrs:
            out.append(h + b'\r\n')
        out.append(b'\r\n')
        out.append(content)
        out.append(b'\r\n')
    if close:
        out.append(b'--' + b + b'--\r\n')
    out.append(epilogue)
    return b''.join(out)


def cd(name=None, filename=None, extra=b''):
    s = b'Content-Disposition: form-data'
    if name is not None:
        s += b'; name="' + name + b'"'
    if filename is not None:
        s += b'; filename="' + filename + b'"'
    return s + extra


MP_VALID = [
    [([cd(b'a')], b'1'), ([cd(b'b')], b'two')],
    [([cd(b'f', b'x.txt'), b'Content-Type: text/plain'], b'file content\r\nline2')],
    [([cd(b'a'), b'Content-Type: text/plain; charset=utf-8'], b'\xc3\xa9')],
    [([cd(b'a'), b'Content-Type: text/plain; charset=iso-8859-1'], b'\xe9')],
    [([cd(b'a')], b'1'), ([cd(b'a')], b'2'), ([cd(b'f', b'n.bin'), b'Content-Type: application/octet-stream'], bytes(range(256)))],
    [([cd(b'big')], b'x' * 1500)],
    [([b'Content-Type: text/plain'], b'nameless')],
    [([cd(b'a', None, b"; filename*=utf-8''%e2%82%ac%20rates")], b'1')],
    [],
]
PART_HEADER_BAD = [
    [b'Content-Disposition form-data; name="a"'],                       # no colon
    [b' continuation-first'],                                             # leading continuation line: unbound key
    [b'\tcontinuation-first'],
    [cd(b'a'), b'Content-Type: text/plain; charset=nope'],                # unknown charset in a part
    [cd(b'a'), b'Content-Type: text/plain; charset=undefined'],
    [cd(b'a'), b'Content-Type: text/plain; charset=hex'],
    [cd(b'a'), b'Content-Type: text/plain; charset=utf-16'],
    [cd(b'a'), b'Content-Type: text/plain; charset=idna'],
    [cd(b'a'), b'Content-Type: text/plain; charset=unicode_escape'],
    [cd(b'a', None, b"; filename*=x")],                                   # filename* without two quotes
    [cd(b'a', None, b"; filename*=utf-8'x")],
    [cd(b'a', None, b"; filename*=a'b'c'd")],
    [cd(b'a', None, b"; filename*=nope''x")],                             # unknown charset in filename*
    [cd(b'a', None, b"; filename*=undefined''%41")],
    [cd(b'a', None, b"; filename*=utf-8''%FF")],
    [cd(b'a', None, b"; filename*=hex''%41")],
    [cd(b'a', None, b"; filename*=''")],
    [cd(b'a', None, b"; filename*=")],
    [cd(b'a', None, b"; filename*")],
    [cd(b'a', None, b"; filename*=utf-16''%41")],
    [b'Content-Disposition: form-data; name="a'],                         # unbalanced quote
    [b'Content-Disposition: form-data; name='],
    [b'Content-Disposition: form-data; name'],
    [b'Content-Disposition: ; name="a"'],
    [b'Content-Disposition:'],
    [b':'],
    [b': x'],
    [cd(b'a'), cd(b'b')],                                                 # duplicate header (joined with ", ")
    [cd(b'a'), b'Content-Type: application/x-www-form-urlencoded'],       # (C04 known finding: registered type in a part)
    [cd(b'a'), b'Content-Type: multipart/mixed; boundary=inner'],
    [cd(b'a'), b'Content-Type: multipart/mixed'],
    [cd(b'a'), b'Content-Length: abc'],
    [cd(b'a'), b'Content-Length: 1'],
    [cd(b'a'), b'Content-Length: -1'],
    [cd(b'a'), b'Content-Type: text/plain;q=x'],
    [cd(b'a'), b'Content-Type: =?nope?q?x?='],
    [cd(b'a'), b'Content-Type: '],
    [cd(b'a'), b'Content-Type: /'],
    [cd(b'\xe9')],
    [cd(b'\xc3\xa9')],
    [cd(b'a', b'\xff.txt')],
    [cd(b'a', b'')],
    [cd(b'a'), b'Content-Transfer-Encoding: base64'],
    [cd(b'a') + b' ' * 70000],                                            # header line longer than one readline buffer
    [b'X' * 70000 + b': y'],
]
MP_CONTENT_BAD = [b'\xff', b'\x00', b'--', b'--' + BOUNDARY.encode(), b'\r\n--' + BOUNDARY.encode(), b'\n--' + BOUNDARY.encode() + b'\n',
                  b'--' + BOUNDARY.encode() + b'--', b'x' * 70000, b'\r', b'\n', b'']

JSON_BODIES = [b'{"a": 1}', b'[1, 2, 3]', b'"s"', b'null', b'1', b'', b'{', b'{"a": }', b'[1, 2', b'{"a": 1}}', b'NaN', b'Infinity',
               b'\xff', b'\xef\xbb\xbf{}', b'{"a": "\\ud800"}', b'{"a": "\\uZZZZ"}', b'1e999999', b'9' * 5000, b'-', b'[' * 100 + b']' * 100,
               b'[' * 20000, b'{"a":' * 5000 + b'1' + b'}' * 5000, b'{"a": 1, "a": 2}', b"{'a': 1}", b'{"a": 1,}', b'\x00', b'[1]\x00',
               b'"\xc3"', b'{"\\u0000": 1}', b' ', b'tru', b'\xff\xfe{\x00}\x00']

QUERIES = ['', 'a=1', 'a=1&b=2', 'a=1&a=2', '1,2', '1,2x', '12,34x=1', '1,2&a=b', '1,2,3', ',', '1,', ',2', '%zz', 'a=%zz', 'a=%FF',
           '%FF=1', 'a=%C3%A9', 'a=%C3', '=', '&&', ';', 'a;b', 'a=b=c', 'self=1', 'a=1&self=2', 'a==', '%', '%1', 'a=%', '\xe9=1',
           'a=\xe9', 'a=\xc3\xa9', 'a=\xff', '+', 'a=+', 'a[]=1&a[]=2', 'a.b=1', '=1', 'a&b&c', 'x' * 3000, 'a=%00', '%00', '?',
           'a=1?b=2', '#', 'a=1#f', '1,2;', '0,0', '99999999999999999999,1', '9' * 4400 + ',1', '1,' + '9' * 4400,
           '\xb2,\xb3', '1_0,2', '+1,2', ' 1,2', 'b=2&a', 'args=1', 'kwargs=1', 'cls=1', '__class__=1']
PATHS = ['', '/', '/x', '/x/y', '//', '/%', '/%zz', '/%FF', '/%C3%A9', '/%C3', '/%00', '/%2F', '/%2f%2F', '/.', '/..', '/../..',
         '/%2e%2e', '/\xe9', '/\xff', '/\xc3\xa9', '/a b', '/a+b', '/;p=1', '/a;b', '/x' * 600, '/index', '/default', '/~', '/*',
         '/\x7f', '/%0a', '/%0d%0a', '/a%5cb', '/a:b', '/a=b&c', '/ ', '/%20', '/favicon.ico', '/a.b.c', '/_x', '/__class__']
METHODS = ['GET', 'POST', 'HEAD', 'PUT', 'DELETE', 'OPTIONS', 'TRACE', 'PATCH', 'CONNECT', 'get', 'Post', 'G', 'M-SEARCH', 'PROPFIND',
           'X' * 300, '!#$%&\'*+-.^_`|~', '0', 'GET\xe9', 'index', '__init__', 'LOCK']

DISPOSITIONS = ["form-data; name=\"a\"; filename*=utf-8''%e2%82%ac%20rates", "x; filename*=x", "x; filename*=utf-8'x",
                "x; filename*=a'b'c'd", "x; filename*=nope''%41", "x; filename*=nope''x", "x; filename*=undefined''%41",
                "x; filename*=hex''%41", "x; filename*=''", "x; filename*=", "x; filename*", "x; filename*=utf-8''%FF",
                'x; filename*="utf-8\'\'%41"', "attachment; filename=\"a\"; filename*=nope''%41", "a, b; filename*=x",
                "x; FILENAME*=x", "x; filename*=ascii%00''%41", "x; filename*=utf-16''%41", "x; filename*=idna''%41",
                "b; filename*=x, a", "x; filename*=x; filename*=utf-8''ok", "", ";", "x; filename*=''%"]

HOSTS = ['localhost:8080', 'localhost', '', 'example.com:99999', 'example.com:abc', '[::1]:80', '[::1', '\xe9xample.com', 'a b', 'a/b',
         'a:b:c', '.', 'x' * 300, 'host\x7f', '=?utf-8?q?h?=', 'a,b', '@', 'user@host', 'host:', ':80', '%41', 'host"']

PROXY_HEADERS = {'X-Forwarded-For': ['1.2.3.4', '1.2.3.4, 5.6.7.8', '', ',', 'unknown', '\xe9', 'a' * 300, '::1', '1.2.3.4,'],
                 'X-Forwarded-Host': ['example.com', 'a, b', '', ',', 'a\xe9', 'http://x', 'a:b:c', 'a/b'],
                 'X-Forwarded-Proto': ['https', 'http', '', 'x', 'https, http', 'HTTPS', 'on', '\xe9'],
                 'X-Forwarded-Ssl': ['on', 'off', '']}
REFERERS = ['http://localhost:8080/x', 'http://evil.example/', '', 'x', '\xe9', '(', '[', 'http://' + 'a' * 3000]
EXPECTS = ['100-continue', '100-continue;q=x', 'x', '']


class Client:
    """an RFC 2617 digest client / RFC 7617 basic client independent of cherrypy.lib.auth_*"""

    @staticmethod
    def md5(s):
        return hashlib.md5(s.encode('utf-8')).hexdigest()

    @classmethod
    def nonce(cls, ts=None):
        ts = str(int(time.time()) if ts is None else ts)
        return '%s:%s' % (ts, cls.md5('%s:%s:%s' % (ts, REALM, DIGEST_KEY)))

    @classmethod
    def digest(cls, user='alice', pw=None, method='GET', uri='/digest', qop='auth', nonce=None, algorithm=None, body=b''):
        pw = USERS.get(user, 'x') if pw is None else pw
        nonce = nonce or cls.nonce()
        nc, cnonce = '00000001', 'cn0'
        ha1 = cls.md5('%s:%s:%s' % (user, REALM, pw))
        if qop == 'auth-int':
            ha2 = cls.md5('%s:%s:%s' % (method, uri, hashlib.md5(body).hexdigest()))
        else:
            ha2 = cls.md5('%s:%s' % (method, uri))
        if qop:
            resp = cls.md5('%s:%s:%s:%s:%s:%s' % (ha1, nonce, nc, cnonce, qop, ha2))
        else:
            resp = cls.md5('%s:%s:%s' % (ha1, nonce, ha2))
        f = ['username="%s"' % user, 'realm="%s"' % REALM, 'nonce="%s"' % nonce, 'uri="%s"' % uri, 'response="%s"' % resp]
        if algorithm:
            f.append('algorithm=%s' % algorithm)
        if qop:
            f += ['qop=%s' % qop, 'nc=%s' % nc, 'cnonce="%s"' % cnonce]
        return 'Digest ' + ', '.join(f)

    @staticmethod
    def basic(user='alice', pw=None, enc='utf-8'):
        pw = USERS.get(user, 'x') if pw is None else pw
        return 'Basic ' + base64.b64encode(('%s:%s' % (user, pw)).encode(enc)).decode('ascii')


def digest_bad():
    d = Client.digest
    n = Client.nonce()
    out = [
        d(qop='auth-int'), d(qop='auth-int', method='POST', body=b'a=1'), d(qop=''), d().replace('qop=auth', 'qop=""'),
        d().replace(', qop=auth, nc=00000001, cnonce="cn0"', ', qop=""'), 'Digest a=', 'Digest a', 'Digest', 'Digest ', 'Digest =',
        'Digest ,', 'Digest a=b', 'Digest username=', 'Digest username="alice', 'Digest username="alice", realm=', 'digest',
        'DIGEST username="alice"', d(algorithm='MD5-sess'), d(algorithm='SHA-256'), d(algorithm=''), d(algorithm='"MD5"'),
        d().replace('nc=00000001', 'nc=xyz'), d().replace('nc=00000001', 'nc='), d().replace('nc=00000001, ', ''),
        d(nonce='nocolon'), d(nonce='abc:def'), d(nonce=':'), d(nonce=''), d(nonce='99999999999999999999999:x'),
        d(nonce='1_0:abc'), d(nonce='\xb2:abc'), d(nonce=Client.nonce(1)), d(nonce=Client.nonce('0x10')), d(nonce=n + ':x'),
        d(user='ren\xe9'), d(user='ren\xe9').encode('utf-8').decode('latin-1'), d(user='nobody'), d(user=''), d(user='a"b'),
        d(user='a\\'), d(user='a,b'), d(uri=''), d(uri='/other'), d(uri='\xff'), d() + ',', d() + ', ', d() + ', x', d() + ', =',
        d() + ', a=b=c', d() + ', "', d() + ', x="', d().replace(', ', ','), d().replace(', ', ' '), d().replace(', ', ';'),
        d().replace('=', ':'), d().replace('"', ''), d().replace('"', "'"), d() + ', username="bob"', d() + ', qop=auth-int',
        d(qop=None), d(qop=None) + ', nc=1', d(qop=None) + ', cnonce="x"', d(qop='auth') + ', qop=', d(pw='wrong'),
        d().replace('response="', 'response="x'), d().replace('Digest ', 'Digest\t'), d().replace('Digest ', 'Digest  '),
        'Digest ' + 'a=b, ' * 500 + 'c=d', 'Digest username="' + 'x' * 5000 + '"', d().replace('realm="wonderland"', 'realm=""'),
        d().replace('realm="wonderland", ', ''), d().replace('username="alice", ', ''), d().replace('uri="/digest", ', ''),
        'Digest \xff=1', 'Digest a=\xff', d().replace('alice', 'al\xff'), 'Digest username="alice", =x', 'Digest "a"="b"',
        'Digest a=,b=', 'Digest a=""', 'Digest a="', 'Digest a=\\', 'Digest a="\\', 'Digest a="\\"', 'Digest ="x"',
        'Negotiate abc', 'Bearer abc', 'digestx a=b', '', ' ',
    ]
    return out


def basic_bad():
    b = Client.basic
    e = lambda raw: 'Basic ' + base64.b64encode(raw).decode('ascii')
    return [b(), b(pw='wrong'), b(user='nobody'), 'Basic', 'Basic ', 'Basic  ', 'Basic !!!', 'Basic =', 'Basic ====', 'Basic YQ',
            'Basic YQ=', 'Basic YQ==', e(b'nocolon'), e(b''), e(b':'), e(b'a:'), e(b':b'), e(b'\xff:\xff'), e(b'alice:\xff'),
            e('ren\xe9:p\xe4ss'.encode('utf-8')), e('ren\xe9:p\xe4ss'.encode('latin-1')), e(b'\xc3:\xa9'), 'Basic \xe9\xe9\xe9\xe9',
            'basic ' + b()[6:], 'BASIC ' + b()[6:], 'Basic\t' + b()[6:], 'Basic  ' + b()[6:], b() + ' x', b() + '=', b()[:-1], b()[:-2],
            b()[:-3], 'Basic ' + 'QUJD' * 3000, 'Basic Y Q = =', e(b'a:b:c'), e(b'alice:4x5istwelve\n'), e(b'\x00:\x00'), 'Digest x=y',
            'Basic%20' + b()[6:], 'Bearer x', 'Basic ' + b()[6:].replace('=', ''), e(b'\xed\xa0\x80:x'), 'Basic YWxpY2U6NHg1aXN0d2VsdmU',
            'Basic -_-_', 'Basic YQ==YQ==', e('é:x'.encode('utf-8')), '', ' ', 'x']


# ---------------------------------------------------------------------------------------------------

RES_TARGET = {
    'plain': '/plain', 'api': '/api', 'strict': '/strict?a=1', 'sdir': '/static/hello.txt', 'sfile': '/sfile', 'serve': '/serve',
    'sram': '/sram', 'sfs': '/sfs', 'cached': '/cached', 'basic': '/basic', 'digest': '/digest', 'json': '/json',
    'upload': '/upload', 'parts': '/parts', 'enc': '/enc', 'accept': '/accept', 'proxy': '/proxy', 'referer': '/referer',
    'etag': '/etag', 'md': '/md', 'limited': '/limited', 'stream': '/stream',
}
GET_RES = ['plain', 'api', 'strict', 'sdir', 'sfile', 'serve', 'sram', 'sfs', 'cached', 'basic', 'digest', 'enc', 'accept', 'proxy',
           'referer', 'etag', 'md']
BODY_RES = ['plain', 'api', 'upload', 'parts', 'json', 'limited', 'sram', 'digest', 'enc', 'md']


# ---------------------------------------------------------------------------------------------------
# the model's oracles: answers of the *standard library* (never of cherrypy), with their declared raise-sets

EXN_ID = {'LookupError': 1, 'IndexError': 2, 'KeyError': 3, 'ValueError': 4, 'UnicodeError': 5, 'UnicodeDecodeError': 6,
          'Error': 7, 'JSONDecodeError': 8, 'TypeError': 9, 'AttributeError': 10, 'EOFError': 11, 'NameError': 12,
          'UnboundLocalError': 13, 'HeaderParseError': 14, 'CookieError': 15, 'RuntimeError': 16, 'RecursionError': 17,
          'OSError': 18, 'IsADirectoryError': 19, 'HTTPError': 20, 'UnicodeEncodeError': 5}
ID_EXN = {1: 'LookupError', 2: 'IndexError', 3: 'KeyError', 4: 'ValueError', 5: 'UnicodeError', 6: 'UnicodeDecodeError',
          7: 'Error', 8: 'JSONDecodeError', 9: 'TypeError', 10: 'AttributeError', 11: 'EOFError', 12: 'NameError',
          13: 'UnboundLocalError', 14: 'HeaderParseError', 15: 'CookieError', 16: 'RuntimeError', 17: 'RecursionError',
          18: 'OSError', 19: 'IsADirectoryError', 20: 'HTTPError', 21: '?'}
# crash point of the model -> the function the exception must come out of
POINT_WHERE = {0: 'lib.httputil.decode_TEXT', 1: 'lib.httputil.decode_TEXT', 2: 'lib.httputil.decode_TEXT',
               3: '_cprequest.process_headers', 10: 'lib.httputil.parse_query_string', 20: 'lib.httputil.qvalue',
               30: 'lib.httputil.get_ranges', 40: 'lib.caching.get', 50: '_cpreqbody.process_urlencoded',
               51: '_cpreqbody.decode_entity', 60: '_cpreqbody.__init__', 61: '_cpreqbody.__init__',
               70: '_cpreqbody.read_headers', 71: '_cpreqbody.read_headers', 72: '_cpreqbody.read_headers',
               73: '_cpreqbody.read_headers', 74: '_cpreqbody.read_lines_to_boundary', 75: '_cpreqbody.process_multipart',
               80: 'lib.jsontools.json_processor', 90: 'lib.auth_basic.basic_auth', 91: 'lib.auth_basic.basic_auth',
               100: 'lib.auth_digest.__init__', 101: 'lib.auth_digest.__init__', 102: '_cpcompat.assert_native',
               103: 'lib.auth_digest.HA2', 110: 'lib.sessions._save', 120: '_cpdispatch.__call__',
               130: 'lib.encoding.encoder', 131: 'lib.encoding.encode_string'}
# declared raise-sets of the library calls (class names); anything else is a broken assumption
RAISES = {'decode_header': {'HeaderParseError'}, 'bytes.decode': {'LookupError', 'UnicodeDecodeError', 'UnicodeError', 'ValueError'},
          'SimpleCookie.load': {'CookieError'}, 'json': {'JSONDecodeError', 'ValueError', 'UnicodeDecodeError', 'RecursionError'},
          'b64decode': {'Error', 'ValueError'}, 'str.encode': {'UnicodeEncodeError'}, 'parse_keqv_list': {'ValueError', 'IndexError'},
          'float': {'ValueError'}, 'int': {'ValueError'}, 'urlsplit': {'ValueError'}}
FLAGS_FIXED = [1] * 16
FLAGS_WRITTEN = [0] * 16
BROKEN = []


def outcome(fn, call):
    """(result, sx outcome): () = no exception, (id) = raised; records classes outside the declared raise-set"""
    try:
        return call(), None
    except RecursionError:
        return None, [EXN_ID['RecursionError']]
    except Exception as e:
        n = type(e).__name__
        if n not in RAISES[fn]:
            BROKEN.append('%s raised %s: %s' % (fn, n, str(e)[:80]))
        return None, [EXN_ID.get(n, 21)]


def codec_kind(name):
    """0 ascii, 1 utf-8, 2 latin-1, 3 LookupError, 4 UnicodeError on every call, 5 ValueError on every call, 9 other"""
    import codecs
    try:
        b'a'.decode(name)
    except LookupError:
        return 3
    except UnicodeError:
        try:
            b''.decode(name)
        except UnicodeError:
            return 4
        except Exception:
            return 9
        return 9
    except ValueError:
        return 5
    except Exception:
        return 9
    n = codecs.lookup(name).name
    return {'ascii': 0, 'utf-8': 1, 'iso8859-1': 2}.get(n, 9)


def codec_table(*texts):
    """kinds of every charset-like name occurring in the given header / body texts"""
    names = {'utf-8', 'us-ascii', 'ISO-8859-1'}
    for t in texts:
        if isinstance(t, bytes):
            t = t.decode('latin-1')
        for m in re.finditer(r'(?i)charset\s*=\s*("?)([^";,\r\n]*)\1', t):
            names.add(m.group(2))
            names.add(m.group(2).strip())
        for m in re.finditer(r"(?i)filename\*\s*=\s*\"?([^'\";\r\n]*)'", t):
            names.add(m.group(1))
            names.add(m.group(1).strip())
    return [[n, codec_kind(n)] for n in sorted(names)]


def mini_parse_header(line):
    """independent re-implementation of the cgi-style parameter parser (for the harness-side tokenising)"""
    def parts(s):
        while s[:1] == ';':
            s = s[1:]
            end = s.find(';')
            while end > 0 and (s.count('"', 0, end) - s.count('\\"', 0, end)) % 2:
                end = s.find(';', end + 1)
            if end < 0:
                end = len(s)
            yield s[:end].strip()
            s = s[end:]
    it = parts(';' + line)
    key = next(it)
    d = {}
    for p in it:
        i = p.find('=')
        if i >= 0:
            v = p[i + 1:].strip()
            if len(v) >= 2 and v[0] == v[-1] == '"':
                v = v[1:-1].replace('\\\\', '\\').replace('\\"', '"')
            d[p[:i].strip().lower()] = v
    return key, d


HSPLIT = re.compile(',(?=(?:[^"]*"[^"]*")*[^"]*$)')


def accept_q_ok(value):
    """for every element of an Accept-* header: does float() take its q parameter"""
    out = []
    for el in HSPLIT.split(value):
        atoms = re.split(r'; *q *=', el, maxsplit=1)
        media = atoms.pop(0).strip()
        _, params = mini_parse_header(media)
        q = params.get('q', '1')
        if atoms:
            q = mini_parse_header(atoms[0].strip())[0]
        out.append(outcome('float', lambda: float(q))[1] is None)
    return out


ACCEPT_STAGE = {('enc', 'Accept-Encoding'): 1, ('stream', 'Accept-Encoding'): 1, ('enc', 'Accept-Charset'): 0,
                ('stream', 'Accept-Charset'): 0, ('accept', 'Accept'): 0, ('api', 'Accept'): 0, ('api', 'Accept-Charset'): 0,
                ('api', 'Accept-Encoding'): 0, ('api', 'Accept-Language'): 0}


def hval(c, name):
    for k, v in c['headers']:
        if k.lower() == name.lower():
            return v
    return None


def model_input(c, flags):
    """the model's view of the element the case focuses on, or None when the model does not cover it"""
    f = c.get('focus')
    if not f or c['k'] != 'http':
        return None
    kind = f[0]
    res = c['res']
    if kind in ('text', 'cookie') or (kind in ('host',) and f[1] and '=?' in f[1]):
        name, v = (f[1], f[2]) if kind != 'host' else ('Host', f[1])
        # the value CherryPy sees (the server stripped it); other header parsers of the resource may reject later: the
        # model answers for process_headers only
        import email.header
        import http.cookies
        dh = [0, [], None]
        if '=?' in v:
            atoms, o = outcome('decode_header', lambda: email.header.decode_header(v))
            if o is not None:
                dh = [1, o[0]]
            else:
                al = []
                for atom, cs in atoms:
                    isb = isinstance(atom, bytes)
                    oo = None
                    if isb and cs is not None:
                        oo = outcome('bytes.decode', lambda: atom.decode(cs))[1]
                    al.append([isb, 0 if cs is None else 1 if cs == '' else 2, oo])
                # the final decodedvalue.encode('utf-8') of decode_TEXT (a lone surrogate is refused)
                eo = None
                if all(a[2] is None for a in al):
                    txt = ''.join(a.decode(cs or 'ISO-8859-1') if isinstance(a, bytes) else a for a, cs in atoms)
                    eo = outcome('str.encode', lambda: txt.encode('utf-8'))[1]
                dh = [0, al, eo]
        is_cookie = name.title() == 'Cookie'
        ck = outcome('SimpleCookie.load', lambda: http.cookies.SimpleCookie().load(v))[1] if is_cookie else None
        return [1, flags, is_cookie, v, dh, ck]
    if kind == 'host':
        import urllib.parse
        so = None
        if f[1]:
            so = outcome('urlsplit', lambda: urllib.parse.urlsplit('//' + f[1].replace('\r', '').replace('\n', '')))[1]
        return [2, flags, f[1] is not None, f[2] == 'HTTP/1.1', so]
    if kind == 'query':
        if re.search(r'(^|[&;])self($|[=&;])', f[1]):
            return None        # collides with the bound argument of every handler: the kw cases cover that
        return [3, flags, f[1]]
    if kind == 'accept' and f[1] == 'Accept-Charset' and f[2] and not re.search(r'[,;*"=]', f[2]) and f[2] == f[2].strip() \
            and res in ('enc', 'stream', 'api'):
        # a single charset name: it is the first candidate handed to str.encode
        return [16, flags, res == 'stream', codec_kind(f[2].lower())]
    if kind == 'accept':
        st = ACCEPT_STAGE.get((res, f[1]))
        if st is None or '=?' in f[2]:
            return None
        if not f[2]:
            return [4, flags, st, []]
        if f[1] == 'Accept-Charset' and any(codec_kind(mini_parse_header(el)[0].lower()) in (3, 4, 5) for el in HSPLIT.split(f[2])):
            return None        # an unusable name among several candidates: which one is tried depends on the negotiation (C17)
        return [4, flags, st, accept_q_ok(f[2])]
    if kind == 'range' and '=?' not in f[2]:
        if res in ('sdir', 'sfile', 'serve'):
            return [5, flags, [f[2]], 14]
        if res == 'api':
            return [5, flags, [f[2]], 100]
        return None
    if kind == 'cachecontrol' and f[1] == 'Cache-Control' and res == 'cached' and '=?' not in f[2]:
        if not f[2]:
            return [6, flags, []]
        vals = [mini_parse_header(el)[0] for el in HSPLIT.split(f[2])]
        return [6, flags, list(reversed(sorted(vals)))]
    if kind == 'length' and res in ('plain', 'limited'):
        ct = hval(c, 'Content-Type') or ''
        cl, n = f[2], f[3]
        if ct.startswith('application/x-www-form-urlencoded'):
            reads_all = True
        elif ct == 'text/plain':
            reads_all = False
        else:
            return None
        sent = n if (cl is None or cl > n) else max(cl, 0)
        return [7, flags, cl is not None, bool(c.get('chunked')), 16 if res == 'limited' else 0, sent, reads_all]
    if kind in ('form', 'ctype') and res == 'plain' and c['method'] == 'POST':
        ct = hval(c, 'Content-Type') or ''
        if '=?' in ct or hval(c, 'Content-Length') != str(len(c['body'])):
            return None
        key = mini_parse_header(HSPLIT.split(ct)[0])[0] if ct else ''
        if ct.lower().count('multipart') and kind == 'ctype':
            return mp_input(c, flags)
        return [8, flags, codec_table(ct), ct, c['body']]
    if kind == 'disposition':
        return [9, flags, codec_table(f[1]), [f[1]]]
    if kind in ('multipart', 'partheader', 'partcontent', 'multipartbody', 'multipartframing', 'boundary') \
            and res in ('upload', 'plain', 'parts'):
        return mp_input(c, flags)
    if kind == 'json' and res == 'json':
        ct = hval(c, 'Content-Type') or ''
        if mini_parse_header(ct)[0] not in ('application/json', 'text/javascript'):
            return None
        body = c['body']
        o = outcome('json', lambda: json.loads(body.decode('utf-8')))[1]
        return [11, flags, bool(hval(c, 'Content-Length')), o]
    if kind == 'basic' and res == 'basic' and '=?' not in f[2]:
        import unicodedata
        v = f[2]
        has_space = ' ' in v
        scheme, _, params = v.partition(' ')
        basic = scheme.lower() == 'basic'
        o_ascii = o_b64 = None
        has_colon = pw_ok = False
        if has_space and basic:
            enc, o_ascii = outcome('str.encode', lambda: params.encode('ascii'))
            if o_ascii is None:
                raw, o_b64 = outcome('b64decode', lambda: base64.b64decode(enc))
                if o_b64 is None:
                    try:
                        txt = raw.decode('utf-8')
                    except UnicodeDecodeError:
                        txt = raw.decode('latin-1')
                    txt = unicodedata.normalize('NFC', txt)
                    has_colon = ':' in txt
                    if has_colon:
                        u, _, pw = txt.partition(':')
                        pw_ok = USERS.get(u) == pw
        return [12, flags, has_space, basic, o_ascii, o_b64, has_colon, pw_ok]
    if kind == 'digest' and res == 'digest' and '=?' not in f[2]:
        return digest_input(c, flags, f[2])
    if kind == 'sessionid' and res == 'sfs':
        import http.cookies
        ck = http.cookies.SimpleCookie()
        try:
            ck.load('session_id=' + f[2])
        except http.cookies.CookieError:
            return None
        if 'session_id' not in ck:
            return [14, flags, False, False, 0]
        sid = ck['session_id'].value
        try:
            path = os.path.join(SESSDIR, 'session-' + sid)
            escapes = not os.path.abspath(path).startswith(os.path.join(SESSDIR, ''))
            kind_ = 2 if os.path.isdir(path) else 1 if os.path.exists(path) else 0
        except ValueError:
            return None
        return [14, flags, escapes, path.endswith('.lock'), kind_]
    if kind == 'kw':
        spec, npos, kws = f[1], f[2], f[3]
        return [15, flags, spec, npos, [[k, bool(b)] for k, b in kws]]
    return None


def mp_input(c, flags):
    ct = hval(c, 'Content-Type') or ''
    if '=?' in ct:
        return None
    cl = hval(c, 'Content-Length')
    body = c['body']
    if c.get('chunked') or cl is None:
        early = True
        avail = body
    else:
        try:
            n = int(cl)
        except ValueError:
            return None
        if n < 0:
            return None
        avail = body[:n]
        early = n > len(body)
    if early and len(avail) >= 8192:
        return None
    if len(avail) > 200000:
        return None
    lines = avail.split(b'\n')
    lines = [l + b'\n' for l in lines[:-1]] + ([lines[-1]] if lines[-1] else [])
    return [10, flags, codec_table(ct, avail), ct, [list(l) for l in lines], early]


def digest_input(c, flags, v):
    import urllib.request
    scheme = v.partition(' ')[0].lower() == 'digest'
    if not scheme:
        return [13, flags, False, None, False, None, [False, False, None, False, False], False, False, False, False]
    try:
        dec = v.encode('latin-1').decode('utf-8')
    except UnicodeDecodeError:
        dec = v
    has_space = ' ' in dec
    fields = [False, False, None, False, False]
    keqv = None
    nonce_ok = user_known = digest_ok = stale = False
    if has_space:
        params = dec.split(' ', 1)[1]
        d, keqv = outcome('parse_keqv_list', lambda: urllib.request.parse_keqv_list(urllib.request.parse_http_list(params)))
        if keqv is None:
            g = d.get
            alg_ok = g('algorithm', 'MD5').upper() in ('MD5', 'MD5-sess')
            req = bool(g('username') and g('realm') and g('nonce') and g('uri') and g('response'))
            qop = g('qop')
            fields = [alg_ok, req, None if qop is None else [qop], bool(g('cnonce')), bool(g('nc'))]
            if req:
                md5 = Client.md5
                nonce = g('nonce')
                ts, sep, hp = nonce.partition(':')
                nonce_ok = bool(sep) and md5('%s:%s:%s' % (ts, REALM, DIGEST_KEY)) == hp
                user_known = g('username') in USERS
                if user_known:
                    ha1 = md5('%s:%s:%s' % (g('username'), REALM, USERS[g('username')]))
                    ha2 = md5('%s:%s' % (c['method'], g('uri')))
                    if qop:
                        want = md5('%s:%s:%s:%s:%s:%s' % (ha1, nonce, g('nc'), g('cnonce'), qop, ha2))
                    else:
                        want = md5('%s:%s:%s' % (ha1, nonce, ha2))
                    digest_ok = want == g('response')
                try:
                    stale = not (int(ts) + 600 > int(time.time()))
                except ValueError:
                    stale = True
    return [13, flags, True, None, has_space, keqv, fields, nonce_ok, user_known, digest_ok, stale]


class LogTap(logging.Handler):
    """collects the live exception of every cherrypy.log(traceback=True) call"""

    def __init__(self):
        logging.Handler.__init__(self)
        self.hits = []

    def emit(self, record):
        self.grab()

    def grab(self):
        et, ev, tb = sys.exc_info()
        if ev is None:
            return
        if self.hits and self.hits[-1][4] == id(ev):
            return
        frames = []
        # the exception that is being handled; follow it to the innermost frame
        while tb is not None:
            frames.append((tb.tb_frame.f_code.co_filename, tb.tb_frame.f_code.co_name, tb.tb_lineno))
            tb = tb.tb_next
        del tb
        self.hits.append((et.__name__, str(ev)[:200], frames, [c.__name__ for c in et.__mro__], id(ev)))


def where(frames):
    """innermost frame inside the cherrypy package -> 'module.function'"""
    for fn, name, _ in reversed(frames):
        i = fn.rfind('/cherrypy/')
        if i >= 0 and '/site-packages/' not in fn[i:]:
            mod = fn[i + len('/cherrypy/'):]
            if mod.endswith('.py'):
                mod = mod[:-3]
            return mod.replace('/', '.') + '.' + name
    if frames:
        fn, name, _ = frames[-1]
        return os.path.basename(fn)[:-3] + '.' + name
    return '?'


class C07(core.Check):
    pid = 'C07'
    props_files = ('Props/C07.v',)
    refuted_files = ('Refuted/R_C07.v',)
    has_model = True
    model_fn = ('run_C07', 'Model.M_malformed')
    xcheck_n = 60
    rule = ('one request per case: method token x request-target (path/query over code points <= U+00FF) x header list '
            '(values without CR/LF) x body bytes x HTTP/1.0|1.1, drawn from per-element grammars (RFC 2047 words, cookies, '
            'Range, conditionals, Accept-*, Cache-Control, Authorization basic/digest from an independent client, Host, '
            'Content-Type / -Length / -Disposition parameters, charsets, url-encoded / multipart / JSON bodies, declared '
            'length vs sent bytes) and the systematic mutation operators truncate / behead / duplicate / drop-token / '
            'separator / number / quote / charset / terminator / char / empty / long applied at every position, against every '
            'target resource; a case is non-trivial when it is not answered 200 by the plain path or when it exercises a '
            'body parser; distinct by (resource, element, operator, status, raising function)')
    assumptions = (
        'the WSGI server is cheroot-like: it refuses a non-numeric Content-Length and a missing HTTP/1.1 Host itself, strips '
        'field values, joins repeated comma-separated headers; what it refuses never reaches CherryPy (server_rejected)',
        'a truncated body shows as wsgi.input returning fewer bytes than Content-Length and then b"" (no socket timeout)',
        'the page handlers of the harness and the enabled tools are total on the parsed values they receive',
        'library calls raise only within their declared raise-sets (sampled on every run; see notes)',
    )

    def __init__(self, tier, seed):
        super().__init__(tier, seed)
        self.app = None
        self.tap = None
        self.variant = os.environ.get('C07_VARIANT', 'fixed')

    # ------------------------------------------------------------------ generation
    def http(self, res, src, method='GET', target=None, headers=(), body=b'', proto='HTTP/1.1', focus=None, cl=Ellipsis):
        headers = [[k, header_ok(v)] for k, v in headers]
        if cl is Ellipsis:
            cl = len(body) if (body or method in ('POST', 'PUT', 'PATCH')) else None
        if cl is not None and not any(k.lower() in ('content-length', 'transfer-encoding') for k, _ in headers):
            headers.append(['Content-Length', str(cl)])
        return {'k': 'http', 'res': res, 'method': method, 'target': target if target is not None else RES_TARGET[res],
                'headers': headers, 'body': body, 'proto': proto, 'src': src, 'focus': focus}

    def sample(self, muts, k):
        """k mutants, stratified by operator (all of them in the thorough tier)"""
        if self.tier != 'quick' or len(muts) <= k:
            return muts
        byop = {}
        for lab, m in muts:
            byop.setdefault(lab.split(':')[0], []).append((lab, m))
        out = []
        ops = sorted(byop)
        while len(out) < k and ops:
            for op in list(ops):
                lst = byop[op]
                out.append(lst.pop(self.rng.randrange(len(lst))))
                if not lst:
                    ops.remove(op)
                if len(out) >= k:
                    break
        return out

    def header_cases(self, name, values, resources, element, k_mut, method='GET', extra=(), body=b'', base_mut=None):
        """each listed value and sampled mutants of it in header `name` against the given resources"""
        out = []
        rng = self.rng
        for i, v in enumerate(values):
            for res in (resources if self.tier != 'quick' else [resources[i % len(resources)], rng.choice(resources)]):
                out.append(self.http(res, '%s:listed' % element, method, None, list(extra) + [[name, v]], body,
                                     focus=[element, name, header_ok(v)]))
        pool = base_mut if base_mut is not None else values
        for v in pool:
            for lab, m in self.sample(mutations(v), k_mut):
                m = header_ok(m)
                res = rng.choice(resources)
                out.append(self.http(res, '%s:%s' % (element, lab.split(':')[0]), method, None, list(extra) + [[name, m]], body,
                                     focus=[element, name, m]))
        return out

    def cases(self):
        rng = self.rng
        quick = self.tier == 'quick'
        out = []
        K = 6 if quick else 10 ** 9

        # -- baseline: every resource, plain valid request
        for res in GET_RES:
            out.append(self.http(res, 'base:get'))
        # -- method tokens x resources
        for m in METHODS:
            for res in (['plain', 'md', 'sdir', 'cached', 'digest', 'json'] if quick else GET_RES + ['json', 'upload']):
                out.append(self.http(res, 'method:listed', m, focus=['method', m]))
        # -- request-target: paths and queries
        for p in PATHS:
            for prefix in ('', '/plain', '/static', '/md', '/strict'):
                out.append(self.http('plain', 'path:listed', 'GET', prefix + p, focus=['path', prefix + p]))
        for q in QUERIES:
            for res in ['plain', 'strict', 'sdir', 'cached', 'md'] if quick else GET_RES:
                t = RES_TARGET[res].split('?')[0] + '?' + q
                out.append(self.http(res, 'query:listed', 'GET', t, focus=['query', q]))
            out.append(self.http('plain', 'query:listed', 'POST', '/plain?' + q, [['Content-Type', 'application/x-www-form-urlencoded']],
                                 b'a=1&b=2', focus=['query', q]))
        for q in QUERIES[:12]:
            for lab, m in self.sample(mutations(q), K):
                m = latin1(m).replace(' ', '%20').replace('\r', '').replace('\n', '').replace('#', '%23')
                res = rng.choice(['plain', 'strict', 'cached'])
                out.append(self.http(res, 'query:' + lab, 'GET', RES_TARGET[res].split('?')[0] + '?' + m, focus=['query', m]))

        # -- RFC 2047 encoded words in any header
        for v in RFC2047_VALID + RFC2047_BAD:
            for h in (RFC2047_HEADERS if not quick else [RFC2047_HEADERS[0], rng.choice(RFC2047_HEADERS[1:])]):
                res = {'Cookie': 'sram', 'Authorization': 'digest', 'Range': 'sdir', 'Accept-Encoding': 'enc',
                       'Accept-Charset': 'enc', 'Cache-Control': 'cached', 'X-Forwarded-For': 'proxy',
                       'X-Forwarded-Host': 'proxy', 'Referer': 'referer', 'Accept': 'accept', 'If-None-Match': 'etag'}.get(h, 'plain')
                out.append(self.http(res, 'rfc2047:listed', 'GET', None, [[h, v]], focus=['text', h, header_ok(v)]))
        for v in RFC2047_VALID[:3]:
            for lab, m in self.sample(mutations(v), 3 * K):
                out.append(self.http('plain', 'rfc2047:' + lab, 'GET', None, [['X-Custom', m]], focus=['text', 'X-Custom', header_ok(m)]))

        # -- cookies
        out += self.header_cases('Cookie', COOKIES_VALID + COOKIES_BAD, ['plain', 'sram', 'sfs', 'api'], 'cookie', K, base_mut=COOKIES_VALID)
        # session ids
        for sid in ['0' * 40, 'x', '', '../x', '..', '.', '/', 'a/b', 'dir', 'sub/dir', 'dir/', 'x.lock', 'x' * 300, '%2e%2e', '\xe9',
                    '"\\000"', '"a/../dir"', 'dir/..', 'dir/../dir', 'a\\b', '~', '-', 'known', 'known.lock', 'con', 'dir/.']:
            for res in ('sram', 'sfs'):
                out.append(self.http(res, 'sessionid:listed', 'GET', None, [['Cookie', 'session_id=' + sid]], focus=['sessionid', res, sid]))
        # -- Host
        for v in HOSTS:
            for proto in ('HTTP/1.1', 'HTTP/1.0'):
                out.append(self.http(rng.choice(['plain', 'proxy', 'sdir']), 'host:listed', 'GET', None, [['Host', v]], proto=proto,
                                     focus=['host', header_ok(v), proto]))
        out.append(dict(self.http('plain', 'host:absent', 'GET', proto='HTTP/1.0', focus=['host', None, 'HTTP/1.0']), nohost=True))
        out.append(dict(self.http('plain', 'host:absent', 'GET', proto='HTTP/1.1', focus=['host', None, 'HTTP/1.1']), nohost=True))
        # Host x resources that build absolute URLs from it (redirects, proxy)
        for v in HOSTS:
            for t in ('/static', '/md/', '/plain/', '/proxy', '/referer'):
                out.append(self.http('plain', 'host:redirect', 'GET', t, [['Host', v]]))
        # redirects that echo the request-target into Location, the query holding unescaped UTF-8 octets of characters
        # beyond Latin-1 (the response header then needs RFC 2047 or percent-encoding, under either protocol version)
        for q in ('x=\u20ac', 'k\u0416=1&y=\U0001F600', '\u20ac'):
            raw = q.encode('utf-8').decode('latin-1')
            for t in ('/sub', '/sub/x/..', '/proxy'):
                for proto in ('HTTP/1.1', 'HTTP/1.0'):
                    out.append(self.http('plain', 'redirect:raw-utf8-query', 'GET', t + '?' + raw, proto=proto))
        # -- Content-Disposition of the request itself (Entity.__init__ runs for every request)
        for v in DISPOSITIONS:
            for res, m in (('plain', 'GET'), ('upload', 'POST')):
                out.append(self.http(res, 'disposition:listed', m, None, [['Content-Disposition', v]], focus=['disposition', header_ok(v)]))
        for v in DISPOSITIONS[:3]:
            for lab, m in self.sample(mutations(v), 2 * K):
                out.append(self.http('plain', 'disposition:' + lab, 'GET', None, [['Content-Disposition', m]], focus=['disposition', header_ok(m)]))
        # -- handler signatures x parameter names x origins (test_callable_spec)
        names_qs = [[], ['a'], ['a', 'b'], ['b'], ['a', 'c'], ['self'], ['a', 'self'], ['c'], ['a', 'b', 'c']]
        names_body = [None, [], ['a'], ['b'], ['c'], ['self'], ['a', 'self']]
        for res, spec in (('strict', ['self', ['a', 'b'], 1, False, False]), ('plain', ['self', [], 0, True, True])):
            for nq in names_qs:
                for nb in names_body:
                    for npos in (0, 1, 3):
                        if quick and npos == 3 and (nb or len(nq) > 1):
                            continue
                        t = '/' + res + '/x' * npos + ('?' + '&'.join(n + '=1' for n in nq) if nq else '')
                        kws = {n: False for n in nq}
                        kws.update({n: True for n in (nb or [])})
                        body = '&'.join(n + '=2' for n in nb).encode() if nb is not None else b''
                        hs = [['Content-Type', 'application/x-www-form-urlencoded']] if nb is not None else []
                        out.append(self.http(res, 'kw:enumerated', 'POST' if nb is not None else 'GET', t, hs, body,
                                             focus=['kw', spec, npos, sorted(kws.items())]))
        # -- Range / conditionals against static and etag resources
        out += self.header_cases('Range', RANGES, ['sdir', 'sfile', 'serve'], 'range', K, base_mut=RANGES[:4])
        for h, vals in CONDITIONALS.items():
            out += self.header_cases(h, vals, ['sdir', 'serve', 'etag'], 'conditional', K // 2 or 1, base_mut=vals[:2])
        out += self.header_cases('If-None-Match', CONDITIONALS['If-None-Match'], ['etag'], 'conditional', 1, method='POST')
        # -- Accept-*
        for h, vals in ACCEPTS.items():
            resources = {'Accept': ['accept', 'api'], 'Accept-Charset': ['enc', 'api', 'stream'], 'Accept-Encoding': ['enc', 'api', 'sdir'],
                         'Accept-Language': ['api'], 'TE': ['api']}[h]
            out += self.header_cases(h, vals, resources, 'accept', K, base_mut=vals[:3])
        # -- Cache-Control / Pragma against a primed cache
        out += self.header_cases('Cache-Control', CACHE_CONTROLS, ['cached'], 'cachecontrol', K, base_mut=CACHE_CONTROLS[:3])
        out += self.header_cases('Pragma', PRAGMAS, ['cached'], 'cachecontrol', 2)
        # -- Authorization
        out += self.header_cases('Authorization', basic_bad(), ['basic'], 'basic', K, base_mut=[Client.basic()])
        out += self.header_cases('Authorization', digest_bad(), ['digest'], 'digest', 4 * K, base_mut=[Client.digest()])
        for v in digest_bad()[:6]:
            out.append(self.http('digest', 'digest:listed', 'POST', None, [['Authorization', v], ['Content-Type', 'application/x-www-form-urlencoded']],
                                 b'a=1', focus=['digest', 'Authorization', header_ok(v)]))
        # -- proxy / referer / expect
        for h, vals in PROXY_HEADERS.items():
            out += self.header_cases(h, vals, ['proxy'], 'proxy', 2)
        out += self.header_cases('Referer', REFERERS, ['referer'], 'referer', 2)
        out += self.header_cases('Expect', EXPECTS, ['plain'], 'expect', 1)

        # -- Content-Type x bodies
        for ct in CONTENT_TYPES_FORM + CONTENT_TYPES_OTHER:
            for res in (['plain', 'upload', 'json'] if quick else BODY_RES):
                body = rng.choice([b'a=1&b=2', b'{"a": 1}', mp_body(MP_VALID[0])])
                out.append(self.http(res, 'ctype:listed', 'POST', None, [['Content-Type', ct]], body, focus=['ctype', header_ok(ct)]))
        for ct in CONTENT_TYPES_FORM[:2] + ['multipart/form-data; boundary=' + BOUNDARY, 'application/json; charset=utf-8']:
            for lab, m in self.sample(mutations(ct), 3 * K):
                body = mp_body(MP_VALID[0]) if ct.startswith('multipart') else b'{"a": 1}' if 'json' in ct else b'a=1&b=%C3%A9'
                res = 'json' if 'json' in ct else rng.choice(['plain', 'upload'])
                out.append(self.http(res, 'ctype:' + lab, 'POST', None, [['Content-Type', m]], body, focus=['ctype', header_ok(m)]))
        # -- url-encoded bodies x charsets
        for b in FORM_BODIES:
            for ct in CONTENT_TYPES_FORM[:3] + ['text/plain']:
                out.append(self.http(rng.choice(['plain', 'strict', 'limited']), 'form:listed', 'POST', None, [['Content-Type', ct]], b,
                                     focus=['form', ct, b]))
        for cs in UNKNOWN_CHARSETS:
            for b in (b'a=1', b'a=%FF', b'a=\xc3\xa9', b''):
                ct = 'application/x-www-form-urlencoded; charset=' + cs
                out.append(self.http('plain', 'form:charset', 'POST', None, [['Content-Type', ct]], b, focus=['form', header_ok(ct), b]))
        for lab, m in self.sample(b_mutations(b'a=1&b=%C3%A9&a=2;c=x+y'), 5 * K):
            out.append(self.http('plain', 'form:' + lab.split(':')[0], 'POST', None, [['Content-Type', CONTENT_TYPES_FORM[0]]], m,
                                 focus=['form', CONTENT_TYPES_FORM[0], m]))
        # -- Content-Length vs bytes sent (truncated / overlong / absent / chunked), 411, 413
        for res, ct, body in (('plain', CONTENT_TYPES_FORM[0], b'a=1&b=2'), ('json', 'application/json', b'{"a": 1}'),
                              ('upload', 'multipart/form-data; boundary=' + BOUNDARY, mp_body(MP_VALID[0])),
                              ('limited', CONTENT_TYPES_FORM[0], b'a=' + b'x' * 100), ('limited', 'text/plain', b'x' * 100),
                              ('api', 'application/octet-stream', b'x' * 100)):
            n = len(body)
            for cl in [None, 0, 1, n - 1, n, n + 1, n + 1000, -1, 10 ** 30]:
                out.append(self.http(res, 'length:declared', 'POST', None, [['Content-Type', ct]], body, cl=cl,
                                     focus=['length', res, cl, n]))
            for clv in ['abc', '', '1_0', '+5', ' 5', '5 ', '0x5', '1e1', '\xb2', '5, 5', '5;q=1', '٥'.encode('utf-8').decode('latin-1')]:
                out.append(self.http(res, 'length:syntax', 'POST', None, [['Content-Type', ct], ['Content-Length', clv]], body,
                                     focus=['lengthsyntax', clv]))
            out.append(dict(self.http(res, 'length:chunked', 'POST', None, [['Content-Type', ct], ['Transfer-Encoding', 'chunked']], body,
                                      cl=None, focus=['length', res, None, n]), chunked=True))
            out.append(dict(self.http(res, 'length:chunked', 'POST', None, [['Content-Type', ct], ['Transfer-Encoding', 'chunked'],
                                                                             ['Content-Length', '3']], body, cl=None), chunked=True))
            out.append(self.http(res, 'length:te-other', 'POST', None, [['Content-Type', ct], ['Transfer-Encoding', 'gzip']], body, cl=None))
            out.append(self.http(res, 'length:get-with-body', 'GET', None, [['Content-Type', ct]], body, cl=n))

        # -- multipart bodies
        mct = 'multipart/form-data; boundary=' + BOUNDARY
        for i, parts in enumerate(MP_VALID):
            for res, ct in (('upload', mct), ('parts', 'multipart/mixed; boundary=' + BOUNDARY), ('plain', mct)):
                out.append(self.http(res, 'multipart:valid', 'POST', None, [['Content-Type', ct]], mp_body(parts), focus=['multipart', i]))
        for hdrs in PART_HEADER_BAD:
            for res, ct in (('upload', mct), ('parts', 'multipart/mixed; boundary=' + BOUNDARY)):
                body = mp_body([([cd(b'first')], b'1'), (hdrs, b'content'), ([cd(b'last')], b'3')])
                out.append(self.http(res, 'multipart:partheader', 'POST', None, [['Content-Type', ct]], body, focus=['partheader', hdrs]))
        for content in MP_CONTENT_BAD:
            body = mp_body([([cd(b'a')], content), ([cd(b'f', b'n')], content)])
            out.append(self.http('upload', 'multipart:content', 'POST', None, [['Content-Type', mct]], body, focus=['partcontent', content]))
        for parts in MP_VALID[:5]:
            base = mp_body(parts)
            for lab, m in self.sample(b_mutations(base), 8 * K):
                res = rng.choice(['upload', 'upload', 'parts', 'plain'])
                ct = mct if res != 'parts' else 'multipart/mixed; boundary=' + BOUNDARY
                out.append(self.http(res, 'multipart:' + lab.split(':')[0], 'POST', None, [['Content-Type', ct]], m, focus=['multipartbody', m]))
        for kw in ({'close': False}, {'preamble': b'junk\r\n'}, {'preamble': b'--' + BOUNDARY.encode() + b'x\r\n'}, {'epilogue': b'trailing'},
                   {'boundary': 'other'}, {'boundary': BOUNDARY + ' '}, {'boundary': BOUNDARY.lower()}):
            out.append(self.http('upload', 'multipart:framing', 'POST', None, [['Content-Type', mct]], mp_body(MP_VALID[0], **kw),
                                 focus=['multipartframing', sorted(kw)[0]]))
        for bd in ['', '"', '""', 'a b ', '\xe9', 'x' * 201, 'x' * 200 + 'y', 'a"b', '"a b"', 'a;b', 'a,b', "'a'", '?', ' ']:
            ct = 'multipart/form-data; boundary=' + bd
            out.append(self.http('upload', 'multipart:boundary', 'POST', None, [['Content-Type', ct]],
                                 mp_body(MP_VALID[0], boundary=latin1(bd).strip('" ') or 'x'), focus=['boundary', header_ok(ct)]))
        # -- JSON bodies
        for b in JSON_BODIES:
            for ct in ('application/json', 'text/javascript', 'application/json; charset=utf-16'):
                out.append(self.http('json', 'json:listed', 'POST', None, [['Content-Type', ct]], b, focus=['json', b]))
        for lab, m in self.sample(b_mutations(b'{"a": [1, 2.5, "x\\u00e9", null, true], "b": {"c": "\xc3\xa9"}}'), 8 * K):
            out.append(self.http('json', 'json:' + lab.split(':')[0], 'POST', None, [['Content-Type', 'application/json']], m, focus=['json', m]))

        # -- random combinations of listed (possibly bad) elements: interactions between parsers
        pools = [('Cookie', COOKIES_VALID + COOKIES_BAD), ('Range', RANGES), ('Accept', ACCEPTS['Accept']),
                 ('Accept-Encoding', ACCEPTS['Accept-Encoding']), ('Accept-Charset', ACCEPTS['Accept-Charset']),
                 ('Cache-Control', CACHE_CONTROLS), ('If-None-Match', CONDITIONALS['If-None-Match']),
                 ('If-Modified-Since', CONDITIONALS['If-Modified-Since']), ('X-Custom', RFC2047_VALID + RFC2047_BAD),
                 ('Authorization', basic_bad()[:10] + digest_bad()[:10]), ('Host', HOSTS), ('Referer', REFERERS),
                 ('X-Forwarded-Host', PROXY_HEADERS['X-Forwarded-Host']), ('Content-Type', CONTENT_TYPES_FORM + CONTENT_TYPES_OTHER)]
        for _ in range(1500 if quick else 60000):
            res = rng.choice(sorted(RES_TARGET))
            hs = [[k, rng.choice(vs)] for k, vs in rng.sample(pools, rng.choice([1, 2, 2, 3, 4]))]
            method = rng.choice(['GET', 'GET', 'POST', 'HEAD', 'PUT'])
            body = b''
            if method in ('POST', 'PUT'):
                body = rng.choice(FORM_BODIES + JSON_BODIES[:8] + [mp_body(p) for p in MP_VALID[:3]])
            t = RES_TARGET[res]
            if rng.random() < .3:
                t = t.split('?')[0] + '?' + rng.choice(QUERIES)
            out.append(self.http(res, 'combo', method, t, hs, body, proto=rng.choice(['HTTP/1.1', 'HTTP/1.1', 'HTTP/1.0'])))
        for c in out:
            self.count('element:' + c['src'].split(':')[0])
            self.count('operator:' + c['src'].split(':')[-1])
            self.count('resource:' + c['res'])
            self.count('method:' + (c['method'] if c['method'] in ('GET', 'POST', 'HEAD', 'PUT') else 'other'))
        return out

    def search_cases(self, around=None):
        for c in around or []:
            yield c

    # ------------------------------------------------------------------ implementation side
    def setup(self):
        import cherrypy
        from cherrypy.lib import static, cptools, httputil, auth_digest
        from cherrypy import _cpreqbody
        self.cherrypy = cherrypy
        shutil.rmtree(STATICDIR, ignore_errors=True)
        shutil.rmtree(SESSDIR, ignore_errors=True)
        os.makedirs(STATICDIR)
        os.makedirs(os.path.join(SESSDIR, 'session-dir'))
        os.makedirs(os.path.join(SESSDIR, 'session-sub'))
        with open(os.path.join(STATICDIR, 'hello.txt'), 'wb') as f:
            f.write(b'Hello, world\r\n')
        os.utime(os.path.join(STATICDIR, 'hello.txt'), (1600000000, 1600000000))
        hello = os.path.join(STATICDIR, 'hello.txt')

        def total(v):
            """what a total handler does with a parsed parameter: look at it"""
            if isinstance(v, list):
                return sum(total(x) for x in v)
            if isinstance(v, _cpreqbody.Part):
                n = len(v.filename or '') + len(v.name or '')
                if v.file is not None:
                    v.file.seek(0)
                    return n + len(v.file.read())
                return n + len(v.value or b'')
            return len(str(v))

        class MD:
            exposed = True

            def GET(self, *a, **kw):
                return 'md get'

            def POST(self, *a, **kw):
                return 'md post %d' % sum(total(v) for v in kw.values())

        class Sub:
            @cherrypy.expose
            def index(self, *a, **kw):
                return 'sub index'

        class Root:
            sub = Sub()          # /sub (no trailing slash) is answered by the trailing_slash tool's redirect

            @cherrypy.expose
            def index(self, *a, **kw):
                return 'index'

            @cherrypy.expose
            def plain(self, *a, **kw):
                return 'ok %d' % sum(total(v) for v in kw.values())
            limited = plain
            proxy = plain
            referer = plain
            accept = plain
            basic = plain
            digest = plain

            @cherrypy.expose
            def strict(self, a, b='x'):
                return 'ok %d' % (total(a) + total(b))

            @cherrypy.expose
            def api(self, *a, **kw):
                """a handler that uses the framework's public parsing API on the request"""
                rq = cherrypy.request
                n = 0
                for h in ('Accept', 'Accept-Charset', 'Accept-Encoding', 'Accept-Language', 'TE', 'Cache-Control', 'Content-Type',
                          'If-None-Match', 'Content-Disposition', 'Cookie', 'X-Custom'):
                    for e in rq.headers.elements(h):
                        n += len(str(e))
                        if isinstance(e, httputil.AcceptElement):
                            n += e.qvalue > 0
                    n += len(rq.headers.values(h))
                r = httputil.get_ranges(rq.headers.get('Range'), 100)
                n += len(r or [])
                for k in rq.cookie:
                    n += len(rq.cookie[k].value)
                if rq.body is not None and rq.method in rq.methods_with_bodies and not rq.body.params and rq.process_request_body:
                    n += len(rq.body.read())
                n += len(cherrypy.url(qs=rq.query_string)) + len(rq.base)
                return 'api %d' % n

            @cherrypy.expose
            def serve(self, *a, **kw):
                return static.serve_file(hello, 'text/plain')

            @cherrypy.expose
            def sram(self, *a, **kw):
                s = cherrypy.session
                s['n'] = s.get('n', 0) + 1
                return 'n=%d' % s['n']
            sfs = sram

            @cherrypy.expose
            def cached(self, *a, **kw):
                return 'cached content'

            @cherrypy.expose
            @cherrypy.tools.json_in()
            @cherrypy.tools.json_out()
            def json(self, *a, **kw):
                j = getattr(cherrypy.request, 'json', None)
                return {'type': type(j).__name__}

            @cherrypy.expose
            def upload(self, *a, **kw):
                return 'upload %d' % sum(total(v) for v in kw.values())

            @cherrypy.expose
            def parts(self, *a, **kw):
                n = sum(total(v) for v in kw.values())
                for p in cherrypy.request.body.parts:
                    n += total(p)
                return 'parts %d' % n

            @cherrypy.expose
            def enc(self, *a, **kw):
                return 'caf\xe9 € ' * 20

            @cherrypy.expose
            def stream(self, *a, **kw):
                def gen():
                    yield 'a'
                    yield 'b\xe9'
                return gen()

            @cherrypy.expose
            def etag(self, *a, **kw):
                cherrypy.response.headers['Last-Modified'] = 'Sun, 13 Sep 2020 12:26:40 GMT'
                cptools.validate_since()
                return 'etagged'
            md = MD()

        users = dict(USERS)
        ha1 = auth_digest.get_ha1_dict_plain(users)
        conf = {
            '/': {'tools.log_tracebacks.on': True},
            '/static': {'tools.staticdir.on': True, 'tools.staticdir.dir': STATICDIR},
            '/sfile': {'tools.staticfile.on': True, 'tools.staticfile.filename': hello},
            '/sram': {'tools.sessions.on': True},
            '/sfs': {'tools.sessions.on': True, 'tools.sessions.storage_class': cherrypy.lib.sessions.FileSession,
                     'tools.sessions.storage_path': SESSDIR},
            '/cached': {'tools.caching.on': True, 'tools.caching.delay': 3600},
            '/basic': {'tools.auth_basic.on': True, 'tools.auth_basic.realm': REALM,
                       'tools.auth_basic.checkpassword': lambda realm, u, p: users.get(u) == p,
                       'tools.auth_basic.accept_charset': 'UTF-8'},
            '/digest': {'tools.auth_digest.on': True, 'tools.auth_digest.realm': REALM, 'tools.auth_digest.get_ha1': ha1,
                        'tools.auth_digest.key': DIGEST_KEY, 'tools.auth_digest.accept_charset': 'UTF-8'},
            '/enc': {'tools.encode.on': True, 'tools.gzip.on': True, 'tools.gzip.mime_types': ['text/*']},
            '/stream': {'tools.encode.on': True, 'tools.gzip.on': True, 'response.stream': True},
            '/accept': {'tools.accept.on': True, 'tools.accept.media': ['text/html', 'text/plain']},
            '/proxy': {'tools.proxy.on': True},
            '/referer': {'tools.referer.on': True, 'tools.referer.pattern': r'http://localhost.*', 'tools.referer.accept': True,
                         'tools.referer.accept_missing': True},
            '/etag': {'tools.etags.on': True, 'tools.etags.autotags': True},
            '/md': {'request.dispatch': cherrypy.dispatch.MethodDispatcher()},
            '/limited': {'request.body.maxbytes': 16},
        }
        self.app = wsgi.make_app(Root(), conf)
        self.tap = LogTap()
        cherrypy.log.error_log.addHandler(self.tap)
        cherrypy.log.error_log.setLevel(logging.DEBUG)
        # exceptions raised before the resource's config is known (process_headers) are not logged by any hook:
        # observe them where the framework turns them into a 500 (patched from outside, restored in teardown)
        from cherrypy import _cprequest
        self._rq = _cprequest.Request
        self._orig_handle_error = orig = _cprequest.Request.handle_error
        tap = self.tap

        def handle_error(rq):
            tap.grab()
            return orig(rq)
        _cprequest.Request.handle_error = handle_error
        # a known session (so that an adopted id exists) and a primed cache
        self._prime()

    def _prime(self):
        cherrypy = self.cherrypy
        if hasattr(cherrypy, '_cache'):
            del cherrypy._cache
        wsgi.call(self.app, 'GET', '/cached')
        with open(os.path.join(SESSDIR, 'session-known'), 'wb') as f:
            import pickle
            import datetime
            pickle.dump(({'n': 1}, datetime.datetime.now() + datetime.timedelta(days=1)), f)

    def teardown(self):
        if self.tap is not None:
            self.cherrypy.log.error_log.removeHandler(self.tap)
            self.tap = None
            self._rq.handle_error = self._orig_handle_error
        try:
            from cherrypy.lib import sessions
            if hasattr(self.cherrypy, '_cache'):
                del self.cherrypy._cache
            for cls in (sessions.RamSession, sessions.FileSession):
                t = getattr(cls, 'clean_thread', None)
                if t:
                    t.stop()
                    cls.clean_thread = None
        except Exception:
            pass

    def impl(self, c):
        if self.app is None:
            self.setup()
        self.tap.hits[:] = []
        res = wsgi.call(self.app, c['method'], c['target'], [tuple(h) for h in c['headers']], c['body'], c['proto'],
                        chunked=bool(c.get('chunked')), add_host=not c.get('nohost'))
        obs = {'status': res['status'], 'server_rejected': res['server_rejected'], 'escaped': res['escaped'],
               'problems': res['problems'], 'exc': None, 'where': None, 'msg': None, 'nlogged': len(self.tap.hits)}
        if self.tap.hits:
            et, msg, frames, mro, _ = self.tap.hits[-1]
            obs['exc'], obs['msg'], obs['where'], obs['mro'] = et, msg, where(frames), mro
            obs['line'] = [f for f in frames if '/cherrypy/' in f[0]][-1:]
        return obs

    def encode(self, c):
        flags = FLAGS_WRITTEN if self.variant == 'written' else FLAGS_FIXED
        try:
            mi = model_input(c, flags)
        except RecursionError:
            mi = None
        return mi if mi is not None else [0, flags]

    def compare(self, c, mo, obs):
        if isinstance(mo, str):
            return 'model driver: %s' % mo[:80]
        if obs['server_rejected']:
            return None
        kind, code, point = mo
        parser = (c.get('focus') or ['none'])[0]
        if kind == 4:
            self.count('model:abstains')
            return None
        self.count('model:%s:%s' % (parser, ['ok', 'reject', 'answer', 'crash'][kind]))
        st = obs['status']
        if kind == 0:
            if st is None or st >= 500:
                return 'model: %s tolerated; implementation answered %s (%s in %s)' % (parser, st, obs['exc'], obs['where'])
            if c['res'] == 'plain' and c['method'] in ('GET', 'POST') and st in (400, 404, 411, 413) and parser in (
                    'text', 'cookie', 'host', 'query', 'form', 'disposition', 'json', 'length', 'kw') and not (
                    'self' in c['target'] or b'self' in c['body']):
                return 'model: %s tolerated; implementation answered %s' % (parser, st)
            return None
        if kind in (1, 2):
            if st != code:
                return 'model: %s rejected with %d; implementation answered %s (%s in %s)' % (parser, code, st, obs['exc'], obs['where'])
            return None
        want_exc, want_where = ID_EXN.get(code, '?'), POINT_WHERE.get(point)
        if st != 500:
            return 'model: %s crashes with %s in %s; implementation answered %s' % (parser, want_exc, want_where, st)
        if want_exc not in (obs.get('mro') or []) or obs['where'] != want_where:
            return 'model: %s crashes with %s in %s; implementation: %s (%s) in %s' % (
                parser, want_exc, want_where, obs['exc'], obs.get('mro'), obs['where'])
        return None

    def extra(self):
        out = []
        if BROKEN:
            seen = sorted(set(BROKEN))
            self.notes.append('library calls outside their declared raise-sets: %r' % seen[:20])
            out.append(core.Violation('assumption:raise-set', 'a library call raised outside its declared raise-set: %s'
                                      % '; '.join(seen[:5]), kind='obligation', no_input=True, broken=seen[:20]))
        return out

    # ------------------------------------------------------------------ property oracle
    def oracle(self, c, obs):
        if obs['server_rejected']:
            return []
        st = obs['status']
        if obs['escaped'] or st is None:
            return [('5xx:escaped:%s' % (obs['escaped'] or '').split(':')[0],
                     'an exception reached the WSGI server: %r (%s %s)' % (obs['escaped'], c['method'], c['target']))]
        if st >= 500:
            sig = '5xx:%s:%s' % (obs['where'] or 'explicit', obs['exc'] or st)
            if sig == '5xx:_cpdispatch.__call__:TypeError':
                # the handler call itself failed: which of Python's binding errors (the classes test_callable_spec knows)
                m = obs['msg'] or ''
                sig += (':missing-arg' if 'missing' in m and 'required' in m else
                        ':multiple-values' if 'multiple values' in m else
                        ':unexpected-keyword' if 'unexpected keyword' in m else
                        ':too-many-positional' if 'positional argument' in m else ':other')
            return [(sig, '%d for %s %s [%s] headers %r body %r: %s: %s' % (
                st, c['method'], c['target'], c['src'], c['headers'], c['body'][:80], obs['exc'], obs['msg']))]
        return []

    def nontrivial(self, c, obs):
        if obs['server_rejected']:
            return None
        if obs['status'] == 200 and c['src'].startswith('base'):
            return None
        return (c['res'], c['src'], obs['status'], obs['where'])

    def shrink(self, c, still_fails):
        c = dict(c)

        def tryset(**kw):
            d = dict(c, **kw)
            try:
                if still_fails(d):
                    c.update(kw)
                    return True
            except Exception:
                pass
            return False
        # drop headers one at a time
        hs = core.shrink_list(c['headers'], lambda h: still_fails(dict(c, headers=h)))
        c['headers'] = hs
        if c['method'] not in ('GET', 'POST'):
            tryset(method='GET') or tryset(method='POST')
        if c['proto'] != 'HTTP/1.1':
            tryset(proto='HTTP/1.1')
        if '?' in c['target']:
            tryset(target=c['target'].split('?')[0])
        # shrink the body with a fitting Content-Length
        def with_body(b):
            hs2 = [[k, (str(len(b)) if k.lower() == 'content-length' and v == str(len(c['body'])) else v)] for k, v in c['headers']]
            return dict(c, body=b, headers=hs2)
        if c['body']:
            bs = core.shrink_list(list(c['body']), lambda l: still_fails(with_body(bytes(l))))
            c.update(with_body(bytes(bs)))
        # shrink each header value
        for i, (k, v) in enumerate(list(c['headers'])):
            if k.lower() == 'content-length':
                continue
            def put(chars, i=i, k=k):
                hs2 = [list(h) for h in c['headers']]
                hs2[i] = [k, header_ok(''.join(chars))]
                return dict(c, headers=hs2)
            if len(v) < 400:
                cs = core.shrink_list(list(v), lambda l: still_fails(put(l)))
                c['headers'] = put(cs)['headers']
        return c


CHECK = C07
