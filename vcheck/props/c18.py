"""C18 - process bus: every listener runs, in order; state follows the lifecycle.

Drives a fresh real ``wspbus.Bus()`` per case with probe listeners whose behaviour is a script
(subscribe / unsubscribe / publish re-entrantly, then return / raise Exception / SystemExit /
KeyboardInterrupt), compares results, journal, final subscriptions with the extracted model
(coq/Model/M_bus.v) and judges the property clauses from the observations alone."""
import ast
import itertools
import os
import sys

from .. import core, sx

CHN = ['start', 'stop', 'exit', 'graceful', 'log', 'main', 'c6', 'c7']
START, STOP, EXIT, GRACEFUL, LOG, MAIN = 0, 1, 2, 3, 4, 5
STN = ['STOPPED', 'STARTING', 'STARTED', 'STOPPING', 'EXITING']
S_STOPPED, S_STARTING, S_STARTED, S_STOPPING, S_EXITING = range(5)
KIND = ['start', 'stop', 'graceful', 'restart', 'exit', 'publish', 'subscribe', 'unsubscribe']
NL = 8          # listener pool
FUEL = 6        # = M_bus.FUEL: maximal nesting depth of publish


class _OsExit(BaseException):
    def __init__(self, code):
        self.code = code


class _OutOfFuel(BaseException):
    pass


class ProbeError(Exception):
    pass


class _OsProxy:
    """stands in for the name ``os`` inside the wspbus module: _exit is intercepted"""

    def __init__(self, real):
        self.__dict__['_real'] = real

    def __getattr__(self, n):
        return getattr(self._real, n)

    def _exit(self, code):
        raise _OsExit(code)


class _AtexitStub:
    def register(self, *a, **k):
        return a[0] if a else None

    def unregister(self, *a, **k):
        pass


class Probe:
    """one subscription = one callable; hash = the rank the case assigns to the listener so that the
    iteration order of the channel's set is the order the model is told"""

    def __init__(self, env, ch, lid):
        self.env, self.ch, self.lid = env, ch, lid

    def __hash__(self):
        return self.env.rank[self.lid]

    def __eq__(self, o):
        return self is o

    def __repr__(self):
        return 'L%d@%s' % (self.lid, CHN[self.ch])

    def __call__(self, *a, **k):
        env = self.env
        d = env.depth()
        if d > FUEL:
            raise _OutOfFuel()
        env.trace.append(['c', d, self.ch, self.lid, env.state()])
        env.journal.append([d, self.ch, self.lid, env.state()])
        how = [0]
        try:
            try:
                acts, fin = env.behs[self.lid]
                for a_ in acts:
                    if a_[0] == 0:
                        env.trace.append(['s', a_[1], a_[2]])
                        env.sub(a_[1], a_[2], a_[3])
                    elif a_[0] == 1:
                        env.trace.append(['u', a_[1], a_[2]])
                        env.unsub(a_[1], a_[2])
                    else:
                        env.bus.publish(CHN[a_[1]])
                if fin[0] == 1:
                    raise ProbeError(self.lid)
                if fin[0] == 2:
                    raise SystemExit(fin[1])
                if fin[0] == 3:
                    raise KeyboardInterrupt()
                return self.lid
            except Exception as e:
                e._via = self.lid
                how = [1]
                raise
            except SystemExit as e:
                how = [2, e.code]
                raise
            except KeyboardInterrupt:
                how = [3]
                raise
            except BaseException:
                how = [5]
                raise
        finally:
            env.trace.append(['e', d, self.ch, self.lid] + how)


class Env:
    def __init__(self, wspbus, case):
        self.w = wspbus
        self.bus = wspbus.Bus()
        self.behs = case['behs']
        self.rank = case['rank']
        self.trace = []
        self.journal = []
        self.probes = {}
        self.want = {}          # the harness's own record of the subscribe/unsubscribe calls made: (ch, lid) -> priority
        st = wspbus.states
        self.stmap = {id(getattr(st, n)): i for i, n in enumerate(STN)}

    def probe(self, ch, lid):
        p = self.probes.get((ch, lid))
        if p is None:
            p = self.probes[(ch, lid)] = Probe(self, ch, lid)
        return p

    def state(self):
        return self.stmap.get(id(self.bus.state), -1)

    def depth(self):
        f = sys._getframe(1)
        n = 0
        while f is not None:
            co = f.f_code
            if co.co_name == 'publish' and co.co_filename.endswith('wspbus.py'):
                n += 1
            f = f.f_back
        return n

    def sub(self, ch, lid, prio):
        r = self.bus.subscribe(CHN[ch], self.probe(ch, lid), prio)
        self.want[(ch, lid)] = 50 if prio is None else prio       # Probe has no .priority attribute: default 50
        return r

    def unsub(self, ch, lid):
        r = self.bus.unsubscribe(CHN[ch], self.probe(ch, lid))
        self.want.pop((ch, lid), None)
        return r

    def subscribed(self):
        """what the calls made so far say is subscribed, independent of the bus's own tables (which subs() reads)"""
        out = {}
        for (ch, lid), p in sorted(self.want.items()):
            out.setdefault(ch, []).append([lid, p])
        return out

    def subs(self):
        out = {}
        for ch, name in enumerate(CHN):
            ls = self.bus.listeners.get(name)
            if ls:
                out[ch] = [[p.lid, self.bus._priorities.get((name, p))] for p in ls]
        return out


class C18(core.Check):
    pid = 'C18'
    props_files = ('Props/C18.v',)
    refuted_files = ('Refuted/R_C18.v',)
    model_fn = ('run_C18', 'Model.M_bus')
    rule = ('call sequences of length <= 6 over {start, stop, graceful, restart, exit, publish(any channel), '
            'subscribe, unsubscribe} on a fresh wspbus.Bus() x 0..4 listeners per channel out of a pool of 8 '
            '(priorities 10/50/90/None with ties, random set-iteration order) x behaviours {return, raise '
            'Exception, SystemExit(0/3), KeyboardInterrupt} x scripts that (un)subscribe or publish re-entrantly, '
            'os._exit intercepted; plus the complete enumeration of publish over <= 4 listeners x 2 priorities '
            'x raising subsets and of lifecycle sequences (<= 2 calls quick, <= 4 thorough) x one listener per '
            'lifecycle channel x 4 behaviours (<= 4 calls thorough); a case is non-trivial when a listener was invoked; distinct by '
            '(call kinds, result kinds, journal size)')
    assumptions = (
        'the iteration order of a channel\'s listener set is an environment parameter (the case\'s rank; the '
        'probes\' __hash__ realises it); theorems hold for every order, the oracle treats equal priorities as sets',
        'listeners are called from one thread; block()/wait() and real threads are outside this property',
        'SystemExit codes are ints; listeners (un)subscribe and publish but do not call start/stop/exit re-entrantly',
        'calls ending in SystemExit/KeyboardInterrupt carry no demand on the final state (the process is '
        'on its way out); os._exit ends the history',
        're-entrant publish nesting deeper than 6 is cut off in model (PFuel) and harness alike; theorems exclude it',
    )

    # ------------------------------------------------------------------ setup
    _tie_broken = False

    def setup(self):
        from cherrypy.process import wspbus
        self._disagree = []
        self._osigs = set()
        self.w = wspbus
        self._saved = (wspbus.os, wspbus.atexit)
        wspbus.os = _OsProxy(self._saved[0])
        wspbus.atexit = _AtexitStub()
        # the set-iteration assumption the rank mechanism relies on
        class H:
            def __init__(s, h):
                s.h = h

            def __hash__(s):
                return s.h
        ok = True
        for perm in ([3, 1, 7, 0], [7, 6, 5, 4, 3, 2, 1, 0], [2, 5]):
            st = set()
            for h in perm:
                st.add(H(h))
            ok = ok and [x.h for x in st] == sorted(perm)
        self.set_order_ok = ok
        if not ok:
            self.notes.append('set iteration order is not ascending-hash on this interpreter: tie order '
                              'inside equal priorities may differ between model and implementation')

    def teardown(self):
        if getattr(self, '_saved', None):
            self.w.os, self.w.atexit = self._saved
            self._saved = None

    # ------------------------------------------------------------------ G
    def ties(self):
        src = open(os.path.join(core.REPO, 'cherrypy', 'process', 'wspbus.py')).read()
        life, hand, pub = translate(src)
        # which stop() the source has: with the try/finally repair or without (the oracle, not this
        # tie, is what reports the unrepaired one)
        variant = 'true' if dict(hand)[1] else 'false'
        self.notes.append('source has the %s stop() (M_bus.c_fix_stop = %s)'
                          % ('repaired' if variant == 'true' else 'unrepaired', variant))

        def zl(l):
            return '[' + '; '.join(str(x) for x in l) + ']'

        def zll(l):
            return '[' + '; '.join(zl(x) for x in l) + ']'
        t_life = '[' + ';\n  '.join('(%d, %s)' % (k, zll(v)) for k, v in life) + ']'
        t_hand = '[' + ';\n  '.join('(%d, [%s])' % (k, '; '.join('(%s, %s)' % (zl(c), zll(s)) for c, s in v))
                                    for k, v in hand) + ']'
        t_pub = '[' + ';\n  '.join('(%s, %s)' % (zl(c), zll(s)) for c, s in pub) + ']'
        text = '\n'.join([
            'From Coq Require Import ZArith List.', 'Import ListNotations.',
            'From CV Require Import Model.M_bus.', 'Open Scope Z_scope.',
            '(* generated from %s by vcheck/props/c18.py *)' % 'cherrypy/process/wspbus.py',
            'Definition gen_lifecycle : list (Z * list (list Z)) :=\n  %s.' % t_life,
            'Definition gen_handlers : list (Z * list (list Z * list (list Z))) :=\n  %s.' % t_hand,
            'Definition gen_publish : list (list Z * list (list Z)) :=\n  %s.' % t_pub,
            'Lemma tie_lifecycle : gen_lifecycle = lifecycle_skel. Proof. vm_compute. reflexivity. Qed.',
            'Lemma tie_handlers : gen_handlers = handler_skel %s. Proof. vm_compute. reflexivity. Qed.' % variant,
            'Lemma tie_publish : gen_publish = publish_skel. Proof. vm_compute. reflexivity. Qed.', ''])
        ok, out = core.coq_check_text('Tie_C18', text)
        self._tie_broken = not ok
        names = ['tie_lifecycle(start/stop/exit/restart/graceful: states set and channels published, in source '
                 'order = M_bus.lifecycle_skel)', 'tie_handlers(except clauses of start/exit, os._exit code, '
                 'exit-in-STARTING rule = M_bus.handler_skel)', 'tie_publish(sort key, except clauses of publish '
                 '= M_bus.publish_skel)']
        if ok:
            return [core.Obligation(n, True) for n in names]
        bad = [n for n in names if n.split('(')[0] in out] or names
        return [core.Obligation(n, n not in bad, out if n in bad else '') for n in names]

    # ------------------------------------------------------------------ generation
    def gen_beh(self, rng, flavour):
        acts = []
        if flavour in ('reent', 'wild') and rng.random() < .45:
            for _ in range(rng.choice([1, 1, 2])):
                k = rng.choice([0, 1, 2, 2])
                ch = rng.choice([0, 1, 2, 3, 5, 6, 6, 7, 7] + ([4] if flavour == 'wild' else []))
                if k == 0:
                    acts.append([0, ch, rng.randrange(NL), rng.choice([10, 50, 90])])
                elif k == 1:
                    acts.append([1, ch, rng.randrange(NL)])
                else:
                    acts.append([2, ch])
        if flavour == 'exc':
            fin = rng.choice([[0], [0], [1]])
        elif flavour == 'quiet':
            fin = [0]
        else:
            fin = rng.choice([[0]] * 6 + [[1]] * 3 + [[2, 0], [2, 3], [3]])
        return [acts, fin]

    def gen_case(self, rng):
        flavour = rng.choice(['exc', 'exc', 'mixed', 'mixed', 'reent', 'reent', 'wild', 'logfail'])
        bf = 'mixed' if flavour == 'logfail' else flavour
        behs = [self.gen_beh(rng, bf) for _ in range(NL)]
        rank = list(range(NL))
        if rng.random() < .6:
            rng.shuffle(rank)
        subs = []
        for ch in range(len(CHN)):
            if ch == LOG:
                if flavour == 'logfail':
                    n = rng.choice([1, 2])
                elif flavour == 'wild':
                    n = rng.choice([0, 0, 1, 2])
                else:
                    n = 0
            else:
                n = rng.choice([0, 1, 2, 2, 3, 3, 4])
            ids = rng.sample(range(NL), n)
            if ch == LOG and flavour == 'wild':
                okids = [i for i in range(NL) if behs[i][1] == [0]]
                if len(okids) >= n and rng.random() < .7:
                    ids = rng.sample(okids, n)
            pal = rng.choice([[50], [10, 50], [10, 50, 50, 90, None], [10, 10, 50]])
            for i in ids:
                subs.append([ch, i, rng.choice(pal)])
        rng.shuffle(subs)
        calls = []
        for _ in range(rng.randrange(1, 7)):
            k = rng.choice([0, 0, 1, 1, 2, 3, 4, 4, 5, 5, 5, 6, 7])
            if k == 5:
                calls.append([5, rng.choice([6, 6, 6, 7, 7, 0, 1, 2, 3, 4, 5])])
            elif k == 6:
                calls.append([6, rng.choice([0, 1, 2, 3, 6, 7, 5]), rng.randrange(NL), rng.choice([10, 50, 90, None])])
            elif k == 7:
                if subs and rng.random() < .8:
                    s = rng.choice(subs)
                    calls.append([7, s[0], s[1]])
                else:
                    calls.append([7, rng.choice([0, 1, 2, 6]), rng.randrange(NL)])
            else:
                calls.append([k])
        return {'behs': behs, 'rank': rank, 'subs': subs, 'calls': calls, 'flavour': flavour}

    def enum_publish(self):
        """complete: publish(c6) over n <= 4 listeners x priorities {1,2} x raising subsets x 2 set orders"""
        for n in range(0, 5):
            for prios in itertools.product([1, 2], repeat=n):
                for raising in itertools.product([0, 1], repeat=n):
                    for rank in (list(range(NL)), list(reversed(range(NL)))):
                        behs = [[[], [raising[i]] if i < n else [0]] for i in range(NL)]
                        yield {'behs': behs, 'rank': rank, 'subs': [[6, i, prios[i]] for i in range(n)],
                               'calls': [[5, 6]], 'flavour': 'enum-publish'}

    def enum_lifecycle(self, maxlen):
        """complete: call sequences over {start, stop, graceful, restart, exit} x one listener on each of
        start/stop/exit with behaviour in {Ok, Exception, SystemExit(0), KeyboardInterrupt}"""
        outs = [[0], [1], [2, 0], [3]]
        for L in range(1, maxlen + 1):
            for seq in itertools.product([0, 1, 2, 3, 4], repeat=L):
                for b in itertools.product(outs, repeat=3):
                    behs = [[[], list(b[i])] if i < 3 else [[], [0]] for i in range(NL)]
                    yield {'behs': behs, 'rank': list(range(NL)),
                           'subs': [[0, 0, 50], [1, 1, 50], [2, 2, 50], [3, 3, 50]],
                           'calls': [[k] for k in seq], 'flavour': 'enum-lifecycle'}

    def cases(self):
        n = 6000 if self.tier == 'quick' else 250000
        out = [self.gen_case(self.rng) for _ in range(n)]
        out += list(self.enum_publish())
        out += list(self.enum_lifecycle(2 if self.tier == 'quick' else 4))
        for c in out:
            self.count('flavour:' + c['flavour'])
            self.count('calls:%d' % len(c['calls']))
            for k in c['calls']:
                self.count('call:' + KIND[k[0]])
            per = {}
            for ch, i, p in c['subs']:
                per.setdefault(ch, []).append(50 if p is None else p)
            for ch in range(len(CHN)):
                self.count('listeners-per-channel:%d' % len(per.get(ch, [])))
            if any(len(set(v)) < len(v) for v in per.values()):
                self.count('cases-with-priority-ties')
            for a, f in c['behs']:
                self.count('behaviour:' + ['return', 'Exception', 'SystemExit', 'KeyboardInterrupt'][f[0]])
                for x in a:
                    self.count('reentrant:' + ['subscribe', 'unsubscribe', 'publish'][x[0]])
        return out

    def search_cases(self, around=None):
        for c in around or []:
            yield c
        for c in self.enum_publish():
            yield c
        for c in self.enum_lifecycle(3):
            yield c
        for _ in range(40000):
            yield self.gen_case(self.rng)

    # ------------------------------------------------------------------ model side
    def encode(self, c):
        def p50(p):
            return 50 if p is None else p
        behs = [[[(a[:3] + [p50(a[3])]) if a[0] == 0 else a for a in acts], fin] for acts, fin in c['behs']]
        calls = [(k[:3] + [p50(k[3])]) if k[0] == 6 else k for k in c['calls']]
        return [1, behs, c['rank'], [[ch, i, p50(p)] for ch, i, p in c['subs']], calls]

    # ------------------------------------------------------------------ implementation side
    def impl(self, c):
        w = self.w
        env = Env(w, c)
        bus = env.bus
        for ch, i, p in c['subs']:
            env.sub(ch, i, p)
        results, percall = [], []
        for k in c['calls']:
            pre = env.subscribed()
            st0 = env.state()
            t0 = len(env.trace)
            payload = []
            try:
                r = None
                if k[0] == 0:
                    r = bus.start()
                elif k[0] == 1:
                    r = bus.stop()
                elif k[0] == 2:
                    r = bus.graceful()
                elif k[0] == 3:
                    r = bus.restart()
                elif k[0] == 4:
                    r = bus.exit()
                elif k[0] == 5:
                    r = bus.publish(CHN[k[1]])
                    payload = list(r)
                    r = None
                elif k[0] == 6:
                    r = env.sub(k[1], k[2], k[3])
                elif k[0] == 7:
                    r = env.unsub(k[1], k[2])
                kind = 0
                if r is not None:
                    kind, payload = 8, [repr(r)]
            except w.ChannelFailures as e:
                kind, payload = 1, [getattr(x, '_via', -1) for x in e.get_instances()]
            except SystemExit as e:
                kind, payload = 2, [e.code]
            except KeyboardInterrupt:
                kind, payload = 3, []
            except _OsExit as e:
                kind, payload = 4, [e.code]
            except _OutOfFuel:
                kind, payload = 5, []
            except Exception as e:
                kind, payload = 9, [repr(e)]
            results.append([kind, payload, env.state(), bool(bus.execv)])
            percall.append({'pre': {str(a): b for a, b in pre.items()}, 'state0': st0, 'trace': env.trace[t0:]})
            if kind in (4, 5):
                break
        final = []
        for ch, lst in env.subs().items():
            for i, p in lst:
                final.append([ch, i, p])
        return {'results': results, 'journal': env.journal, 'subs': sorted(final),
                'nprio': len(bus._priorities), 'percall': percall}

    def compare(self, c, mo, obs):
        d0 = self._cmp(mo[0], obs)
        if d0 is None:
            return None
        if self._cmp(mo[1], obs) is None:
            self.count('cases-matching-the-unrepaired-stop-variant')
            return None
        self._disagree.append((c, obs, mo[0], d0))
        return d0

    def extra(self):
        """core reports a broken correspondence / tie only when the oracle found nothing at all; here
        the oracle always finds the recorded finding log-listener-raises, so when *only* known
        signatures failed the break is reported from here (no failing input: every generated and
        enumerated case went through the oracle)."""
        broken = []
        if getattr(self, 'model', None) is None:
            broken.append('coq-build / extraction of the C18 development')
        if self._disagree:
            broken.append('correspondence:run_C18')
        if self._tie_broken:
            broken.append('ties(tie_lifecycle, tie_handlers, tie_publish)')
        if not broken or not self._osigs:
            return []          # nothing broke, or core handles it itself
        known = set(k['signature'] for k in core.load_known()
                    if k.get('property') == self.pid and k.get('status') == 'known')
        if not self._osigs <= known:
            return []          # a real oracle violation is reported with these names attached
        if self._disagree:
            c, obs, mo, d = self._disagree[0]
            return [core.Violation('correspondence:C18', 'model and implementation disagree (%d cases): %s'
                                   % (len(self._disagree), d), case=c, observed=obs, expected=mo,
                                   kind='correspondence', no_input=True, broken=broken)]
        return [core.Violation('obligation:C18', 'proof/tie obligations no longer check: ' + ', '.join(broken),
                               kind='obligation', no_input=True, broken=broken)]

    def _cmp(self, m, obs):
        m_res, m_j, m_subs = m
        res = [[k, sx.norm(p), s, sx.norm(e)] for k, p, s, e in obs['results']]
        if len(m_res) != len(res):
            return 'number of calls executed: model %d impl %d' % (len(m_res), len(res))
        for i, (a, b) in enumerate(zip(m_res, res)):
            if a != b:
                return 'call %d (kind, payload, state, execv): model %r impl %r' % (i, a, b)
        if m_j != obs['journal']:
            n = next((i for i, (a, b) in enumerate(zip(m_j, obs['journal'])) if a != b), min(len(m_j), len(obs['journal'])))
            return 'journal differs at entry %d: model %r impl %r' % (n, m_j[n:n + 2], obs['journal'][n:n + 2])
        if sorted(m_subs) != obs['subs']:
            return 'final subscriptions: model %r impl %r' % (sorted(m_subs), obs['subs'])
        if obs['nprio'] != len(obs['subs']):
            return '_priorities has %d entries for %d subscriptions' % (obs['nprio'], len(obs['subs']))
        return None

    # ------------------------------------------------------------------ property oracle
    def oracle(self, c, obs):
        fails = self._oracle(c, obs)
        self._osigs.update(sig for sig, _ in fails)
        return fails

    def _oracle(self, c, obs):
        fails = []
        for k, (kind, payload, st1, ex1), pc in zip(c['calls'], obs['results'], obs['percall']):
            fs = list(self._judge(k, kind, payload, st1, ex1, pc))
            # a listener on the log channel: raising Exception there makes self.log() raise inside
            # publish()'s except handler and inside start/stop/exit (one recorded finding, one signature);
            # raising SystemExit/KeyboardInterrupt there legitimately ends any call at any point (not judged)
            log_exc = any(e[0] == 'e' and e[2] == LOG and e[4] == 1 for e in pc['trace'])
            log_abort = any(e[0] == 'e' and e[2] == LOG and e[4] in (2, 3, 5) for e in pc['trace'])
            for sig, what in fs:
                if sig != 'unexpected-exception' and not (k[0] == 5 and k[1] == LOG):
                    if log_exc:
                        sig, what = 'log-listener-raises', ('with a listener on the log channel raising Exception: ' + what)
                    elif log_abort:
                        self.count('oracle:call-not-judged(log listener raised SystemExit/KeyboardInterrupt)')
                        continue
                fails.append((sig, '%s(): %s' % (KIND[k[0]] + ('' if k[0] != 5 else ' ' + CHN[k[1]]), what)))
        return fails

    @staticmethod
    def _phase(trace, X, S):
        """depth-1 calls on channel X with how they ended; clause A of the property"""
        calls = []
        ends = {}
        for e in trace:
            if e[0] == 'e' and e[1] == 1 and e[2] == X:
                ends.setdefault(e[3], []).append(e[4:])
        seen = {}
        for e in trace:
            if e[0] == 'c' and e[1] == 1 and e[2] == X:
                n = seen.get(e[3], 0)
                seen[e[3]] = n + 1
                hw = ends.get(e[3], [])
                calls.append((e[3], e[4], hw[n] if n < len(hw) else [5]))
        return calls

    def _judge(self, k, kind, payload, st1, ex1, pc):
        trace, st0 = pc['trace'], pc['state0']
        pre = {int(a): b for a, b in pc['pre'].items()}
        if kind == 9 or kind == 8:
            yield ('unexpected-exception', 'escaped: %r' % (payload,))
            return
        if kind == 5 or k[0] in (6, 7):
            return
        # position in the trace where the first depth-1 call on a channel happens
        def dirty(X):
            for e in trace:
                if e[0] == 'c' and e[1] == 1 and e[2] == X:
                    return False
                if e[0] in ('s', 'u') and e[1] == X:
                    return True
            return False

        def clauseA(X):
            """returns (failed ids, aborter or None, verdicts)"""
            S = dict((i, p) for i, p in pre.get(X, []))
            calls = self._phase(trace, X, S)
            ids = [i for i, _, _ in calls]
            out = []
            abort = next(((i, hw) for i, _, hw in calls if hw[0] in (2, 3, 5)), None)
            if dirty(X):
                self.count('oracle:publish-clause-skipped(subscriptions changed before the publish)')
                return [i for i, _, hw in calls if hw[0] == 1], abort, out, ids
            if len(set(ids)) != len(ids):
                out.append(('listener-called-twice', '%s listeners called %r' % (CHN[X], ids)))
            if not set(ids) <= set(S):
                out.append(('unsubscribed-listener-called', '%s listeners called %r, subscribed %r'
                            % (CHN[X], ids, sorted(S))))
            pr = [S.get(i, 0) for i in ids]
            if any(a > b for a, b in zip(pr, pr[1:])):
                out.append(('priority-order', '%s listeners ran with priorities %r' % (CHN[X], pr)))
            if abort is None:
                if set(ids) != set(S):
                    out.append(('listener-skipped', '%s: subscribed %r, called %r although none raised '
                                'SystemExit/KeyboardInterrupt' % (CHN[X], sorted(S), ids)))
            else:
                ap = S.get(abort[0], 0)
                missing = [i for i, p in S.items() if p < ap and i not in ids]
                if missing or ids[-1] != abort[0]:
                    out.append(('listener-skipped', '%s: listeners %r of lower priority than the one raising '
                                'SystemExit/KeyboardInterrupt were not called' % (CHN[X], missing)))
            return [i for i, _, hw in calls if hw[0] == 1], abort, out, ids

        def abort_result(abort, failed_before):
            """the escaping SystemExit/KeyboardInterrupt"""
            hw = abort[1]
            if hw[0] == 5:
                return
            if hw[0] == 3:
                if kind != 3:
                    yield ('keyboardinterrupt-lost', 'a listener raised KeyboardInterrupt, call ended %r' % ((kind, payload),))
            else:
                code = hw[1]
                want = 1 if (code == 0 and failed_before) else code
                if kind != 2 or payload != [want]:
                    yield ('systemexit-code', 'listener raised SystemExit(%r) after %d failures, call ended %r'
                           % (code, len(failed_before), (kind, payload)))

        def states_seen(X, want):
            for e in trace:
                if e[0] == 'c' and e[1] == 1 and e[2] == X and e[4] != want:
                    yield ('state-seen', '%s listener %d saw the bus in %s, not %s'
                           % (CHN[X], e[3], STN[e[4]] if 0 <= e[4] < 5 else e[4], STN[want]))

        api = k[0]
        if api == 5 or api == 2:
            X = k[1] if api == 5 else GRACEFUL
            failed, abort, out, ids = clauseA(X)
            for o in out:
                yield o
            if abort is not None:
                fb = [i for i in failed if ids.index(i) < ids.index(abort[0])] if abort[0] in ids else failed
                for o in abort_result(abort, fb):
                    yield o
            elif failed:
                if kind != 1 or payload != failed:
                    yield ('failures-not-reported', 'listeners %r raised, call ended %r' % (failed, (kind, payload)))
            else:
                if kind != 0 or (api == 5 and payload != ids):
                    yield ('publish-result', 'no listener raised; call ended %r, listeners ran %r' % ((kind, payload), ids))
            if api == 2 and st1 != st0:
                yield ('graceful-changed-state', '%s -> %s' % (STN[st0], STN[st1]))
            return

        def stop_phase():
            """returns 'clean' | 'failed' | 'aborted'"""
            failed, abort, out, ids = clauseA(STOP)
            return failed, abort, out, ids

        if api == 1:
            for o in states_seen(STOP, S_STOPPING):
                yield o
            failed, abort, out, ids = clauseA(STOP)
            for o in out:
                yield o
            if abort is not None:
                fb = [i for i in failed if ids.index(i) < ids.index(abort[0])]
                for o in abort_result(abort, fb):
                    yield o
            elif failed:
                if kind != 1 or payload != failed:
                    yield ('failures-not-reported', 'stop listeners %r raised, call ended %r' % (failed, (kind, payload)))
                if st1 not in (S_STARTED, S_STOPPED, S_EXITING):
                    yield ('stop-failure-leaves-STOPPING',
                           'stop listeners %r raised Exception; stop() raised ChannelFailures and left the bus in %s '
                           '(the bus must end in STARTED, STOPPED or EXITING)' % (failed, STN[st1]))
            else:
                if kind != 0:
                    yield ('stop-result', 'no stop listener raised; call ended %r' % ((kind, payload),))
                elif st1 != S_STOPPED:
                    yield ('lifecycle-state', 'clean stop() ended in %s' % STN[st1])
            return

        def exit_part(entered_in):
            """the stop + exit phases of exit(); yields verdicts; used by exit, restart and the failure path of start"""
            for o in states_seen(STOP, S_STOPPING):
                yield o
            for o in states_seen(EXIT, S_EXITING):
                yield o
            failed, abort, out, ids = clauseA(STOP)
            for o in out:
                yield o
            # all stop listeners before all exit listeners
            pos_stop = [n for n, e in enumerate(trace) if e[0] == 'c' and e[1] == 1 and e[2] == STOP]
            pos_exit = [n for n, e in enumerate(trace) if e[0] == 'c' and e[1] == 1 and e[2] == EXIT]
            if pos_stop and pos_exit and max(pos_stop) > min(pos_exit):
                yield ('exit-before-stop', 'an exit listener ran before the last stop listener')
            if abort is not None:
                fb = [i for i in failed if ids.index(i) < ids.index(abort[0])]
                for o in abort_result(abort, fb):
                    yield o
                return
            if failed:
                if kind != 4 or payload == [0]:
                    yield ('exit-failure-not-fatal', 'stop listeners %r raised during exit; call ended %r instead of '
                           'os._exit(non-zero)' % (failed, (kind, payload)))
                return
            failed, abort, out, ids = clauseA(EXIT)
            for o in out:
                yield o
            if abort is not None:
                fb = [i for i in failed if ids.index(i) < ids.index(abort[0])]
                for o in abort_result(abort, fb):
                    yield o
                return
            if failed or entered_in == S_STARTING:
                if kind != 4 or payload == [0]:
                    yield ('exit-failure-not-fatal', 'exit listeners %r raised / exit entered in %s; call ended %r '
                           'instead of os._exit(non-zero)' % (failed, STN[entered_in], (kind, payload)))
                return
            yield None

        if api in (3, 4):
            clean = False
            for o in exit_part(st0):
                if o is None:
                    clean = True
                else:
                    yield o
            if clean:
                if kind != 0:
                    yield ('exit-result', 'no listener raised; call ended %r' % ((kind, payload),))
                elif st1 != S_EXITING:
                    yield ('lifecycle-state', 'clean %s() ended in %s' % (KIND[api], STN[st1]))
            if api == 3 and not ex1:
                yield ('restart-execv', 'restart() did not set execv')
            return

        if api == 0:
            for o in states_seen(START, S_STARTING):
                yield o
            failed, abort, out, ids = clauseA(START)
            for o in out:
                yield o
            if abort is not None:
                fb = [i for i in failed if ids.index(i) < ids.index(abort[0])]
                for o in abort_result(abort, fb):
                    yield o
                return
            if not failed:
                if kind != 0:
                    yield ('start-result', 'no start listener raised; call ended %r' % ((kind, payload),))
                elif st1 != S_STARTED:
                    yield ('lifecycle-state', 'clean start() ended in %s' % STN[st1])
                return
            # a failing start listener shuts the bus down
            if kind == 0 or st1 == S_STARTED:
                yield ('start-failure-half-started', 'start listeners %r raised; call ended %r in state %s'
                       % (failed, (kind, payload), STN[st1]))
            clean = False
            for o in exit_part(S_STARTING):
                if o is None:
                    clean = True
                else:
                    yield o

    RESK = {0: 'returned', 1: 'ChannelFailures', 2: 'SystemExit', 3: 'KeyboardInterrupt', 4: 'os._exit',
            5: 'nesting-bound', 8: 'unexpected-value', 9: 'unexpected-exception'}

    def nontrivial(self, c, obs):
        for r in obs['results']:
            self.count('result:' + self.RESK.get(r[0], str(r[0])))
        self.count('listener-invocations', len(obs['journal']))
        if any(e[0] > 1 for e in obs['journal']):
            self.count('cases-with-nested-publish')
        if not obs['journal']:
            return None
        n = len(obs['journal'])
        return (tuple(tuple(k[:2]) if k[0] == 5 else k[0] for k in c['calls']),
                tuple(r[0] for r in obs['results']), n if n < 8 else 8 + n // 8)

    # ------------------------------------------------------------------ shrinking
    def shrink(self, c, still_fails):
        c = dict(c)
        c['calls'] = core.shrink_list(c['calls'], lambda x: bool(x) and still_fails(dict(c, calls=x)))
        c['subs'] = core.shrink_list(c['subs'], lambda x: still_fails(dict(c, subs=x)))
        behs = [list(b) for b in c['behs']]
        for i in range(len(behs)):
            for cand in ([[], behs[i][1]], [behs[i][0], [0]], [[], [0]]):
                if cand != behs[i]:
                    nb = behs[:i] + [cand] + behs[i + 1:]
                    try:
                        if still_fails(dict(c, behs=nb)):
                            behs = nb
                    except Exception:
                        pass
        c['behs'] = behs
        ident = list(range(NL))
        if c['rank'] != ident:
            try:
                if still_fails(dict(c, rank=ident)):
                    c['rank'] = ident
            except Exception:
                pass
        return c


# ---------------------------------------------------------------------- G translator
API = {'start': 0, 'stop': 1, 'exit': 2, 'restart': 3, 'graceful': 4}
EXC = {'KeyboardInterrupt': 0, 'SystemExit': 1, 'Exception': 2}


class Untranslatable(Exception):
    pass


def _is_self_attr(n, name=None):
    return (isinstance(n, ast.Attribute) and isinstance(n.value, ast.Name) and n.value.id == 'self'
            and (name is None or n.attr == name))


def _callfree_assign(node):
    """a local bound to an expression without any call (string formatting of locals, constants, attributes):
    irrelevant to the listener protocol"""
    return isinstance(node, ast.Assign) and all(isinstance(t, ast.Name) for t in node.targets) and \
        not any(isinstance(x, (ast.Call, ast.Await, ast.Yield, ast.YieldFrom)) for x in ast.walk(node.value))


def translate(src):
    """-> (lifecycle table, handler table, publish table) in the vocabulary of M_bus.lifecycle_skel /
    handler_skel / publish_skel; raises on anything it does not understand (fail closed)."""
    tree = ast.parse(src)
    bus = next(n for n in tree.body if isinstance(n, ast.ClassDef) and n.name == 'Bus')
    fns = {n.name: n for n in bus.body if isinstance(n, ast.FunctionDef)}
    consts = {}
    inlining = []

    def state_of(v):
        if isinstance(v, ast.Attribute) and isinstance(v.value, ast.Name) and v.value.id == 'states' and v.attr in STN:
            return STN.index(v.attr)
        raise Untranslatable('state expression %s' % ast.dump(v))

    def const_int(v):
        if isinstance(v, ast.Constant) and isinstance(v.value, int):
            return v.value
        if isinstance(v, ast.Name) and v.id in consts:
            return consts[v.id]
        raise Untranslatable('int expression %s' % ast.dump(v))

    def step(st, in_handler=False):
        """one statement -> list of steps"""
        if isinstance(st, ast.Expr) and isinstance(st.value, ast.Constant) and isinstance(st.value.value, str):
            return []                                              # docstring / comment string
        if isinstance(st, ast.Assign) and len(st.targets) == 1:
            t = st.targets[0]
            if _is_self_attr(t, 'state'):
                return [[0, state_of(st.value)]]
            if _is_self_attr(t, 'execv'):
                if isinstance(st.value, ast.Constant) and st.value.value is True:
                    return [[4]]
                raise Untranslatable('execv := %s' % ast.dump(st.value))
            if isinstance(t, ast.Name):
                if isinstance(st.value, ast.Constant) and isinstance(st.value.value, int):
                    consts[t.id] = st.value.value
                    return []
                if _is_self_attr(st.value, 'state') and t.id == 'exitstate':
                    return []
                if in_handler and isinstance(st.value, ast.Subscript):   # e_info = sys.exc_info()[1]
                    return []
            raise Untranslatable('assignment %s' % ast.dump(st))
        if isinstance(st, ast.Expr) and isinstance(st.value, ast.Call):
            f = st.value.func
            if _is_self_attr(f, 'log'):
                return [[1]]
            if _is_self_attr(f, 'publish'):
                a = st.value.args
                if len(a) == 1 and isinstance(a[0], ast.Constant) and a[0].value in CHN:
                    return [[2, CHN.index(a[0].value)]]
                raise Untranslatable('publish args')
            if _is_self_attr(f) and f.attr in API and not st.value.args:
                return [[3, API[f.attr]]]
            if (_is_self_attr(f) and f.attr in fns and f.attr.startswith('_') and not f.attr.startswith('__')
                    and not st.value.args and not st.value.keywords and f.attr not in inlining
                    and not any(isinstance(x, (ast.Return, ast.Yield, ast.YieldFrom)) for x in ast.walk(fns[f.attr]))):
                # a private helper method without return, called as a statement: its statements, in place
                inlining.append(f.attr)
                try:
                    return [s for x in fns[f.attr].body for s in step(x, in_handler)]
                finally:
                    inlining.pop()
            if isinstance(f, ast.Attribute) and isinstance(f.value, ast.Name):
                if f.value.id == 'atexit' and f.attr == 'register':
                    return []
                if f.value.id == 'os' and f.attr == '_exit':
                    return [[5, const_int(st.value.args[0])]]
            raise Untranslatable('call %s' % ast.dump(f))
        if isinstance(st, ast.Raise):
            return [[6]]
        if isinstance(st, ast.Pass):
            return []
        if isinstance(st, ast.Try) and in_handler:
            # try: self.<api>()  except Exception: pass
            body = [s for x in st.body for s in step(x, True)]
            if (len(body) == 1 and body[0][0] == 3 and len(st.handlers) == 1 and not st.finalbody and not st.orelse
                    and classes(st.handlers[0]) == [2]
                    and [s for x in st.handlers[0].body for s in step(x, True)] == []):
                return [[8, body[0][1]]]
            raise Untranslatable('nested try')
        raise Untranslatable('statement %s' % type(st).__name__)

    def classes(h):
        t = h.type
        names = [t] if isinstance(t, ast.Name) else list(t.elts) if isinstance(t, ast.Tuple) else None
        if names is None or not all(isinstance(n, ast.Name) and n.id in EXC for n in names):
            raise Untranslatable('except clause')
        return [EXC[n.id] for n in names]

    life, hand = [], []
    for name, k in sorted(API.items(), key=lambda x: x[1]):
        fn = fns[name]
        steps, handlers = [], []
        for st in fn.body:
            if isinstance(st, ast.Try):
                if st.finalbody and not st.handlers:
                    # try: body finally: fin  -- on the failure-free path: body then fin
                    for x in st.body + st.finalbody:
                        steps += step(x)
                    handlers.append(([3], [s for x in st.finalbody for s in step(x)]))
                    continue
                if st.finalbody or st.orelse:
                    raise Untranslatable('try shape in %s' % name)
                for x in st.body:
                    steps += step(x)
                for h in st.handlers:
                    handlers.append((classes(h), [s for x in h.body for s in step(x, True)]))
            elif isinstance(st, ast.If):
                # if exitstate == states.STARTING: os._exit(..)
                t = st.test
                if (name == 'exit' and isinstance(t, ast.Compare) and isinstance(t.left, ast.Name)
                        and t.left.id == 'exitstate' and len(t.ops) == 1 and isinstance(t.ops[0], ast.Eq)
                        and not st.orelse):
                    handlers.append(([9, state_of(t.comparators[0])], [s for x in st.body for s in step(x)]))
                else:
                    raise Untranslatable('if in %s' % name)
            else:
                steps += step(st)
        life.append((k, steps))
        hand.append((k, handlers))

    # publish
    pub = []
    fn = fns['publish']
    loop = next((s for s in fn.body if isinstance(s, ast.For)), None)
    srt = None
    for s in ast.walk(fn):
        if isinstance(s, ast.Call) and isinstance(s.func, ast.Name) and s.func.id == 'sorted':
            srt = s
    if loop is None or srt is None:
        raise Untranslatable('publish: no loop / no sorted()')
    key = next((kw.value for kw in srt.keywords if kw.arg == 'key'), None)
    if not (isinstance(key, ast.Call) and isinstance(key.func, ast.Attribute) and key.func.attr == 'itemgetter'
            and len(key.args) == 1 and isinstance(key.args[0], ast.Constant)) or any(
            kw.arg == 'reverse' for kw in srt.keywords):
        raise Untranslatable('publish: sort key')
    # the first component of the sorted tuples must be the priority
    gen = next((s for s in ast.walk(fn) if isinstance(s, (ast.GeneratorExp, ast.ListComp))
                and isinstance(s.elt, ast.Tuple)), None)
    if gen is None or not (isinstance(gen.elt.elts[key.args[0].value], ast.Subscript)
                           and _is_self_attr(gen.elt.elts[key.args[0].value].value, '_priorities')):
        raise Untranslatable('publish: sorted items are not (priority, listener)')
    pub.append(([-1], [[0]]))
    if len(loop.body) != 1 or not isinstance(loop.body[0], ast.Try):
        raise Untranslatable('publish: loop body')
    tr = loop.body[0]
    if tr.finalbody or tr.orelse or len(tr.body) != 1:
        raise Untranslatable('publish: try shape')
    for h in tr.handlers:
        cl = classes(h)
        steps = []
        for x in h.body:
            if isinstance(x, ast.Raise):
                steps.append([6])
            elif isinstance(x, ast.Assign):
                continue
            elif isinstance(x, ast.If) and cl == [1]:
                # if exc and e.code == 0: e.code = 1
                ok = (isinstance(x.test, ast.BoolOp) and isinstance(x.test.op, ast.And) and len(x.body) == 1
                      and isinstance(x.body[0], ast.Assign) and isinstance(x.body[0].value, ast.Constant)
                      and x.body[0].value.value == 1)
                if not ok:
                    raise Untranslatable('publish: SystemExit fix-up')
                steps.append([7])
            elif isinstance(x, ast.Expr) and isinstance(x.value, ast.Call) and isinstance(x.value.func, ast.Attribute) \
                    and x.value.func.attr == 'handle_exception':
                continue
            elif isinstance(x, ast.If) and cl == [2]:
                # if channel == 'log': pass else: self.log(..)
                t = x.test
                ok = (isinstance(t, ast.Compare) and isinstance(t.left, ast.Name) and t.left.id == 'channel'
                      and isinstance(t.ops[0], ast.Eq) and isinstance(t.comparators[0], ast.Constant)
                      and t.comparators[0].value in CHN and all(isinstance(b, ast.Pass) for b in x.body)
                      and [step(b) for b in x.orelse if not _callfree_assign(b)] == [[[1]]])
                if not ok:
                    raise Untranslatable('publish: log special case')
                steps.append([10, CHN.index(t.comparators[0].value)])
            else:
                raise Untranslatable('publish handler statement %s' % type(x).__name__)
        pub.append((cl, steps))
    # after the loop: if exc: raise exc ; return output
    after = fn.body[fn.body.index(loop) + 1:]
    if not (len(after) == 2 and isinstance(after[0], ast.If) and isinstance(after[0].body[0], ast.Raise)
            and isinstance(after[1], ast.Return)):
        raise Untranslatable('publish: tail')
    return life, hand, pub


CHECK = C18
