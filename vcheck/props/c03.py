"""C03 - query-string and form parameters reach the handler exactly as sent."""
import itertools
import random
import re
import urllib.parse

from .. import core, sx

CHARSET_ID = {'utf-8': 0, 'utf8': 0, 'UTF-8': 0, 'latin-1': 1, 'ISO-8859-1': 1, 'iso-8859-1': 1,
              'utf-16': 2, 'UTF-16': 2, 'us-ascii': 3}
RESERVED = b'%&;=+'
UNRESERVED = set(b'ABCDEFGHIJKLMNOPQRSTUVWXYZabcdefghijklmnopqrstuvwxyz0123456789-._~')
IMAP = re.compile(r'[0-9]+,[0-9]+')
REPAIRED = [1, 1]          # model variant the correspondence is checked against: fullmatch, flat merge

# sender charsets: name -> encoder of one component (text -> bytes)
SENDERS = {
    'utf-8': lambda s: s.encode('utf-8'),
    'latin-1': lambda s: s.encode('latin-1'),
    'utf-16': lambda s: s.encode('utf-16'),                       # BOM + little endian
    'utf-16-be-bom': lambda s: b'\xfe\xff' + s.encode('utf-16-be'),
    'utf-16-le-nobom': lambda s: s.encode('utf-16-le'),
}

ALPHA_ASCII = 'abcxyzXY019_-.~'
ALPHA_RESERVED = '&;=+% ,/?#:@!$\'()*[]"<>\\^`{|}'
ALPHA_CTRL = '\x00\t\n\r\x0b\x0c\x1f\x7f'
ALPHA_LATIN = '\x80\x85\xa0\xe9\xff\xc3\xa9'
ALPHA_BMP = '\u0100\u20ac\u4e2d\u0663\u2028\ufeff\ufffe\uffff\ud7ff\ue000'
ALPHA_ASTRAL = '\U00010000\U0001f600\U0010ffff\U000e0041'
FRAGMENTS = ['%41', '%zz', '%', '%%', '+', '++', ' ', '1,2', '12,34', '1,2x', ',', '1', '23', 'x', 'y', '&amp;', 'a=b',
             '%2', '%u00e9', '0x41', '-1']


def quote_bytes(bs, st, ao, rng=None, hi_ok=False):
    """the sender's percent-encoder; mirrors Model.M_params.quote (plus per-byte random choices for safe='rand')"""
    out = bytearray()
    for c in bs:
        if c == 32 and st['plus']:
            out.append(43)
            continue
        safe = st['safe']
        if safe == 'min':
            lit = True
        elif safe == 'unres':
            lit = c in UNRESERVED
        elif safe == 'none':
            lit = False
        else:
            lit = rng.random() < .5
        forced = c in RESERVED or (ao and ((c >= 128 and not hi_ok) or c <= 32 or c == 127 or c == 35))
        if lit and not forced:
            out.append(c)
        else:
            u1, u2 = st['up1'], st['up2']
            if safe == 'rand':
                u1, u2 = rng.random() < .5, rng.random() < .5
            h1 = '0123456789ABCDEF'[c >> 4] if u1 else '0123456789abcdef'[c >> 4]
            h2 = '0123456789ABCDEF'[c & 15] if u2 else '0123456789abcdef'[c & 15]
            out += b'%' + h1.encode() + h2.encode()
    return bytes(out)


def encode_pairs(raw_pairs, st, seps, ao, seed, hi_ok=False):
    """raw_pairs: [(key bytes, value bytes)]; seps: list of separator bytes (cycled)"""
    rng = random.Random(seed)
    parts = []
    for kb, vb in raw_pairs:
        if st['bare'] and not vb and kb:
            parts.append(quote_bytes(kb, st, ao, rng, hi_ok))
        else:
            parts.append(quote_bytes(kb, st, ao, rng, hi_ok) + b'=' + quote_bytes(vb, st, ao, rng, hi_ok))
    out = b''
    for i, p in enumerate(parts):
        if i:
            out += seps[(i - 1) % len(seps)].encode()
        out += p
    return out


def pct_hi(bs):
    """the same octets with every byte >= 0x80 written %XX (urllib wants an ASCII wire)"""
    return b''.join(b'%%%02X' % c if c >= 128 else bytes([c]) for c in bs)


def to_dict(pairs):
    """what the handler must receive for a multimap given in wire order"""
    d = {}
    for k, v in pairs:
        d.setdefault(k, []).append(v)
    return {k: (vs[0] if len(vs) == 1 else vs) for k, vs in d.items()}


def norm_val(v):
    if isinstance(v, str):
        return [0, [ord(c) for c in v]]
    if isinstance(v, bool):
        return [9, repr(v)]
    if isinstance(v, int):
        return [1, v]
    if isinstance(v, list):
        return [2, [norm_val(x) for x in v]]
    return [9, repr(v)]


def norm_dict(d):
    return [[[ord(c) for c in k], norm_val(v)] for k, v in d.items()]


def has_nested(d):
    return any(isinstance(v, list) and any(isinstance(x, list) for x in v) for v in d.values())


class C03(core.Check):
    pid = 'C03'
    props_files = ('Props/C03.v',)
    refuted_files = ('Refuted/R_C03.v',)
    model_fn = ('run_C03', 'Model.M_params')
    rule = ('round trips of generated multimaps (keys/values over ASCII, reserved characters, controls, Latin-1, BMP, '
            'astral; empty keys/values; repeated keys) encoded by the generator in every style (literal set minimal / '
            'unreserved-only / none / per-byte random, hex case per digit, "+" or %20, bare blank values), separator & or ; '
            'or mixed, split between query string and urlencoded body, body charset utf-8 / latin-1 / utf-16 (3 forms), '
            'declared honestly, not declared, or declared wrongly, with and without a configured '
            'request.body.attempt_charsets; sent through the WSGI driver to a **kwargs handler.  Plus direct calls of '
            '_cpreqbody.unquote_plus (malformed escapes) and httputil.parse_query_string (image-map look-alikes, '
            'non-ASCII text).  A case is non-trivial when at least one parameter was sent and the handler was reached '
            'or the request was refused with 400/404; distinct by (kind, #query pairs>0, #body pairs>0, key shared '
            'between query and body, repeated key, styles, sender/declared/override class, outcome).')
    assumptions = (
        'CPython codecs utf-8 / latin-1 / utf-16 / us-ascii are modelled (strict decoders written in Gallina and compared '
        'on every case); in the theorems a codec is any pair enc/dec with dec (enc s) = Some s',
        'int() of image-map coordinates is modelled for ASCII text only (a query N,M with more than 4300 digits in N or M '
        'is answered 500 by CPython\'s int-string limit; modelled, not demanded by the oracle)',
        'unknown charset names (LookupError -> 500) are outside the quantifier of C03 and are not generated',
        'a configured request.body.attempt_charsets replaces the whole list, including the charset the request declares '
        '(Request.namespaces runs after Entity.__init__); the oracle takes that list as "the configured fallbacks"',
    )

    # ------------------------------------------------------------------ generation
    def gen_text(self, rng, latin_only=False, maxlen=6):
        r = rng.random()
        if r < .08:
            return ''
        if r < .16:
            return rng.choice(FRAGMENTS)
        n = rng.choice([1, 1, 2, 2, 3, 4, maxlen]) if rng.random() < .97 else rng.choice([50, 300])
        pools = [ALPHA_ASCII, ALPHA_ASCII, ALPHA_RESERVED, ALPHA_RESERVED, ALPHA_LATIN, ALPHA_CTRL]
        if not latin_only:
            pools += [ALPHA_BMP, ALPHA_ASTRAL, ALPHA_ASTRAL]
        mode = rng.random()
        if mode < .25:
            pools = [ALPHA_ASCII]
        elif mode < .4:
            pools = [ALPHA_RESERVED, '0123456789,']
        out = []
        for _ in range(n):
            if rng.random() < .03 and not latin_only:
                cp = rng.randrange(0x110000)
                if 0xD800 <= cp <= 0xDFFF:
                    cp = 0xE000
                out.append(chr(cp))
            else:
                out.append(rng.choice(rng.choice(pools)))
        return ''.join(out)

    def gen_style(self, rng):
        return {'safe': rng.choice(['min', 'min', 'unres', 'none', 'rand']), 'up1': rng.random() < .5,
                'up2': rng.random() < .5, 'plus': rng.random() < .5, 'bare': rng.random() < .25}

    def gen_req(self, rng):
        sender = rng.choice(['utf-8', 'utf-8', 'utf-8', 'latin-1', 'utf-16', 'utf-16', 'utf-16-be-bom', 'utf-16-le-nobom'])
        has_body = rng.random() < .7
        latin = has_body and sender == 'latin-1'
        nkeys = rng.choice([1, 2, 3])
        keys = [self.gen_text(rng, latin) for _ in range(nkeys)]
        n = rng.choice([0, 1, 1, 2, 2, 3, 4, 6])
        pairs = [[rng.choice(keys) if rng.random() < .8 else self.gen_text(rng, latin), self.gen_text(rng, latin)]
                 for _ in range(n)]
        if has_body:
            cut = rng.choice([0, n, rng.randrange(n + 1), rng.randrange(n + 1)])
            q, b = pairs[:cut], pairs[cut:]
            if rng.random() < .15:
                q = None
        else:
            q, b = pairs, None
        declared = None
        override = None
        if has_body:
            base = {'utf-8': 'utf-8', 'latin-1': 'latin-1'}.get(sender, 'utf-16')
            honest = {'utf-8': ['utf-8', 'UTF-8', 'utf8'], 'latin-1': ['latin-1', 'ISO-8859-1', 'iso-8859-1'],
                      'utf-16': ['utf-16', 'UTF-16']}[base]
            r = rng.random()
            if r < .5:
                declared = rng.choice(honest)
            elif r < .7:
                declared = None
            else:
                declared = rng.choice([x for x in ['utf-8', 'latin-1', 'utf-16', 'us-ascii', 'ISO-8859-1', 'UTF-8']
                                       if x not in honest])
            if rng.random() < .25:
                override = rng.choice([['utf-8', 'latin-1'], ['utf-16', 'utf-8'], ['us-ascii', 'utf-8', 'latin-1'],
                                       ['latin-1'], ['utf-16'], ['utf-8']])
        sepmode = rng.choice(['&', '&', ';', 'mixed'])
        return {'kind': 'req', 'q': q, 'b': b, 'sender': sender, 'declared': declared, 'override': override,
                'stq': self.gen_style(rng), 'stb': self.gen_style(rng),
                'sepq': ['&', ';'] if sepmode == 'mixed' else [sepmode],
                'sepb': rng.choice([['&'], [';'], ['&', ';'], [';', '&']]) if sepmode == 'mixed' else [sepmode],
                'seed': rng.randrange(1 << 30), 'qenc': 'utf-8' if rng.random() < .93 else 'latin-1'}

    HANDMADE_QS = [
        # (raw query bytes, expected pairs or None when the property text does not decide, image map?)
        (b'1,2', None, True), (b'0,0', None, True), (b'007,0010', None, True), (b'123456789012345678,5', None, True),
        (b'1,2x', [['1,2x', '']], False), (b'12,34x=1', [['12,34x', '1']], False),
        (b'1,2&a=b', [['1,2', ''], ['a', 'b']], False), (b'1,2,3', [['1,2,3', '']], False),
        (b'1,2=', [['1,2', '']], False), (b'1,2;', [['1,2', '']], False), (b'1,2%20', [['1,2 ', '']], False),
        (b'1,2+', [['1,2 ', '']], False), (b'1,2_3', [['1,2_3', '']], False), (b'1,2,', [['1,2,', '']], False),
        (b'1,2%0a', [['1,2\n', '']], False), (b'11,22&11,22', [['11,22', ''], ['11,22', '']], False),
        (b'x1,2', [['x1,2', '']], False), (b',2', [[',2', '']], False), (b'1,', [['1,', '']], False),
        (b'1%2C2', [['1,2', '']], False), (b'1,2=3,4', [['1,2', '3,4']], False),
        (b'a=b=c&&;=&=x&y', [['a', 'b=c'], ['', ''], ['', 'x'], ['y', '']], False),
        (b'', [], False), (b'&', [], False), (b';;&&', [], False), (b'=', [['', '']], False),
        (b'a=%zz&b=%a&c=%', None, False), (b'a=%C3%A9&a=%c3%a9&a=%E2%82%AC', [['a', '\xe9'], ['a', '\xe9'], ['a', '\u20ac']], False),
        (b'a=%ff', 'undecodable', False), (b'%ff=1', 'undecodable', False), (b'a=1&b=%c3', 'undecodable', False),
        (b'a=%ed%a0%80', 'undecodable', False), (b'a=%c0%80', 'undecodable', False), (b'a=%f4%90%80%80', 'undecodable', False),
        (b'a=\xc3\xa9', None, False), (b'a=\xe9', None, False), (b'a=\xc3\xa9%C3%A9', None, False), (b'a=\xe9%ff', None, False),
        (b'\xc3\xa9=1&\xc3\xa9=2', None, False),
    ]

    def handmade(self):
        # a key present in the query and repeated in the body; and every small split of a=1..4
        for nq in range(0, 4):
            for nb in range(0, 4):
                yield {'kind': 'req', 'q': [['a', str(i)] for i in range(nq)],
                       'b': [['a', str(nq + i)] for i in range(nb)],
                       'sender': 'utf-8', 'declared': None, 'override': None,
                       'stq': dict(safe='unres', up1=True, up2=True, plus=True, bare=False),
                       'stb': dict(safe='unres', up1=True, up2=True, plus=True, bare=False),
                       'sepq': ['&'], 'sepb': ['&'], 'seed': 0, 'qenc': 'utf-8'}
        for raw, exp, im in self.HANDMADE_QS:
            yield {'kind': 'rawq', 'qs': raw, 'expect': exp, 'imap': im, 'b': None}
            if exp != 'undecodable':
                yield {'kind': 'rawq', 'qs': raw, 'expect': exp, 'imap': im, 'b': [['a', 'z'], ['x', 'w'], ['a', 'zz']]}

    RAW_ATOMS = [b'a', b'b', b'a', b'1', b'=', b'=', b'&', b'&', b';', b'+', b'%41', b'%3D', b'%26', b'%c3%a9', b'%C3%A9',
                 b'%ff', b'%', b'%4', b'%zz', b'%2b', b',', b'2', b'%20', b'%00', b'\xc3\xa9', b'\xe9']

    def gen_raw(self, rng):
        """raw query and/or body not produced by a printer: raw '=', empty pairs, bare keys, malformed escapes"""
        def blob():
            return b''.join(rng.choice(self.RAW_ATOMS) for _ in range(rng.choice([0, 1, 2, 3, 5, 8, 12])))
        qs = blob() if rng.random() < .7 else None
        body = blob() if (qs is None or rng.random() < .6) else None
        if qs is None:
            qs = b''
        return {'kind': 'rawq', 'qs': qs, 'expect': 'urllib', 'imap': False, 'b': None, 'rawbody': body,
                'declared': rng.choice([None, None, 'utf-8', 'latin-1', 'us-ascii']) if body is not None else None}

    def gen_unq(self, rng):
        if rng.random() < .5:
            n = rng.choice([0, 1, 2, 3, 5, 9])
            bs = bytes(rng.choice(b'%%%%++ 0123456789abcdefABCDEFgGxX-_\t\n\x0b\x0c\r\x00\xff\x80&=;')
                       for _ in range(n))
            return {'kind': 'unq', 'bs': bs, 'plain': None}
        plain = bytes(rng.randrange(256) if rng.random() < .5 else rng.choice(b'%+ &=;az09')
                      for _ in range(rng.choice([0, 1, 2, 3, 8, 40])))
        st = self.gen_style(rng)
        return {'kind': 'unq', 'bs': quote_bytes(plain, st, False, random.Random(rng.randrange(1 << 30))), 'plain': plain}

    def gen_pqs(self, rng):
        """direct call of parse_query_string on text (possibly non-ASCII)"""
        r = rng.random()
        if r < .4:
            a = ''.join(rng.choice('0123456789') for _ in range(rng.choice([0, 1, 1, 2, 5])))
            b = ''.join(rng.choice('0123456789') for _ in range(rng.choice([0, 1, 1, 2, 5])))
            tail = rng.choice(['', '', '', 'x', '=1', '&a=b', ',3', ' ', '\n', '_4', ';', '%20', '+', '\u0663', '=', ',', '.5'])
            head = rng.choice(['', '', '', '', ' ', 'x', '+', '-', '&', '\u0661'])
            s = head + a + ',' + b + tail
        else:
            s = ''.join(rng.choice(rng.choice(['ab1', '&;=', '%+', '%41%C3%A9%ff%zz', '\xe9\u20ac\U0001f600', ' ,']))
                        for _ in range(rng.choice([0, 1, 2, 4, 8, 16])))
        return {'kind': 'pqs', 's': s, 'enc': rng.choice(['utf-8', 'utf-8', 'latin-1', 'us-ascii'])}

    def exhaustive_unq(self):
        for a in range(256):
            yield {'kind': 'unq', 'bs': bytes([37, a]), 'plain': None}
            for b in range(256):
                yield {'kind': 'unq', 'bs': bytes([37, a, b, 37, 52, 49]), 'plain': None}

    def exhaustive_small(self):
        """all multimaps over keys {a, '&'} x values {'', '=', '1'} with <= 3 pairs, every split, 3 styles"""
        styles = [dict(safe='min', up1=False, up2=False, plus=False, bare=True),
                  dict(safe='none', up1=True, up2=False, plus=True, bare=False),
                  dict(safe='unres', up1=True, up2=True, plus=True, bare=False)]
        kv = [[k, v] for k in ('a', '&') for v in ('', '=', '1')]
        for n in range(0, 4):
            for pairs in itertools.product(kv, repeat=n):
                for cut in range(n + 1):
                    for si, st in enumerate(styles):
                        yield {'kind': 'req', 'q': [list(p) for p in pairs[:cut]], 'b': [list(p) for p in pairs[cut:]],
                               'sender': 'utf-8', 'declared': None, 'override': None, 'stq': st, 'stb': styles[(si + 1) % 3],
                               'sepq': ['&', ';'][si % 2:][:1], 'sepb': [';', '&'][si % 2:][:1], 'seed': si, 'qenc': 'utf-8'}

    def corpus(self):
        return [core.unjson(c) for c in super().corpus()]

    def cases(self):
        quick = self.tier == 'quick'
        rng = self.rng
        out = list(self.handmade())
        out += [self.gen_req(rng) for _ in range(3000 if quick else 120000)]
        out += [self.gen_raw(rng) for _ in range(1500 if quick else 40000)]
        out += [self.gen_unq(rng) for _ in range(1500 if quick else 30000)]
        out += [self.gen_pqs(rng) for _ in range(1500 if quick else 30000)]
        if quick:
            ex = list(self.exhaustive_unq())
            out += rng.sample(ex, 2000)
        else:
            out += list(self.exhaustive_unq())
            out += list(self.exhaustive_small())
        return out

    def search_cases(self, around=None):
        for c in around or []:
            yield c
        for _ in range(20000):
            yield self.gen_req(self.rng)

    # ------------------------------------------------------------------ wire form of a case
    def wire(self, c):
        """-> (query bytes or None, body bytes or None, raw body components)"""
        if c['kind'] == 'rawq':
            qs = c['qs']
            raw_b = None
            body = None
            if c.get('rawbody') is not None:
                return qs, c['rawbody'], None
            if c['b'] is not None:
                raw_b = [(k.encode(), v.encode()) for k, v in c['b']]
                body = encode_pairs(raw_b, dict(safe='unres', up1=True, up2=True, plus=True, bare=False), ['&'], False, 0)
            return qs, body, raw_b
        qs = None
        if c['q'] is not None:
            qe = c.get('qenc', 'utf-8')
            raw_q = [(k.encode(qe, 'replace') if qe == 'latin-1' else k.encode(qe),
                      v.encode(qe, 'replace') if qe == 'latin-1' else v.encode(qe)) for k, v in c['q']]
            # half of the senders with the minimal style leave every octet >= 0x80 of a UTF-8 query unescaped (the WSGI
            # server hands them over as Latin-1 code points and recode_path_qs restores them).  Not generated: a
            # multi-byte sequence partly escaped and partly raw, and raw octets that are not UTF-8 - recode_path_qs
            # then passes the Latin-1 reading through "and hopes"; the property text does not decide those.
            hi_ok = c['stq']['safe'] == 'min' and qe == 'utf-8' and c['seed'] % 2 == 0
            qs = encode_pairs(raw_q, c['stq'], c['sepq'], True, c['seed'], hi_ok=hi_ok)
        body = raw_b = None
        if c['b'] is not None:
            f = SENDERS[c['sender']]
            raw_b = [(f(k), f(v)) for k, v in c['b']]
            body = encode_pairs(raw_b, c['stb'], c['sepb'], False, c['seed'] + 1)
        return qs, body, raw_b

    def attempt_names(self, c):
        if c.get('override'):
            return list(c['override'])
        d = c.get('declared')
        if d:
            return [d] + [x for x in ['utf-8'] if x != d]
        return ['utf-8']

    # ------------------------------------------------------------------ model side
    def encode(self, c):
        k = c['kind']
        if k == 'unq':
            return [1, c['bs']]
        if k == 'pqs':
            return [2, REPAIRED, c['s'], CHARSET_ID[c['enc']]]
        qs, body, _ = self.wire(c)
        declared = c.get('declared')
        override = c.get('override')
        return [0, REPAIRED, list(qs or b''), 1 if body is not None else 0, list(body or b''),
                [] if not declared else [CHARSET_ID[declared]],
                [] if not override else [[CHARSET_ID[x] for x in override]]]

    # ------------------------------------------------------------------ implementation side
    def setup(self):
        self.apps = {}
        self.seen = []
        self.notes += [
            'kwargs are compared with the expected dict as a mapping (the property text does not order the keys); the '
            'model/implementation correspondence additionally compares the insertion order',
            'malformed escapes are outside the quantifier and only compared with the model: the body unquoter drops the '
            '"%" of an escape it cannot convert ("%zz" -> "zz", "%" -> "") and accepts what int(x, 16) accepts '
            '("%+1" -> 0x01, "%a" -> 0x0a, "%-0" -> 0x00), while the query-string unquoter (urllib) keeps them literally',
            'raw wire forms (raw "=", empty pairs, bare keys) are judged against urllib.parse.parse_qsl where it is '
            'authoritative (ASCII wire, "&" only, well-formed escapes)',
            'image-map coordinates are kept below 2^62 in generated cases (the OCaml driver prints native ints)',
            'both defects found by this check are repaired in /repo (1dd07ce image-map fullmatch, d30c7aa flat merge); '
            'Refuted/R_C03.v keeps the witnesses for the former behaviour',
        ]

    def app_for(self, override):
        from ..impl import wsgi
        import cherrypy
        key = tuple(override or ())
        if key not in self.apps:
            seen = self.seen

            class Root:
                @cherrypy.expose
                def index(self, /, **kwargs):
                    seen.append(kwargs)
                    return 'ok'
            conf = {'/': {}}
            if override:
                conf['/']['request.body.attempt_charsets'] = list(override)
            self.apps[key] = wsgi.make_app(Root(), conf)
        return self.apps[key]

    def impl(self, c):
        k = c['kind']
        if k == 'unq':
            from cherrypy import _cpreqbody
            return {'out': _cpreqbody.unquote_plus(c['bs'])}
        if k == 'pqs':
            from cherrypy.lib import httputil
            try:
                d = httputil.parse_query_string(c['s'], encoding=c['enc'])
                return {'tag': 0, 'dict': norm_dict(d), 'py': d}
            except UnicodeDecodeError:
                return {'tag': 1, 'dict': []}
            except ValueError as e:
                return {'tag': 2, 'dict': [], 'exc': repr(e)}
            except Exception as e:
                return {'tag': 8, 'dict': [], 'exc': repr(e)}
        from ..impl import wsgi
        qs, body, _ = self.wire(c)
        app = self.app_for(c.get('override'))
        # unrelated traffic in between (the parameters of a request do not depend on what the process served
        # before): bodies of other media types with and without a charset, a failing request
        self._between = getattr(self, '_between', 0) + 1
        if self._between % 7 == 3:
            hs, b = [(('Content-Type', 'text/plain'),), b'plain text \xe9'], None
            for ct, bb in (('text/plain', b'plain text \xe9'), ('text/html; charset=utf-16', b'\xff\xfea\x00'),
                           ('application/octet-stream', b'\x00\x01')):
                wsgi.call(app, 'POST', b'/', [('Content-Type', ct), ('Content-Length', str(len(bb)))], bb)
            wsgi.call(app, 'GET', b'/no/such/page')
            self.count('unrelated requests in between')
        del self.seen[:]
        target = b'/' if qs is None else b'/?' + qs
        if body is None:
            r = wsgi.call(app, 'GET', target)
        else:
            ct = 'application/x-www-form-urlencoded'
            if c.get('declared'):
                # parameter names are case-insensitive (RFC 7231 3.1.1.1); the spelling is a function of the case
                spell = ['charset', 'charset', 'Charset', 'CHARSET', 'charset'][(c.get('seed', 0) + len(body)) % 5]
                ct += ('; %s=' % spell if spell != 'CHARSET' else ' ;%s=' % spell) + c['declared']
            r = wsgi.call(app, 'POST', target, [('Content-Type', ct), ('Content-Length', str(len(body)))], body)
        calls = list(self.seen)
        kw = calls[0] if calls else None
        return {'status': r['status'], 'calls': len(calls), 'kwargs': kw,
                'dict': norm_dict(kw) if kw is not None else [], 'escaped': r['escaped'],
                'wire': [qs, body]}

    def compare(self, c, mo, obs):
        k = c['kind']
        if k == 'unq':
            return None if mo == list(obs['out']) else 'unquote_plus: model %r impl %r' % (bytes(mo), obs['out'])
        if k == 'pqs':
            if mo[0] == 9:
                self.count('unmodelled')
                return None
            if mo[0] != obs['tag']:
                return 'parse_query_string outcome: model %r impl %r' % (mo[0], obs['tag'])
            return None if mo[1] == obs['dict'] else 'parse_query_string dict differs'
        if mo[0] == 0:
            self.count('unmodelled')
            return None
        if mo[0] != obs['status']:
            return 'status: model %s impl %s' % (mo[0], obs['status'])
        if obs['status'] == 200 and obs['calls'] != 1:
            return 'handler called %d times' % obs['calls']
        if mo[1] != obs['dict']:
            return 'kwargs differ: model %r impl %r' % (mo[1], obs['dict'])
        return None

    # ------------------------------------------------------------------ property oracle
    def truth(self, c):
        """-> ('ok', ordered pairs) | ('imap', x, y, body pairs) | (404,) | (400,) | None (text does not decide)"""
        qs, body, raw_b = self.wire(c)
        qpairs = []
        imap = None
        if c['kind'] == 'rawq' and c['expect'] == 'urllib':
            return self.truth_urllib(c, qs, body)
        if c['kind'] == 'rawq':
            if c['expect'] == 'undecodable':
                return (404,)
            if c['imap']:
                a, b = qs.decode().split(',')
                imap = (int(a), int(b))
            elif c['expect'] is None:
                return None
            else:
                qpairs = [tuple(p) for p in c['expect']]
        elif c['q'] is not None:
            qe = c.get('qenc', 'utf-8')
            if qe != 'utf-8':
                # a sender that percent-encodes Latin-1 bytes: exact iff they happen to be UTF-8
                try:
                    qpairs = [(k.encode(qe, 'replace').decode('utf-8'), v.encode(qe, 'replace').decode('utf-8'))
                              for k, v in c['q']]
                except UnicodeDecodeError:
                    return (404,)
            else:
                qpairs = [tuple(p) for p in c['q']]
            m = IMAP.fullmatch(qs.decode('latin-1'))
            if m:
                a, b = qs.decode().split(',')
                imap = (int(a), int(b))
        bpairs = []
        if raw_b is not None:
            for name in self.attempt_names(c):
                try:
                    bpairs = [(k.decode(name), v.decode(name)) for k, v in raw_b]
                    break
                except UnicodeDecodeError:
                    continue
            else:
                return (400,)
        if imap:
            return ('imap', imap[0], imap[1], bpairs)
        return ('ok', qpairs + bpairs)

    WELLFORMED = re.compile(rb'(?:[^%;\x80-\xff]|%[0-9a-fA-F]{2})*')

    def truth_urllib(self, c, qs, body):
        """raw wire forms: urllib.parse is the reference where it is authoritative (ASCII wire, '&' only,
        every '%' followed by two hex digits); otherwise the property text does not decide"""
        if any(x >= 128 for x in qs):
            try:
                qs.decode('utf-8')
            except UnicodeDecodeError:
                return None  # raw octets that are not UTF-8: passed through as Latin-1 "and hope" (documented)
            qs = pct_hi(qs)  # an unescaped UTF-8 sequence of the query is those octets
        if not self.WELLFORMED.fullmatch(qs) or (body is not None and not self.WELLFORMED.fullmatch(body)):
            return None
        if IMAP.fullmatch(qs.decode('ascii')):
            return None
        try:
            pairs = urllib.parse.parse_qsl(qs.decode('ascii'), keep_blank_values=True, encoding='utf-8', errors='strict')
        except UnicodeDecodeError:
            return (404,)
        if body is not None:
            for name in self.attempt_names(c):
                try:
                    pairs += urllib.parse.parse_qsl(body.decode('ascii'), keep_blank_values=True, encoding=name,
                                                    errors='strict')
                    break
                except UnicodeDecodeError:
                    continue
            else:
                return (400,)
        return ('ok', pairs)

    def second_opinion(self, c):
        """urllib.parse.parse_qsl on the wire form, where it applies (one separator, ASCII wire)"""
        if c['kind'] != 'req':
            return None
        qs, body, raw_b = self.wire(c)
        pairs = []
        try:
            if qs is not None:
                if len(c['sepq']) != 1:
                    return None
                pairs += urllib.parse.parse_qsl(pct_hi(qs).decode('ascii'), keep_blank_values=True, encoding='utf-8',
                                                errors='strict', separator=c['sepq'][0])
        except UnicodeDecodeError:
            return (404,)
        if body is not None:
            if len(c['sepb']) != 1 or any(x >= 128 for x in body):
                return None
            if any(CHARSET_ID[n] == 2 for n in self.attempt_names(c)):
                return None      # urllib leaves a component without '%' undecoded: only right for ASCII supersets
            for name in self.attempt_names(c):
                try:
                    pairs += urllib.parse.parse_qsl(body.decode('ascii'), keep_blank_values=True, encoding=name,
                                                    errors='strict', separator=c['sepb'][0])
                    break
                except UnicodeDecodeError:
                    continue
            else:
                return (400,)
        return ('ok', pairs)

    def classify(self, c, obs):
        """signature of the input class for a failing request"""
        qs = obs['wire'][0]
        if qs is not None:
            t = qs.decode('latin-1')
            if IMAP.match(t) and not IMAP.fullmatch(t):
                return 'imagemap-prefix'
        if obs.get('kwargs') and has_nested(obs['kwargs']):
            return 'merge-nested-list'
        return None

    def oracle(self, c, obs):
        k = c['kind']
        fails = []
        if k == 'unq':
            if c['plain'] is not None and obs['out'] != c['plain']:
                fails.append(('unquote-quote', 'unquote_plus(%r) = %r, the sender encoded %r' % (c['bs'], obs['out'], c['plain'])))
            return fails
        if k == 'pqs':
            s = c['s']
            if obs['tag'] in (2, 8):
                sig = 'imagemap-prefix' if (IMAP.match(s) and not IMAP.fullmatch(s)) else 'parse_query_string-exception'
                fails.append((sig, 'parse_query_string(%r) raised %s instead of returning parameters or UnicodeDecodeError'
                              % (s, obs.get('exc'))))
            elif (obs['tag'] == 0 and IMAP.match(s) and not IMAP.fullmatch(s)
                  and any(isinstance(v, int) for v in obs['py'].values())):
                fails.append(('imagemap-prefix', 'parse_query_string(%r) = %r: read as image-map coordinates although '
                              'the query is not solely N,M' % (s, obs['py'])))
            elif obs['tag'] == 0 and not IMAP.fullmatch(s) and ';' not in s and all(ord(ch) < 128 for ch in s):
                try:
                    exp = to_dict(urllib.parse.parse_qsl(s, keep_blank_values=True, encoding=c['enc'], errors='strict'))
                    if exp != obs['py']:
                        fails.append(('pqs-vs-urllib', 'parse_query_string(%r) = %r, urllib.parse says %r' % (s, obs['py'], exp)))
                except UnicodeDecodeError:
                    fails.append(('pqs-vs-urllib', 'parse_query_string(%r) succeeded, urllib.parse raises UnicodeDecodeError' % s))
            return fails
        t = self.truth(c)
        cls = self.classify(c, obs)
        if obs['escaped']:
            fails.append((cls or 'escaped', 'exception reached the server: %s' % obs['escaped']))
        if obs.get('kwargs') and has_nested(obs['kwargs']):
            fails.append(('merge-nested-list', 'handler received %r: a repeated key must arrive as one flat list in wire '
                          'order (query values, then body values)' % (obs['kwargs'],)))
            return fails
        if t is None:
            if obs['status'] not in (200, 404, 400):
                fails.append((cls or 'status', 'status %s' % obs['status']))
            return fails
        if t[0] in (404, 400):
            if obs['status'] != t[0]:
                fails.append((cls or 'undecodable-not-refused', 'undecodable %s: expected %d, got %s'
                              % ('query string' if t[0] == 404 else 'body', t[0], obs['status'])))
            if obs['calls']:
                fails.append((cls or 'handler-saw-partial', 'handler was called although the input is undecodable: %r'
                              % (obs['kwargs'],)))
            return fails
        if t[0] == 'imap':
            exp = {}
            for kk, vv in [('x', t[1]), ('y', t[2])] + list(t[3]):
                exp.setdefault(kk, []).append(vv)
            exp = {kk: (vs[0] if len(vs) == 1 else vs) for kk, vs in exp.items()}
            if len(str(t[1])) > 4300 or len(str(t[2])) > 4300:
                return fails
        else:
            exp = to_dict(t[1])
        if obs['status'] != 200 or obs['calls'] != 1:
            fails.append((cls or 'not-delivered', 'expected the handler to be called once with %r; status %s, %d calls'
                          % (exp, obs['status'], obs['calls'])))
            return fails
        if obs['kwargs'] != exp:
            fails.append((cls or 'kwargs-mismatch', 'handler received %r, sent %r' % (obs['kwargs'], exp)))
        so = self.second_opinion(c)
        if so is not None and t[0] == 'ok':
            self.count('second_opinion_applied')
            if so[0] != 'ok' or to_dict(so[1]) != exp:
                fails.append(('harness:truth-vs-urllib', 'generator ground truth %r and urllib.parse %r differ' % (exp, so)))
        return fails

    def nontrivial(self, c, obs):
        k = c['kind']
        if k == 'unq':
            self.count('unq:' + ('roundtrip' if c['plain'] is not None else 'malformed'))
            return ('unq', c['bs'][:6]) if b'%' in c['bs'] or b'+' in c['bs'] else None
        if k == 'pqs':
            self.count('pqs:tag%d' % obs['tag'])
            return ('pqs', c['s'][:8], c['enc'])
        self.count('req:status%s' % obs['status'])
        q, b = c.get('q'), c.get('b')
        if k == 'rawq':
            if c.get('rawbody') is not None:
                self.count('raw-body')
            return ('rawq', c['qs'], b is not None, c.get('rawbody'))
        nq, nb = len(q or ()), len(b or ())
        if nq + nb == 0:
            return None
        qk = set(p[0] for p in q or ())
        bk = [p[0] for p in b or ()]
        shared = bool(qk & set(bk))
        rep = len(set(bk)) < len(bk) or len(qk) < nq
        self.count('sender:%s' % c['sender'] if b is not None else 'sender:none')
        self.count('declared:%s' % ('none' if not c['declared'] else
                                     'honest' if CHARSET_ID[c['declared']] == {'utf-8': 0, 'latin-1': 1}.get(c['sender'], 2)
                                     else 'wrong') if b is not None else 'declared:n/a')
        self.count('style_q:%s' % c['stq']['safe'])
        if shared:
            self.count('key-shared-query-body')
        return (nq > 0, nb > 0, shared, rep, c['stq']['safe'], c['stb']['safe'], c['stq']['plus'], c['stb']['plus'],
                c['stq']['bare'], tuple(c['sepq']), c['sender'] if b is not None else None, c['declared'],
                tuple(c['override'] or ()), obs['status'])

    def shrink(self, c, still_fails):
        if c['kind'] != 'req':
            return c
        c = dict(c)
        for side in ('q', 'b'):
            if c[side]:
                c[side] = core.shrink_list(c[side], lambda l, side=side: still_fails(dict(c, **{side: l})))
        simple = dict(safe='unres', up1=True, up2=True, plus=False, bare=False)
        for key in ('stq', 'stb'):
            if still_fails(dict(c, **{key: simple})):
                c[key] = simple
        for side in ('q', 'b'):
            for i in range(len(c[side] or ())):
                for j in (0, 1):
                    txt = c[side][i][j]
                    for cand in ('', 'a', txt[:1], txt[:len(txt) // 2]):
                        if len(cand) < len(txt):
                            new = [list(p) for p in c[side]]
                            new[i][j] = cand
                            if still_fails(dict(c, **{side: new})):
                                c[side] = new
                                break
        return c

    # ------------------------------------------------------------------ generated ties
    def ties(self):
        """constants the model fixes, re-read from the sources"""
        import ast
        import os
        obl = []
        src = open(os.path.join(core.REPO, 'cherrypy', 'lib', 'httputil.py')).read()
        tree = ast.parse(src)
        pat = None
        for n in ast.walk(tree):
            if isinstance(n, ast.Assign) and any(isinstance(t, ast.Name) and t.id == 'image_map_pattern' for t in n.targets):
                pat = n.value.args[0].value
        obl.append(core.Obligation('tie:image_map_pattern == [0-9]+,[0-9]+', pat == '[0-9]+,[0-9]+', repr(pat)))
        from cherrypy import _cpreqbody, _cprequest
        import codecs
        ok = (_cpreqbody.Entity.attempt_charsets == ['utf-8']
              and codecs.lookup(_cprequest.Request.query_string_encoding).name == 'utf-8'
              and tuple(_cprequest.Request.methods_with_bodies) == ('POST', 'PUT', 'PATCH'))
        text = ('From Coq Require Import ZArith List.\nImport ListNotations.\nFrom CV Require Import Model.M_params.\n'
                'Open Scope Z_scope.\n'
                'Lemma tie_default_charsets : default_charsets = [%s].\nProof. vm_compute. reflexivity. Qed.\n'
                % '; '.join(str(CHARSET_ID[x]) for x in _cpreqbody.Entity.attempt_charsets))
        ok2, out = core.coq_check_text('Tie_C03', text)
        obl.append(core.Obligation('tie:Entity.attempt_charsets / query_string_encoding / methods_with_bodies',
                                   ok and ok2, out if not ok2 else ''))
        return obl


CHECK = C03
