"""C05 - the request-body stream is exact, ordered and bounded."""
from .. import core, sx

OPK = {'read': 0, 'readline': 1, 'readlines': 2, 'next': 3, 'readinto': 4}


class Sock:
    """stand-in for the server's rfile: returns at most frags[i] bytes on the i-th read"""

    def __init__(self, data, frags):
        self.data, self.pos, self.frags, self.i = data, 0, frags, 0

    def read(self, n):
        k = n
        if self.i < len(self.frags):
            k = min(n, max(1, self.frags[self.i]))
        self.i += 1
        out = self.data[self.pos:self.pos + k]
        self.pos += len(out)
        return out


class Sink:
    def __init__(self):
        self.parts = []

    def write(self, b):
        self.parts.append(b)


class C05(core.Check):
    pid = 'C05'
    props_files = ('Props/C05.v',)
    refuted_files = ('Refuted/R_C05.v',)
    model_fn = ('run_C05', 'Model.M_reader')
    rule = ('random and boundary operation sequences over {read, read(n), readline, readline(n), readlines, '
            'readlines(h), next, read(n, fp_out)} on SizedReader behind Entity, bodies newline-dense/free, '
            'declared length exact/shorter/longer/absent, maxbytes none/<,=,> len, buffer sizes 1..64KiB, '
            'socket fragmentation; a case is non-trivial when it delivered bytes with >=2 operations; '
            'distinct by (op kinds, length mode, maxbytes mode, fragmented?, bufsize class)')
    assumptions = ('the socket file returns between 1 and n bytes per read(n) and b"" only at EOF',
                   'negative size arguments are outside the quantifier (model answers Unsupported; not generated)')

    # ---------------- generation ----------------
    def gen_body(self, rng, big=False):
        kind = rng.choice(['dense', 'free', 'mixed', 'empty', 'crlf'])
        n = rng.choice([0, 1, 2, 3, 5, 8, 13, 21, 40, 100, 300]) if not big else rng.choice([9000, 70000, 200 * 1024])
        if kind == 'empty':
            return b''
        if kind == 'dense':
            return bytes(rng.choice(b'ab\n\n') for _ in range(n))
        if kind == 'free':
            return bytes(rng.choice(b'abcdefg\r') for _ in range(n))
        if kind == 'crlf':
            return b''.join(rng.choice([b'x', b'yz', b'\r\n', b'\n', b'--']) for _ in range(n))[:n]
        if big:
            unit = bytes(rng.choice(b'abc\n') if rng.random() < .02 else rng.randrange(256) for _ in range(997))
            return (unit * (n // 997 + 1))[:n]
        return bytes(rng.choice([10, 13, 0, 255, 65, 66, 67]) for _ in range(n))

    def gen_case(self, rng, big=False):
        body = self.gen_body(rng, big)
        n = len(body)
        lm = rng.choice(['exact', 'exact', 'shorter', 'longer', 'absent'])
        length = {'exact': n, 'shorter': rng.randrange(0, n + 1), 'longer': n + rng.randrange(1, 9),
                  'absent': None}[lm]
        eff = n if length is None else min(n, length)
        mm = rng.choice(['none', 'none', 'lt', 'eq', 'gt'])
        maxb = {'none': 0, 'lt': max(1, eff - rng.randrange(1, 4)) if eff > 1 else 0, 'eq': eff,
                'gt': eff + rng.randrange(1, 5)}[mm]
        bufsize = rng.choice([1, 2, 3, 5, 8, 16, 64, 8192, 65536]) if not big else rng.choice([1024, 8192, 65536])
        fm = rng.choice(['none', 'ones', 'rand'])
        if big:
            fm = rng.choice(['none', 'rand'])
        frags = {'none': [], 'ones': [1] * min(n, 50), 'rand': [rng.randrange(1, 9) if not big else
                                                                   rng.randrange(1, 20000) for _ in range(rng.randrange(0, 30))]}[fm]
        sizes = [None, None, 0, 1, 2, 3, 5, max(1, bufsize - 1), bufsize, bufsize + 1, eff, eff + 1, max(1, eff // 2)]
        ops = []
        for _ in range(rng.randrange(1, 7)):
            k = rng.choice(['read', 'read', 'readline', 'readline', 'readlines', 'next', 'readinto'])
            arg = None if k == 'next' else rng.choice(sizes)
            ops.append([k, arg])
        if rng.random() < .5:
            ops.append(['read', None])
        return {'body': body, 'frags': frags, 'len': length, 'maxb': maxb, 'bufsize': bufsize, 'ops': ops,
                'modes': [lm, mm, fm]}

    def cases(self):
        n = 4000 if self.tier == 'quick' else 150000
        nbig = 6 if self.tier == 'quick' else 60
        out = [self.gen_case(self.rng) for _ in range(n)]
        out += [self.gen_case(self.rng, big=True) for _ in range(nbig)]
        if self.tier == 'thorough':
            out += list(self.exhaustive())
        return out

    def exhaustive(self):
        """all op sequences of length <= 3 over a small alphabet on bodies of length <= 5"""
        import itertools
        alpha = [['read', None], ['read', 1], ['read', 2], ['readline', None], ['readline', 1], ['readline', 2],
                 ['readlines', None], ['readlines', 2], ['next', None]]
        bodies = [b'', b'a', b'\n', b'a\n', b'\na', b'a\nb', b'\n\n', b'ab\nc', b'a\nb\n', b'a\nbc\n', b'ab\ncd']
        for body in bodies:
            for L in (1, 2, 3):
                for ops in itertools.product(alpha, repeat=L):
                    for bufsize in (1, 2, 8):
                        for length in (len(body), None):
                            yield {'body': body, 'frags': [], 'len': length, 'maxb': 0, 'bufsize': bufsize,
                                   'ops': [list(o) for o in ops] + [['read', None]],
                                   'modes': ['exact' if length is not None else 'absent', 'none', 'none']}

    def search_cases(self, around=None):
        rng = self.rng
        for c in around or []:
            yield c
        for _ in range(30000):
            yield self.gen_case(rng)

    # ---------------- model side ----------------
    def encode(self, c):
        ops = []
        for k, a in c['ops']:
            ops.append([OPK[k]] + ([] if a is None else [a]))
        return [c['body'], c['frags'], [] if c['len'] is None else [c['len']], c['maxb'], c['bufsize'], 1, ops]

    # ---------------- implementation side ----------------
    def impl(self, c):
        import cherrypy
        from cherrypy import _cpreqbody
        sock = Sock(c['body'], c['frags'])
        rd = _cpreqbody.SizedReader(sock, c['len'], c['maxb'], bufsize=c['bufsize'])
        ent = _cpreqbody.Entity.__new__(_cpreqbody.Entity)
        ent.fp = rd
        outs = []
        for k, a in c['ops']:
            st, out = 0, None
            sink = None
            try:
                if k == 'read':
                    out = [0, ent.read(a)]
                elif k == 'readinto':
                    sink = Sink()
                    r = ent.read(a, sink)
                    out = [0, b''.join(sink.parts)]
                    if r is not None:
                        st = 98
                elif k == 'readline':
                    out = [0, ent.readline(a)]
                elif k == 'readlines':
                    out = [1, list(ent.readlines(a))]
                elif k == 'next':
                    try:
                        out = [0, next(ent)]
                    except StopIteration:
                        out = [2]
            except cherrypy.HTTPError as e:
                st = e.code
                out = [0, b''.join(sink.parts) if sink else b'']
            except TypeError as e:
                st = 1
                out = ['exc', repr(e)]
            except Exception as e:
                st = 99
                out = ['exc', repr(e)]
            outs.append([st, out])
            if st != 0:
                break
        return {'outs': outs, 'taken': sock.pos, 'bytes_read': rd.bytes_read, 'buflen': len(rd.buffer),
                'done': bool(rd.done)}

    def compare(self, c, mo, obs):
        m_outs, m_taken, m_bread, m_buflen, m_done = mo
        if len(m_outs) != len(obs['outs']):
            return 'number of completed operations: model %d impl %d' % (len(m_outs), len(obs['outs']))
        for i, ((mst, mout), (ist, iout)) in enumerate(zip(m_outs, obs['outs'])):
            if mst != ist:
                return 'op %d status: model %s impl %s' % (i, mst, ist)
            if ist == 0 and sx.norm(iout) != mout:
                return 'op %d output differs' % i
            if ist == 413 and sx.norm(iout) != mout and c['ops'][i][0] == 'readinto':
                return 'op %d bytes written before 413 differ' % i
        if (m_taken, m_bread, m_buflen) != (obs['taken'], obs['bytes_read'], obs['buflen']):
            return 'final counters (taken, bytes_read, |buffer|): model %r impl %r' % (
                (m_taken, m_bread, m_buflen), (obs['taken'], obs['bytes_read'], obs['buflen']))
        if bool(m_done) != obs['done']:
            return 'done flag'
        return None

    # ---------------- property oracle ----------------
    def oracle(self, c, obs):
        body, length, maxb = c['body'], c['len'], c['maxb']
        eff = body if length is None else body[:max(length, 0)]
        fails = []
        delivered = b''
        complete = False
        for (k, a), (st, out) in zip(c['ops'], obs['outs']):
            if st == 0:
                piece = b''
                if out[0] == 0:
                    piece = out[1]
                elif out[0] == 1:
                    piece = b''.join(out[1])
                delivered += piece
                if k in ('read', 'readinto') and a is None:
                    complete = True
                if k == 'readlines' and any(not l for l in out[1]):
                    fails.append(('readlines-empty-line', 'readlines returned an empty line'))
                if k in ('readline', 'next') and out[0] == 0 and b'\n' in out[1][:-1]:
                    fails.append(('readline-two-lines', 'readline returned data past a newline'))
            elif st == 413:
                if out and out[0] == 0:
                    delivered += out[1]
                if not maxb or len(eff) <= maxb:
                    fails.append(('413-without-cause', '413 although the body does not exceed maxbytes'))
            elif st == 1:
                fails.append(('typeerror:%s%s' % (k, '' if length is not None else ':nolength'),
                              'TypeError escaped from %s(%r): %s' % (k, a, out[1])))
            else:
                fails.append(('exception:%s' % k, 'unexpected exception %r' % (out,)))
        if not eff.startswith(delivered):
            fails.append(('not-a-prefix', 'bytes returned are not the body in order: got %r... expected prefix of %r...'
                          % (delivered[:60], eff[:60])))
        if complete and all(st == 0 for st, _ in obs['outs']) and delivered != eff and eff.startswith(delivered):
            fails.append(('incomplete', 'read() to the end returned %d of %d body bytes' % (len(delivered), len(eff))))
        if length is not None and obs['taken'] > max(length, 0):
            fails.append(('overread', 'consumed %d bytes from the connection, Content-Length %d' % (obs['taken'], length)))
        if maxb and len(delivered) > maxb:
            fails.append(('maxbytes-exceeded', 'application received %d bytes, limit %d' % (len(delivered), maxb)))
        if maxb and complete and len(eff) > maxb and all(st == 0 for st, _ in obs['outs']):
            fails.append(('no-413', 'body of %d bytes read to the end under maxbytes=%d without 413' % (len(eff), maxb)))
        return fails

    # ---------------- the glue around the reader: which length a whole request gives it ----------------
    def extra(self):
        """whole requests through the WSGI stack on an UNCLAMPED connection (the body is followed by a pipelined
        request; the server does not cut the stream at Content-Length): Content-Length with and without a
        non-chunked Transfer-Encoding, request.body.maxbytes, socket fragmentation, buffer sizes; the page handler
        runs an operation sequence on request.body.  Judged by the oracle only (exact prefix, complete after
        read(), nothing consumed past Content-Length, 413 exactly when the body exceeds maxbytes)."""
        import json as _json
        import cherrypy
        from ..impl import wsgi
        rng = self.rng
        out = []
        box = {}

        class Root:
            @cherrypy.expose
            def index(self):
                b = cherrypy.request.body
                res = []
                for k, a in box['ops']:
                    if k == 'read':
                        res.append(b.read(a))
                    elif k == 'readline':
                        res.append(b.readline(a))
                    elif k == 'readlines':
                        res.append(b''.join(b.readlines(a)))
                    elif k == 'next':
                        try:
                            res.append(next(b))
                        except StopIteration:
                            res.append(b'')
                box['got'] = b''.join(res)
                return b'ok'
        wsgi.quiet_cherrypy()
        n = 400 if self.tier == 'quick' else 6000
        for i in range(n):
            body = self.gen_bytes(rng)
            maxb = rng.choice([0, 0, 0, max(0, len(body) - 1), len(body), len(body) + 3])
            bufsize = rng.choice([1, 2, 7, 64, 8192])
            te = rng.choice([None, None, 'identity', 'gzip', 'x-unknown', 'Identity'])
            ops = [[rng.choice(['read', 'readline', 'readlines', 'next']), rng.choice([None, None, 1, 2, 5, 100])]
                   for _ in range(rng.randrange(0, 4))] + [['read', None]]
            ops = [[k, (a if k != 'next' else None)] for k, a in ops]
            pipelined = rng.choice([b'', b'GET /next HTTP/1.1\r\nHost: x\r\n\r\n', b'\n\n', b'X' * 50])
            hdrs = [('Content-Type', 'application/octet-stream'), ('Content-Length', str(len(body)))]
            if te:
                hdrs.append(('Transfer-Encoding', te))
            conf = {'/': {'request.body.bufsize': bufsize, 'tools.encode.on': False}}
            if maxb:
                conf['/']['request.body.maxbytes'] = maxb
            app = wsgi.make_app(Root(), conf)
            env, _, rej = wsgi.build_environ('POST', '/', hdrs, body, 'HTTP/1.1')
            frags = [rng.randrange(1, 9) for _ in range(rng.randrange(0, 30))] if rng.random() < .6 else []
            inp = wsgi.Input(body + pipelined, None, frags)       # not clamped at Content-Length
            env['wsgi.input'] = inp
            box.clear()
            box['ops'] = ops
            status = [None]

            def sr(st, h, exc_info=None):
                status[0] = int(st[:3])
                return lambda d: None
            try:
                it = app(env, sr)
                list(it)
                if hasattr(it, 'close'):
                    it.close()
            except Exception as e:          # noqa
                status[0] = 'escaped %r' % (e,)
            self.count('whole requests on an unclamped connection')
            self.count('  transfer-encoding=%s' % te)
            case = {'k': 'request', 'body': body, 'te': te, 'maxb': maxb, 'bufsize': bufsize, 'ops': ops,
                    'frags': frags, 'pipelined': pipelined}
            obs = {'status': status[0], 'got': box.get('got'), 'consumed': inp.pos}
            bad = None
            if inp.pos > len(body):
                bad = ('request:overread', 'Content-Length %d, Transfer-Encoding %r: %d bytes were consumed from the '
                       'connection (the pipelined request was eaten)' % (len(body), te, inp.pos))
            elif maxb and len(body) > maxb:
                if status[0] != 413:
                    bad = ('request:no-413', 'body of %d bytes under request.body.maxbytes=%d answered %r'
                           % (len(body), maxb, status[0]))
            elif status[0] != 200:
                bad = ('request:status', 'a well-formed request was answered %r' % (status[0],))
            elif box.get('got') != body:
                bad = ('request:body-differs', 'the handler read %r..., the body is %r...'
                       % ((box.get('got') or b'')[:40], body[:40]))
            if bad:
                out.append(core.Violation(bad[0], bad[1], case=case, observed=obs))
                if len(out) >= 3:
                    break
        seen, uniq = set(), []
        for v in out:
            if v.signature not in seen:
                seen.add(v.signature)
                uniq.append(v)
        return uniq

    def gen_bytes(self, rng):
        n = rng.choice([0, 1, 2, 5, 17, 64, 200])
        return bytes(rng.choice(b'ab\n\r x') for _ in range(n))

    def nontrivial(self, c, obs):
        n = sum(len(o[1]) if o and o[0] == 0 else (sum(map(len, o[1])) if o and o[0] == 1 else 0)
                for st, o in obs['outs'] if st == 0)
        if n == 0 or len(c['ops']) < 2:
            return None
        bs = c['bufsize']
        return (tuple(k for k, _ in c['ops']), tuple(c.get('modes', ())), 0 if bs < 4 else 1 if bs < 100 else 2)

    def shrink(self, c, still_fails):
        c = dict(c)

        def with_ops(ops):
            d = dict(c)
            d['ops'] = ops
            return d
        c['ops'] = core.shrink_list(c['ops'], lambda ops: still_fails(with_ops(ops)))
        c['frags'] = core.shrink_list(c['frags'], lambda fr: still_fails(dict(c, frags=fr)))
        if c['len'] is None or c['len'] >= len(c['body']):
            idx = core.shrink_list(list(range(len(c['body']))), lambda ix: still_fails(
                dict(c, body=bytes(c['body'][i] for i in ix),
                     len=None if c['len'] is None else c['len'] - (len(c['body']) - len(ix)))))
            nb = bytes(c['body'][i] for i in idx)
            if c['len'] is not None:
                c['len'] -= len(c['body']) - len(nb)
            c['body'] = nb
        return c


CHECK = C05
