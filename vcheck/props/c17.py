"""C17 - negotiated content and charset encodings are lossless and honoured.

Two case families, both driven through the in-process WSGI driver:
  gzip    - bytes bodies x chunking x compress_level x Accept-Encoding x Content-Type vs mime_types
  charset - text bodies x Accept-Charset x tools.encode options x streamed/buffered
The model (coq/Model/M_negotiate.v, M_gzipframe.v) predicts the DECISION (compress / untouched / 406,
charset chosen / 406 / 500, Vary tokens, element order) and the gzip framing fields (10 header bytes,
CRC-32 and ISIZE over the original bytes); zlib and the codecs are run only on the Python side.
"""
import ast
import gzip as _gzip
import hashlib
import os
import re

from .. import core, sx
from ..impl import wsgi

BOM_CODECS = ('utf-16', 'utf-32', 'utf-8-sig', 'utf_16', 'utf_32', 'utf16', 'utf32')

# the model compares weights only (q > 0, order), so any fixed-point scale is exact: millionths cover the
# three-decimal RFC 7231 grammar and the longer fractions float() - which is what the code calls - also accepts
Q1 = 1000000
QTEXTS = {0: ['0', '0.0', '0.000', '0.', '0.0000'], 1000: ['1', '1.0', '1.000', '1.'], 500: ['0.5', '.5', '0.50', '0.500'],
          '4e-4': ['0.0004'], '1e-4': ['0.0001', '.00010'], '1e-6': ['0.000001'], '9999e-4': ['0.9999'],
          1: ['0.001'], 999: ['0.999'], 800: ['0.8', '0.80'], 300: ['0.3'], 100: ['0.1', '0.10']}


def qtext_to_int(t):
    """'0.50' -> 500000 (millionths); exact for texts with <= 6 decimals"""
    a, _, b = t.partition('.')
    assert len(b) <= 6, t
    return int(a or '0') * Q1 + int((b + '000000')[:6] or '0')


def render_elem(e):
    """e = {'v': value, 'q': qtext|None, 'ws': 0..2, 'ext': ''}: (text on the wire, expected str(element))"""
    v, q, ws, ext = e['v'], e.get('q'), e.get('ws', 0), e.get('ext', '')
    if q is None:
        wire = [v, ' ' + v, v + ' '][ws]
        return wire, v
    # parameter names are case-insensitive (RFC 7231 3.1.1.1): 'Q=' is the same weight
    wire = [v + ';q=' + q, v + '; q=' + q, ' ' + v + ' ;q = ' + q + ' ', v + ';Q=' + q][ws] + ext
    return wire, v + ';q=' + q + ext


def render_header(elems):
    return ','.join(render_elem(e)[0] for e in elems) if elems is not None else None


def model_elems(elems):
    """what the model receives: () when the header is absent, else ((value q str) ...)"""
    if elems is None:
        return []
    hdr = render_header(elems).strip()
    if not hdr:
        return [[]]
    return [[[e['v'], Q1 if e.get('q') is None else qtext_to_int(e['q']), render_elem(e)[1]] for e in elems]]


def eff_q(name, elems, default=None):
    """RFC 7231 effective qvalue (millionths) of a lower-case name: the best explicit entry, else the best
    wildcard, else [default]"""
    qs = [Q1 if e.get('q') is None else qtext_to_int(e['q']) for e in elems if e['v'].lower() == name]
    if qs:
        return max(qs)
    qs = [Q1 if e.get('q') is None else qtext_to_int(e['q']) for e in elems if e['v'] == '*']
    if qs:
        return max(qs)
    return default


def mime_ok(ct, patterns):
    """independent reading of the documented pattern forms: type/subtype, type/*, type/*+suffix"""
    ct = ct.split(';')[0].strip()
    for p in patterns:
        if p == ct:
            return True
        m = re.fullmatch(r'([^/*+]+)/\*(?:\+([^/*+]+))?', p)
        if m and '/' in ct:
            t, _, sub = ct.partition('/')
            if t == m.group(1) and (m.group(2) is None or sub.endswith('+' + m.group(2))):
                return True
    return False


def eff_chunks(c):
    """the chunks the tools iterate over: prepare_iter turns an empty str/bytes value into []"""
    if c['shape'] in ('str', 'bytes') and c['chunks'] and not c['chunks'][0]:
        return []
    return c['chunks']


class FakeTime:
    now = 0

    def time(self):
        return self.now + 0.25


class Root:
    case = None

    def index(self):
        import cherrypy
        c = Root.case
        h = cherrypy.response.headers
        if c.get('ct') is None:
            h.pop('Content-Type', None)
        else:
            h['Content-Type'] = c['ct']
        if c.get('vary') is not None:
            h['Vary'] = c['vary']
        if c.get('cached'):
            cherrypy.request.cached = True
        chunks = c['chunks']
        shape = c['shape']
        if shape in ('bytes', 'str'):
            return chunks[0] if chunks else (b'' if c['fam'] == 'gzip' else '')
        if shape == 'list':
            return list(chunks)

        def g():
            for x in chunks:
                yield x
        return g()
    index.exposed = True


class C17(core.Check):
    pid = 'C17'
    props_files = ('Props/C17.v',)
    refuted_files = ('Refuted/R_C17.v',)
    model_fn = ('run_C17', 'Model.M_negotiate')
    xcheck_n = 40
    rule = ('gzip family: bodies 0..300 KiB (bytes value / list / generator, any chunking incl. empty chunks) x '
            'compress_level 0..9 x Accept-Encoding from the grammar (gzip, x-gzip, identity, *, unknown codings, '
            'empty elements, q 0..1 in several spellings, whitespace, extension params) x Content-Type vs '
            'mime_types (exact, type/*, type/*+suffix, parameters) x streamed/buffered x cached x pre-set Vary; '
            'charset family: ASCII/Latin-1/Cyrillic/CJK/astral texts (str value / list / generator, bytes chunks '
            'mixed in) x Accept-Charset (known, aliased, unknown names, *, q-values) x tools.encode options '
            '(encoding, default_encoding, text_only, add_charset) x Content-Type x streamed/buffered. '
            'Non-trivial: a header was sent and the tool reached its decision loop; distinct by decision, shape, '
            'stream, header shape.')
    assumptions = (
        'zlib (raw deflate/inflate) and the codecs are not modelled: inflate(deflate stream ++ rest) = (data, rest) '
        'is a hypothesis of c17_gzip_valid (shown satisfiable by the stored-block codec); charset encodability is '
        'an oracle function of the model, supplied per case by CPython',
        'q-values are decimal texts with at most six digits in 0..1, among them weights below 0.001 such as 0.0004 '
        '(the model keeps them in millionths and only compares them); '
        'malformed q-values (answered 500 by this tree - a C07 matter) are outside this check',
        'a mime_types entry or Content-Type with two "/" or two "+" makes the tool raise ValueError (500); the '
        'model reproduces it, the oracle does not judge it (server-side configuration, not client input)',
        'without an Accept-Charset header the property makes no demand (default charset or 500)',
        'the implicit ISO-8859-1 fallback is ranked below every listed charset (RFC 7231 dropped its implicit q=1)',
        '"*" stands for the tool\'s default_encoding only',
    )

    # ------------------------------------------------------------------ setup
    def setup(self):
        import cherrypy
        from cherrypy.lib import encoding
        wsgi.quiet_cherrypy()
        self._enc_mod = encoding
        self._old_time = encoding.time
        self.faketime = FakeTime()
        encoding.time = self.faketime
        self.apps = {}
        self.notes.append('encode() passes the repaired variants (rep=1, rep_q0=1, rep_mat=1): the repairs are '
                          '4aa5a4f (gzip 406), 0380baa and its follow-up for a listed default (charset q), b424a50 (generator body), 5de6495 (streamed: codec must exist); the code before them '
                          'is refuted in Refuted/R_C17.v')
        self.notes.append('interpretation: 406 from the gzip tool is judged unjustified when identity is not refused '
                          '(identity;q=0, or *;q=0 without an identity entry) or when gzip/x-gzip - named, or through a '
                          'wildcard - has q>0; the converse (refusal of both => 406) is proved for the model and checked '
                          'by D, not demanded by the oracle (the text says "only if")')
        self.notes.append('interpretation: "most preferred charset able to represent the text" ranges over the charsets '
                          'named with q>0, the default_encoding when "*" has q>0 and does not refuse it, and the '
                          'implicit ISO-8859-1 (lowest rank) of a header without "*"; no demand without Accept-Charset')
        self.notes.append('time.time is replaced inside cherrypy.lib.encoding only (MTIME values 0 .. 2^33)')

    def teardown(self):
        self._enc_mod.time = self._old_time

    # ------------------------------------------------------------------ generation
    def gen_elems(self, rng, values, maxn=4):
        r = rng.random()
        if r < .08:
            return None
        n = rng.choice([1, 1, 1, 2, 2, 2, 3, 3, maxn]) if r > .12 else 0
        out = []
        for _ in range(n):
            v = rng.choice(values)
            if rng.random() < .4:
                q = None
            else:
                q = rng.choice(QTEXTS[rng.choice([0, 0, 0, 1000, 500, 500, 1, 999, 800, 300, 100, '4e-4', '1e-4', '1e-6', '9999e-4'])])
            e = {'v': v, 'q': q, 'ws': rng.choice([0, 0, 0, 1, 2, 3] if q is not None else [0, 0, 0, 1, 2])}
            if q is not None and rng.random() < .08:
                e['ext'] = rng.choice([';ext=1', ';x=y'])
            out.append(e)
        return out

    AE_VALUES = ['gzip', 'gzip', 'gzip', 'x-gzip', 'identity', 'identity', '*', '*', 'deflate', 'br', 'compress',
                 'GZIP', 'Identity', '', 'gzip2', 'zstd']
    CTS = ['text/plain', 'text/plain', 'text/html', 'text/plain; charset=utf-8', 'text/plain ;charset=x',
           'text/css', 'application/json', 'application/xhtml+xml', 'application/atom+xml', 'image/svg+xml',
           'application/octet-stream', 'text', None, 'TEXT/PLAIN', 'application/ld+json', 'text/x+xml',
           'application/xml+x', 'image/xml+svg', 'application/json+xml']
    CTS_BAD = ['a/b/c', 'application/a+b+xml']
    MIMES = [None, None, None, ['text/*'], ['application/*+xml'], ['text/*', 'application/*+xml', 'image/png'],
             ['*/*'], ['text/html', 'application/json'], ['text/*+xml'], ['image/*+xml', 'application/*'],
             [], ['bad', 'text/plain'], ['application/*+json', 'text/css'],
             # exact entries that carry a structured-syntax suffix match only themselves
             ['text/html', 'application/xhtml+xml'], ['image/svg+xml'], ['application/atom+xml', 'text/plain'],
             ['application/x+xml', 'application/ld+json']]
    MIMES_BAD = [['a/b/c', 'text/*'], ['application/x+y+xml'], ['text/x/y']]

    def gen_bytes(self, rng, n):
        k = rng.random()
        if k < .3:
            return bytes(rng.randrange(256) for _ in range(min(n, 4096))) * (n // 4096 + 1)
        if k < .6:
            return (b'The quick brown fox jumps over the lazy dog. ' * (n // 45 + 1))
        return bytes([rng.randrange(256)]) * n

    def chunked(self, rng, data, maxchunks=12):
        """arbitrary chunking of data including empty chunks"""
        n = len(data)
        k = rng.randrange(0, maxchunks)
        cuts = sorted(rng.randrange(0, n + 1) for _ in range(k))
        out, p = [], 0
        for c in cuts + [n]:
            out.append(data[p:c])
            p = c
        if rng.random() < .3:
            out.insert(rng.randrange(len(out) + 1), data[:0])
        return out

    def gen_gzip(self, rng, big=False, focus=None):
        if big:
            n = rng.choice([65535, 65536, 70000, 131071, 200 * 1024, 300 * 1024])
        else:
            n = rng.choice([0, 0, 1, 2, 3, 10, 100, 1000, 5000])
        data = self.gen_bytes(rng, n)[:n]
        shape = rng.choice(['bytes', 'list', 'list', 'gen', 'gen'])
        if shape == 'bytes':
            chunks = [data]
        else:
            chunks = self.chunked(rng, data)
            if rng.random() < .05:
                chunks = []
        bad = rng.random() < .03
        c = {'fam': 'gzip', 'shape': shape, 'chunks': chunks, 'stream': rng.random() < .3,
             'cached': rng.random() < .04,
             'ae': self.gen_elems(rng, self.AE_VALUES),
             'ct': rng.choice(self.CTS_BAD if bad and rng.random() < .5 else self.CTS),
             'mime_types': rng.choice(self.MIMES_BAD if bad else self.MIMES),
             'level': rng.randrange(0, 10),
             'now': rng.choice([0, 1, 1700000000, 2 ** 32 - 1, 2 ** 32, 2 ** 32 + 5, 2 ** 33 + 77]),
             'vary': rng.choice([None, None, None, 'Accept-Language', 'Accept-Encoding', ' Cookie ,, Accept-Language',
                                 'Accept-Language,Accept-Encoding', 'accept-encoding'])}
        if focus == 'accept':      # make the decision loop the interesting part
            c['ct'] = 'text/plain'
            c['mime_types'] = None
            c['cached'] = False
            if not b''.join(c['chunks']) or not c['chunks']:
                c['shape'], c['chunks'] = 'list', [b'data', b'']
            if c['ae'] is None:
                c['ae'] = [{'v': 'gzip', 'q': None, 'ws': 0}]
        if focus == 'mime':        # make the media-type eligibility test the interesting part
            c['mime_types'] = rng.choice([m for m in self.MIMES if m])
            exact = [m for m in c['mime_types'] if '+' in m and '*' not in m]
            if exact and rng.random() < .6:
                # same top-level type and structured-syntax suffix as an exact entry, another subtype: not eligible
                t, sub = rng.choice(exact).split('/', 1)
                c['ct'] = '%s/%s+%s' % (t, rng.choice(['atom', 'other', 'x', 'svg']), sub.rsplit('+', 1)[1])
            c['cached'] = False
            c['ae'] = [{'v': 'gzip', 'q': None, 'ws': 0}]
            if not b''.join(c['chunks']) or not c['chunks']:
                c['shape'], c['chunks'] = 'list', [b'some data ', b'to compress']
        if focus == 'frame':       # make it compress
            c['ct'] = 'text/plain'
            c['mime_types'] = None
            c['cached'] = False
            c['ae'] = [{'v': rng.choice(['gzip', 'x-gzip']), 'q': rng.choice([None, '0.5', '0.001']), 'ws': 0}]
            if c['shape'] == 'bytes' and not data:
                c['shape'] = 'gen'
            if c['shape'] == 'list' and not c['chunks']:
                c['chunks'] = [b'']
        return c

    CS_VALUES = ['utf-8', 'utf-8', 'UTF-8', 'iso-8859-1', 'iso-8859-1', 'latin-1', 'us-ascii', 'ascii', 'utf-16',
                 'utf-16le', 'koi8-r', 'cp1252', 'shift_jis', 'utf-7', 'bogus-charset', '*', '*', '*', 'ISO-8859-1',
                 'utf-32', 'big5', 'x-unknown']
    TEXTS = ['hello', 'plain ascii text, nothing else', 'h\xe9llo w\xf6rld', '\xa3 100', 'caf\xe9',
             'привет', '你好世界', '€ 5', 'emoji \U0001f600',
             'Āā', 'a', '', 'line1\nline2\r\n', '日本語', 'mixed \xe9 € я']

    def gen_charset(self, rng, focus=None):
        shape = rng.choice(['str', 'str', 'list', 'list', 'gen', 'gen'])
        nchunks = 1 if shape == 'str' else rng.choice([0, 1, 2, 2, 3, 4])
        chunks = []
        for _ in range(nchunks):
            if rng.random() < .08 and shape != 'str':
                chunks.append(rng.choice([b'raw', b'', b'\xff\xfe']))
            elif rng.random() < .7:
                chunks.append(rng.choice(self.TEXTS[:5] + self.TEXTS[10:13]))
            else:
                chunks.append(rng.choice(self.TEXTS))
        c = {'fam': 'charset', 'shape': shape, 'chunks': chunks, 'stream': rng.random() < .25,
             'ac': self.gen_elems(rng, self.CS_VALUES),
             'forced': rng.choice([None] * 7 + ['utf-16', 'latin-1', 'UTF-8', 'bogus', 'us-ascii', 'koi8-r']),
             'default': rng.choice([None] * 6 + ['iso-8859-1', 'ascii', 'utf-16']),
             'text_only': rng.random() < .85, 'add_charset': rng.random() < .93,
             'ct': rng.choice(['text/plain', 'text/plain', 'text/html', 'text/html', 'TEXT/Plain',
                               'text/plain; charset=koi8-r', 'text/plain;format=flowed', 'application/json',
                               'application/xml', None, 'text/css'])}
        if focus == 'find':
            c['forced'] = None if rng.random() < .85 else c['forced']
            c['text_only'] = c['add_charset'] = True
            c['ct'] = 'text/plain'
            if c['ac'] is None or not c['ac']:
                c['ac'] = [{'v': 'utf-8', 'q': None, 'ws': 0}]
        return c

    def handmade(self):
        def ae(*items):
            return [{'v': v, 'q': q, 'ws': 0} for v, q in items]
        base = {'fam': 'gzip', 'shape': 'list', 'chunks': [b'ab', b'', b'cd'], 'stream': False, 'cached': False,
                'ct': 'text/plain', 'mime_types': None, 'level': 5, 'now': 1700000000, 'vary': None}
        for spec in [[('gzip', None)], [('deflate', None)], [('*', None)], [('identity', '0')], [('*', '0')],
                     [('gzip', '0')], [('gzip', '0'), ('identity', '0')], [('identity', '0'), ('*', '0.5')],
                     [('x-gzip', None), ('identity', None)], [('gzip', None), ('identity', None)],
                     [('gzip', '0.5'), ('identity', '0.5')], [('gzip', '0'), ('*', '0')], [('GZIP', None)],
                     [('', None)], [('', None), ('', None)], [('identity', '0'), ('gzip', '0.001')],
                     [('br', '1.0'), ('identity', '0.0')], [('*', '0'), ('*', '0.5')]]:
            yield dict(base, ae=ae(*spec))
        yield dict(base, ae=None)
        cb = {'fam': 'charset', 'shape': 'gen', 'chunks': ['ab\xe9', '', '€'], 'stream': False, 'forced': None,
              'default': None, 'text_only': True, 'add_charset': True, 'ct': 'text/plain'}
        for spec in [None, [('utf-8', None)], [('iso-8859-1', None)], [('iso-8859-1', None), ('utf-8', '0.5')],
                     [('utf-8', '0'), ('*', None)], [('*', None)], [('*', '0')], [('bogus-charset', None)],
                     [('us-ascii', '0.5')], [('utf-16', None)], [('utf-8', '0')], [('iso-8859-1', '0')]]:
            for stream in (False, True):
                for shape in ('gen', 'list'):
                    yield dict(cb, ac=None if spec is None else ae(*spec), stream=stream, shape=shape)
        for forced in ('utf-16', 'latin-1', 'bogus'):
            for spec in [None, [('utf-8', None)], [('*', None)], [('UTF-16', None)], [('utf-16', '0')], [('*', '0')]]:
                yield dict(cb, chunks=['abc'], shape='str', forced=forced, ac=None if spec is None else ae(*spec))

    def cases(self):
        rng = self.rng
        quick = self.tier == 'quick'
        out = list(self.handmade())
        n = 900 if quick else 20000
        for _ in range(n):
            out.append(self.gen_gzip(rng))
            out.append(self.gen_gzip(rng, focus='accept'))
            out.append(self.gen_charset(rng))
            out.append(self.gen_charset(rng, focus='find'))
        for _ in range(300 if quick else 6000):
            out.append(self.gen_gzip(rng, focus='frame'))
        for _ in range(300 if quick else 4000):
            out.append(self.gen_gzip(rng, focus='mime'))
        if not quick:
            out += list(self.exhaustive())
        for _ in range(6 if quick else 60):
            out.append(self.gen_gzip(rng, big=True, focus='frame'))
        return out

    def exhaustive(self):
        """all Accept-Encoding headers of <= 3 elements over {gzip, x-gzip, identity, *, deflate} x q in {none, 0, 0.5};
        all Accept-Charset headers of <= 3 elements over {utf-8, iso-8859-1, us-ascii, *} x q in {none, 0, 0.5}
        on a Latin-1 text and a text only utf-8 can encode"""
        import itertools
        qs = [None, '0', '0.5']
        vals = ['gzip', 'x-gzip', 'identity', '*', 'deflate']
        alpha = [{'v': v, 'q': q, 'ws': 0} for v in vals for q in qs]
        base = {'fam': 'gzip', 'shape': 'list', 'chunks': [b'ab', b'', b'cd'], 'stream': False, 'cached': False,
                'mime_types': None, 'level': 6, 'now': 1, 'vary': None}
        for L in (1, 2, 3):
            for combo in itertools.product(alpha, repeat=L):
                for ct in (('text/plain', 'image/png') if L < 3 else ('text/plain',)):
                    yield dict(base, ae=[dict(e) for e in combo], ct=ct)
        vals = ['utf-8', 'iso-8859-1', 'us-ascii', '*']
        alpha = [{'v': v, 'q': q, 'ws': 0} for v in vals for q in qs]
        cb = {'fam': 'charset', 'stream': False, 'forced': None, 'default': None, 'text_only': True,
              'add_charset': True, 'ct': 'text/plain'}
        for L in (1, 2, 3):
            for combo in itertools.product(alpha, repeat=L):
                for chunks in (['caf\xe9', 'x'], ['a', '€']):
                    for shape in (('list', 'gen') if L < 3 else ('list',)):
                        yield dict(cb, ac=[dict(e) for e in combo], chunks=chunks, shape=shape)

    def search_cases(self, around=None):
        for c in around or []:
            yield c
        for _ in range(8000):
            yield self.gen_gzip(self.rng, focus='accept')
            yield self.gen_gzip(self.rng, focus='frame')
            yield self.gen_charset(self.rng, focus='find')

    # ------------------------------------------------------------------ model side
    def enc_table(self, c):
        names = []
        for e in c['ac'] or []:
            names.append(e['v'])
        names += [c['default'] or 'utf-8', 'iso-8859-1']
        if c['forced'] is not None:
            names.append(c['forced'].lower())
        tab, seen = [], set()
        for nm in names:
            if nm in seen:
                continue
            seen.add(nm)
            bits = []
            for ch in eff_chunks(c):
                if isinstance(ch, str):
                    try:
                        ch.encode(nm, 'strict')
                        bits.append(1)
                    except (LookupError, UnicodeError):
                        bits.append(0)
                else:
                    bits.append(1)
            try:
                ''.encode(nm, 'strict')
                usable = 1
            except (LookupError, ValueError):
                usable = 0
            tab.append([nm, bits, usable])
        return tab

    def encode(self, c):
        if c['fam'] == 'gzip':
            mimes = c['mime_types'] if c['mime_types'] is not None else ['text/html', 'text/plain']
            return [0, 1, {'bytes': 0, 'list': 1, 'gen': 2}[c['shape']], [list(x) for x in c['chunks']],
                    bool(c['cached']), model_elems(c['ae']), c['ct'] or '', list(mimes), c['level'], c['now'],
                    self.vary_tokens(c['vary'])]
        ctv = None
        if c['ct'] is not None:
            ctv = [c['ct'].split(';')[0].strip()]
        tab = self.enc_table(c)
        return [1, 1, 1, bool(c['stream']), c['shape'] == 'gen', [1 if isinstance(x, str) else 0 for x in eff_chunks(c)],
                model_elems(c['ac']), [] if c['forced'] is None else [c['forced']], c['default'] or 'utf-8',
                bool(c['text_only']), bool(c['add_charset']), [] if ctv is None else ctv, tab]

    @staticmethod
    def vary_tokens(v):
        return [x.strip() for x in (v or '').split(',') if x.strip()]

    # ------------------------------------------------------------------ implementation side
    def impl(self, c):
        from cherrypy.lib import httputil
        conf = {'response.stream': bool(c['stream'])}
        if c['fam'] == 'gzip':
            conf.update({'tools.gzip.on': True, 'tools.gzip.compress_level': c['level'], 'tools.encode.on': False})
            if c['mime_types'] is not None:
                conf['tools.gzip.mime_types'] = list(c['mime_types'])
            hname, elems = 'Accept-Encoding', c['ae']
        else:
            conf.update({'tools.encode.on': True, 'tools.encode.text_only': bool(c['text_only']),
                         'tools.encode.add_charset': bool(c['add_charset'])})
            if c['forced'] is not None:
                conf['tools.encode.encoding'] = c['forced']
            if c['default'] is not None:
                conf['tools.encode.default_encoding'] = c['default']
            hname, elems = 'Accept-Charset', c['ac']
        key = repr(sorted(conf.items()))
        app = self.apps.get(key)
        if app is None:
            app = self.apps[key] = wsgi.make_app(Root(), {'/': dict(conf)})
        hdr = render_header(elems)
        Root.case = c
        self.faketime.now = c.get('now', 0)
        r = wsgi.call(app, 'GET', '/', [] if hdr is None else [(hname, hdr)])
        body = r['body']
        obs = {'status': r['status'], 'ce': wsgi.header(r, 'Content-Encoding'), 'vary': wsgi.header(r, 'Vary'),
               'ct': wsgi.header(r, 'Content-Type'), 'cl': wsgi.header(r, 'Content-Length'),
               'escaped': r.get('escaped_type') if r['escaped'] else None, 'len': len(body),
               'sha': hashlib.sha1(body).hexdigest(), 'body': body if len(body) <= 2048 else None,
               'head': body[:10], 'tail': body[-8:], 'problems': r['problems']}
        try:
            order = [str(e) for e in httputil.header_elements(hname, (hdr or '').strip())]
        except Exception as e:
            order = ['exception %r' % (e,)]
        obs['order'] = order
        if c['fam'] == 'gzip':
            orig = b''.join(c['chunks'])
            obs['untouched'] = body == orig
            if obs['ce'] is not None or body[:2] == b'\x1f\x8b':
                try:
                    obs['gunzip_ok'] = _gzip.decompress(body) == orig
                    obs['gunzip_err'] = None
                except Exception as e:
                    obs['gunzip_ok'] = False
                    obs['gunzip_err'] = repr(e)[:200]
        return obs

    # ------------------------------------------------------------------ comparison
    def compare(self, c, mo, obs):
        if isinstance(mo, str):
            return 'model driver: ' + mo[:80]
        if c['fam'] == 'gzip':
            dec, status, vary, hdr10, trailer, selfok, order = mo
            self.count('gzip:model-decision:%d' % dec)
            if order != sx.norm(obs['order']):
                return 'element order: model %r impl %r' % (order, obs['order'])
            if status != obs['status']:
                return 'status: model %d (decision %d) impl %r' % (status, dec, obs['status'])
            if status != 200:
                return None
            if (dec == 1) != (obs['ce'] == 'gzip'):
                return 'compress decision: model %d, impl Content-Encoding %r' % (dec, obs['ce'])
            if vary != sx.norm(self.vary_split(obs['vary'])):
                return 'Vary: model %r impl %r' % (vary, obs['vary'])
            if dec == 1:
                if not selfok:
                    return 'model: gunzip(compress chunks) <> concat chunks on the stored-block codec'
                if hdr10 != list(obs['head']):
                    return 'gzip header: model %r impl %r' % (bytes(hdr10), obs['head'])
                if trailer[0] + trailer[1] != list(obs['tail']):
                    return 'gzip trailer (CRC32, ISIZE): model %r impl %r' % (trailer, obs['tail'])
            elif not obs['untouched']:
                return 'model says the body is untouched, impl delivered other bytes'
            return None
        code, name, dropped, sfail, order = mo
        self.count('charset:model-decision:%d' % code)
        if order != sx.norm(obs['order']):
            return 'element order: model %r impl %r' % (order, obs['order'])
        chunks = eff_chunks(c)
        has_text = any(isinstance(x, str) for x in chunks)
        if code == 0:
            if has_text:
                if obs['status'] == 500 or (c['stream'] and obs['problems']):
                    return None
                return 'tool not applicable and str chunks: expected 500, got %r' % obs['status']
            if obs['status'] != 200 or obs['body'] != b''.join(chunks):
                return 'tool not applicable: bytes body not delivered untouched'
            return None
        if code in (406, 500):
            return None if obs['status'] == code else 'status: model %d impl %r' % (code, obs['status'])
        nm = ''.join(map(chr, name))
        if sfail:
            k = sfail[0]
            if not (obs['status'] == 500 or obs['escaped']):
                return 'streamed chunk %d cannot be encoded with %s but the response went through' % (k, nm)
            return None
        if obs['status'] != 200:
            return 'status: model chose %s, impl %r' % (nm, obs['status'])
        if self.announced(obs['ct']) != nm:
            return 'announced charset: model %r impl %r' % (nm, obs['ct'])
        try:
            exp = b''.join(x.encode(nm) if isinstance(x, str) else x for x in chunks[dropped:])
        except Exception as e:
            return 'model chose %s which cannot encode: %r' % (nm, e)
        if exp != obs['body']:
            return 'body: model says chunks[%d:] encoded with %s' % (dropped, nm)
        return None

    @staticmethod
    def vary_split(v):
        return [x.strip() for x in (v or '').split(',') if x.strip()]

    @staticmethod
    def announced(ct):
        m = re.search(r';\s*charset=("?)([^;"]*)\1', ct or '')
        return m.group(2) if m else None

    # ------------------------------------------------------------------ property oracle
    def oracle(self, c, obs):
        return self.oracle_gzip(c, obs) if c['fam'] == 'gzip' else self.oracle_charset(c, obs)

    def oracle_gzip(self, c, obs):
        fails = []
        elems = c['ae'] or []
        if c['ae'] is not None and not render_header(c['ae']).strip():
            elems = []
        mimes = c['mime_types'] if c['mime_types'] is not None else ['text/html', 'text/plain']
        cfgerr = any(s.count('/') > 1 or s.count('+') > 1 for s in list(mimes) + [c['ct'] or ''])
        def coding_q(names):
            ex = [Q1 if e.get('q') is None else qtext_to_int(e['q']) for e in elems if e['v'] in names]
            if ex:
                return max(ex)
            stars = [Q1 if e.get('q') is None else qtext_to_int(e['q']) for e in elems if e['v'] == '*']
            return max(stars) if stars else None
        gz_q = coding_q(('gzip', 'x-gzip')) or 0          # a coding that is not listed is not acceptable
        id_q = coding_q(('identity',))                    # None: not mentioned, acceptable by default
        st = obs['status']
        if obs['escaped'] or obs['problems']:
            fails.append(('gzip:escaped', 'exception reached the server: %s %s' % (obs['escaped'], obs['problems'])))
        if st == 200 and obs['ce'] is not None:
            if obs['ce'] != 'gzip':
                fails.append(('gzip:label', 'Content-Encoding %r' % obs['ce']))
            if not obs.get('gunzip_ok'):
                fails.append(('gzip:invalid-stream', 'the body labelled gzip does not decompress to the original '
                              'bytes (%s)' % obs.get('gunzip_err')))
            if gz_q <= 0:
                fails.append(('gzip:compressed-unaccepted', 'compressed although the client does not accept gzip with q>0'))
            if not mime_ok(c['ct'] or '', mimes):
                fails.append(('gzip:compressed-ineligible', 'compressed although %r matches none of %r' % (c['ct'], mimes)))
            if 'Accept-Encoding' not in self.vary_split(obs['vary']):
                fails.append(('gzip:vary', 'compressed without Vary: Accept-Encoding (%r)' % obs['vary']))
        elif st == 200:
            if not obs['untouched']:
                fails.append(('gzip:identity-altered', 'not compressed but the body is not the original bytes'))
        elif st == 406:
            if id_q is None or id_q > 0:
                fails.append(('gzip:406:identity-not-refused',
                              '406 although the client did not refuse identity (Accept-Encoding: %s)' % render_header(c['ae'])))
            elif gz_q > 0:
                fails.append(('gzip:406:gzip-accepted', '406 although the client accepts gzip (Accept-Encoding: %s)'
                              % render_header(c['ae'])))
        elif not (st == 500 and cfgerr):
            fails.append(('gzip:status', 'unexpected status %r' % st))
        return fails

    def oracle_charset(self, c, obs):
        fails = []
        ctv = (c['ct'] or '').split(';')[0].strip().lower()
        applicable = c['ct'] is not None and c['add_charset'] and (not c['text_only'] or ctv.startswith('text/'))
        chunks = eff_chunks(c)
        texts = [x for x in chunks if isinstance(x, str)]
        alltext = len(texts) == len(chunks)
        st = obs['status']
        if not applicable:
            if not texts and (st != 200 or obs['body'] != b''.join(chunks)):
                fails.append(('charset:bytes-altered', 'bytes body altered although the tool does not apply'))
            return fails
        elems = c['ac'] or []
        present = c['ac'] is not None and bool(render_header(c['ac']).strip())
        default = (c['default'] or 'utf-8')

        def can(nm):
            try:
                ''.encode(nm, 'strict')          # the codec must exist, even for a body without text
                for t in texts:
                    t.encode(nm, 'strict')
                return True
            except (LookupError, ValueError):
                return False

        def q_of(nm):
            nm = nm.lower()
            return eff_q(nm, elems, Q1 if nm == 'iso-8859-1' else 0)

        # the charsets the tool may answer with, each with the client's qvalue for it
        if c['forced'] is not None:
            cands = [(c['forced'], q_of(c['forced']) if present else Q1)]
        elif not present:
            cands = [(default, Q1)]
        else:
            cands = [(e['v'], q_of(e['v'])) for e in elems if e['v'] != '*']
            if any(e['v'] == '*' for e in elems):
                cands.append((default, q_of(default)))
            elif not any(e['v'].lower() == 'iso-8859-1' for e in elems):
                cands.append(('iso-8859-1', 0.5))     # implicit fallback, ranked below every listed charset
        if st == 200:
            ann = self.announced(obs['ct'])
            if ann is None:
                fails.append(('charset:not-announced', 'no charset parameter in Content-Type %r' % obs['ct']))
                return fails
            if obs['escaped']:
                fails.append(('charset:stream-unencodable', 'charset %s announced, then the %s body failed with %s'
                              % (ann, 'streamed' if c['stream'] else 'buffered', obs['escaped'])))
                return fails
            if alltext:
                text = ''.join(texts)
                try:
                    got = obs['body'].decode(ann)
                except Exception as e:
                    got = None
                if got != text:
                    if got is not None and got.replace('﻿', '') == text.replace('﻿', ''):
                        fails.append(('charset:bom-per-chunk', 'body decodes under %s to the text with U+FEFF '
                                      'inserted at chunk boundaries' % ann))
                    elif got is not None and text.endswith(got) and c['shape'] == 'gen':
                        fails.append(('charset:generator-consumed', 'only the tail of the text was delivered: a '
                                      'failed attempt consumed the generator body'))
                    else:
                        fails.append(('charset:lossy', 'body does not decode under %s to the original text' % ann))
            if present:
                al = ann.lower()
                if any(e['v'].lower() == al for e in elems) or any(e['v'] == '*' for e in elems):
                    qa = eff_q(al, elems, 0)
                elif al == 'iso-8859-1':
                    qa = 0.5                          # implicit fallback, ranked below every listed charset
                else:
                    qa = 0
                if not qa or qa <= 0:
                    fails.append(('charset:announced-refused', 'announced charset %s has qvalue 0 in Accept-Charset: %s'
                                  % (ann, render_header(c['ac']))))
                elif not c['stream']:
                    better = [nm for nm, q in cands if q and q > qa and can(nm)]
                    if better:
                        fails.append(('charset:not-most-preferred', 'announced %s (q=%s) although %s is preferred '
                                      'and can encode the text' % (ann, qa, better[0])))
        elif st == 406:
            ok = [nm for nm, q in cands if q and q > 0 and can(nm)]
            if ok:
                fails.append(('charset:406-although-encodable', '406 although %s is acceptable and can encode the '
                              'text (Accept-Charset: %s)' % (ok[0], render_header(c['ac']))))
        elif st == 500:
            if c['stream'] and present:
                fails.append(('charset:stream-unencodable', 'streamed body: charset picked without looking at the '
                              'text, 500 instead of 406 (Accept-Charset: %s)' % render_header(c['ac'])))
            elif present or c['forced'] is not None:
                if not (c['stream'] and not present):
                    fails.append(('charset:500', '500 with Accept-Charset: %s' % render_header(c['ac'])))
        else:
            fails.append(('charset:status', 'unexpected status %r' % st))
        return fails

    def nontrivial(self, c, obs):
        if c['fam'] == 'gzip':
            if not c['ae'] or c['cached']:
                return None
            return ('g', obs['status'], obs['ce'], c['shape'], c['stream'], len(c['ae']),
                    tuple(sorted(set(e['v'] for e in c['ae']))), tuple(e['q'] in (None,) or qtext_to_int(e['q']) > 0
                                                                      for e in c['ae']),
                    c['ct'], c['level'] if obs['ce'] else -1, min(len(c['chunks']), 3))
        if c['ac'] is None and c['forced'] is None:
            return None
        return ('c', obs['status'], (self.announced(obs['ct']) or '').lower(), c['shape'], c['stream'], c['forced'],
                tuple(e['v'].lower() for e in c['ac'] or ()), tuple(e['q'] is None or qtext_to_int(e['q']) > 0
                                                                    for e in c['ac'] or ()),
                tuple(sorted(set(c['chunks']), key=repr))[:2])

    def shrink(self, c, still_fails):
        c = dict(c)
        key = 'ae' if c['fam'] == 'gzip' else 'ac'
        if c[key]:
            c[key] = core.shrink_list(c[key], lambda l: bool(l) and still_fails(dict(c, **{key: l})))
            simple = [dict(e, ws=0, ext='') for e in c[key]]
            if still_fails(dict(c, **{key: simple})):
                c[key] = simple
        if c['shape'] not in ('bytes', 'str'):
            c['chunks'] = core.shrink_list(c['chunks'], lambda l: still_fails(dict(c, chunks=l)))
        if c['fam'] == 'gzip':
            for i, ch in enumerate(list(c['chunks'])):
                if len(ch) > 4:
                    cand = list(c['chunks'])
                    cand[i] = ch[:2]
                    if still_fails(dict(c, chunks=cand)):
                        c['chunks'] = cand
            for k, v in (('vary', None), ('stream', False), ('now', 0)):
                if c[k] != v and still_fails(dict(c, **{k: v})):
                    c[k] = v
        return c

    # ------------------------------------------------------------------ G: constants regenerated from the source
    def ties(self):
        src = open(os.path.join(core.REPO, 'cherrypy', 'lib', 'encoding.py')).read()
        mod = ast.parse(src)
        consts, fn, gz = {}, None, None
        for node in mod.body:
            if isinstance(node, ast.Assign) and isinstance(node.value, ast.Constant) and len(node.targets) == 1:
                consts[node.targets[0].id] = node.value.value
            if isinstance(node, ast.FunctionDef) and node.name == 'compress':
                fn = node
            if isinstance(node, ast.FunctionDef) and node.name == 'gzip':
                gz = node
        if fn is None or gz is None:
            raise RuntimeError('compress/gzip not found')

        helpers = {n.name: n for n in mod.body if isinstance(n, ast.FunctionDef) and len(n.args.args) == 1
                   and not n.args.defaults and not n.decorator_list}

        def call_helper(h, level):
            """a module-level function of the level alone whose body is a chain of `if <param> == CONST: return b'..'`
            ending in `return b'..'`: the bytes it returns for this level"""
            param = h.args.args[0].arg

            def ev(stmts):
                for s in stmts:
                    if isinstance(s, ast.Expr) and isinstance(s.value, ast.Constant):
                        continue
                    if isinstance(s, ast.Return) and isinstance(s.value, ast.Constant) and isinstance(s.value.value, bytes):
                        return s.value.value
                    if isinstance(s, ast.If):
                        t = s.test
                        if not (isinstance(t, ast.Compare) and isinstance(t.left, ast.Name) and t.left.id == param
                                and len(t.ops) == 1 and isinstance(t.ops[0], ast.Eq)
                                and isinstance(t.comparators[0], ast.Name) and t.comparators[0].id in consts):
                            raise RuntimeError('unsupported test in %s: %s' % (h.name, ast.unparse(t)))
                        r = ev(s.body if level == consts[t.comparators[0].id] else s.orelse)
                        if r is not None:
                            return r
                        continue
                    raise RuntimeError('unsupported statement in %s: %s' % (h.name, ast.unparse(s)))
                return None
            r = ev(h.body)
            if r is None:
                raise RuntimeError('%s returns nothing for level %d' % (h.name, level))
            return r

        def header_for(level):
            """interpret the straight-line prefix of compress() up to the first assignment"""
            out = []

            def run(stmts):
                for s in stmts:
                    if isinstance(s, ast.Import) or (isinstance(s, ast.Expr) and isinstance(s.value, ast.Constant)):
                        continue
                    if isinstance(s, ast.Expr) and isinstance(s.value, ast.Yield):
                        v = s.value.value
                        if isinstance(v, ast.Constant) and isinstance(v.value, bytes):
                            out.append(list(v.value))
                            continue
                        if (isinstance(v, ast.Call) and ast.unparse(v.func) == 'struct.pack'
                                and ast.unparse(v.args[0]) == "'<L'"
                                and ast.unparse(v.args[1]) == "int(time.time()) & int('FFFFFFFF', 16)"):
                            out.append('MTIME')
                            continue
                        if (isinstance(v, ast.Call) and isinstance(v.func, ast.Name) and v.func.id in helpers
                                and not v.keywords and [ast.unparse(a) for a in v.args] == ['compress_level']):
                            out.append(list(call_helper(helpers[v.func.id], level)))     # an extracted octet chooser
                            continue
                        raise RuntimeError('unsupported yield: ' + ast.unparse(s))
                    if isinstance(s, ast.If):
                        t = s.test
                        if not (isinstance(t, ast.Compare) and ast.unparse(t.left) == 'compress_level'
                                and len(t.ops) == 1 and isinstance(t.ops[0], ast.Eq)
                                and isinstance(t.comparators[0], ast.Name)):
                            raise RuntimeError('unsupported test: ' + ast.unparse(t))
                        if level == consts[t.comparators[0].id]:
                            r = run(s.body)
                        else:
                            r = run(s.orelse)
                        if r == 'stop':
                            return r
                        continue
                    if isinstance(s, ast.Assign):
                        return 'stop'
                    raise RuntimeError('unsupported statement: ' + ast.unparse(s))
            run(fn.body)
            return out
        lem = ['From Coq Require Import ZArith List.', 'Import ListNotations.',
               'From CV Require Import Lib.Sx Model.M_gzipframe Model.M_negotiate.', 'Open Scope Z_scope.']
        for lv in range(0, 10):
            pieces = header_for(lv)
            term = '; '.join('le32 (Z.land now mask32)' if p == 'MTIME' else '[%s]' % '; '.join(map(str, p))
                             for p in pieces)
            # compared after concatenation: re-chunking the yields is harmless
            lem.append('Lemma tie_header_%d : forall now, concat (gz_header %d now) = concat [%s].\n'
                       'Proof. intros. reflexivity. Qed.' % (lv, lv, term))
        # default mime_types of gzip()
        args = gz.args
        defaults = dict(zip([a.arg for a in args.args][-len(args.defaults):], args.defaults))
        mt = ast.literal_eval(defaults['mime_types'])
        if list(mt) != ['text/html', 'text/plain']:
            raise RuntimeError('default mime_types changed: %r' % (mt,))
        # the loop keeps CRC and size per chunk; the trailer is CRC32 then ISIZE, masked, little-endian
        loop = [x for x in fn.body if isinstance(x, ast.For)]
        n_crc = n_size = None
        it = ast.unparse(loop[0].target) if loop else None
        for st in (loop[0].body if loop else []):
            if (isinstance(st, ast.AugAssign) and isinstance(st.op, ast.Add)
                    and ast.unparse(st.value) == 'len(%s)' % it):
                n_size = ast.unparse(st.target)
            if (isinstance(st, ast.Assign) and isinstance(st.value, ast.Call)
                    and ast.unparse(st.value.func) == 'zlib.crc32' and len(st.value.args) == 2
                    and ast.unparse(st.value.args[0]) == it
                    and ast.unparse(st.value.args[1]) == ast.unparse(st.targets[0])):
                n_crc = ast.unparse(st.targets[0])
        tail = [ast.unparse(x.value.value) for x in fn.body[-2:]
                if isinstance(x, ast.Expr) and isinstance(x.value, ast.Yield)]
        want = ["struct.pack('<L', %s & int('FFFFFFFF', 16))" % n_crc,
                "struct.pack('<L', %s & int('FFFFFFFF', 16))" % n_size]
        obl = [core.Obligation('G:compress-loop-and-trailer(size += len(chunk), crc = crc32(chunk, crc) per chunk; '
                               'the source yields CRC32 then ISIZE, masked, little-endian)',
                               n_crc is not None and n_size is not None and tail == want,
                               repr((n_crc, n_size, tail)))]
        lem.append('Lemma tie_mask : mask32 = %d. Proof. reflexivity. Qed.' % int('FFFFFFFF', 16))
        ok, out = core.coq_check_text('Tie_C17', '\n'.join(lem) + '\n')
        obl.append(core.Obligation('G:tie_header_0..9,tie_mask(gz_header = the constants compress() yields, regenerated '
                                   'from the source)', ok, '' if ok else out))
        return obl


CHECK = C17
