"""C16 - conditional and range requests obey their validators and byte ranges.

Two kinds of cases:
  'gr'    httputil.get_ranges(header, length) called directly (cheap: dense / exhaustive);
  'http'  a whole request through vcheck.impl.wsgi against
            file  a handler calling static.serve_file on a file under .work/C16/files (optional ETag header),
            sdir  the same files through tools.staticdir,
            gen   a handler returning bytes (optional Last-Modified + validate_since), tools.etags.autotags.
The model (coq/Model/M_ranges.v, M_validators.v) is run in its *repaired* configuration
(f_strict, f_clamp); C16_VARIANT=written|A|B selects the other ones (development aid: the
as-written model must agree with the unrepaired code)."""
import email.utils
import hashlib
import itertools
import mimetypes
import os
import re

from .. import core, sx
from ..impl import wsgi

WORKDIR = os.path.join(core.WORK, 'C16', 'files')
METHODS = {'GET': 0, 'HEAD': 1, 'POST': 2}
OWS = ' \t'
W = ('whole',)
UNSAT = ('unsat',)
VARIANTS = {'fixed': (1, 1), 'written': (0, 0), 'A': (1, 0), 'B': (0, 1)}
BOUNDARY = '===============0123456789012345678=='
CUR = {}


# ---------------------------------------------------------------------------
# resources

_content_cache = {}


def content_of(n, pat):
    key = (n, pat)
    c = _content_cache.get(key)
    if c is None:
        if pat == 0:
            unit = b'Hello, world\r\n'
        elif pat == 1:
            unit = bytes((i * 7 + 3) & 0xFF for i in range(256)) + bytes((i * 13 + 1) & 0xFF for i in range(251))
        else:
            unit = b'\r\n--=====\r\nContent-range: bytes 0-0/1\r\n\r\n-'
        c = (unit * (n // len(unit) + 1))[:n]
        if len(_content_cache) > 64:
            _content_cache.clear()
        _content_cache[key] = c
    return c


def mtime_of(pat):
    return 1600000000 + 86400 * pat + pat


def lastmod_of(pat):
    return email.utils.formatdate(mtime_of(pat), usegmt=True)


def file_of(n, pat):
    os.makedirs(WORKDIR, exist_ok=True)
    p = os.path.join(WORKDIR, 'f_%d_%d.bin' % (n, pat))
    data = content_of(n, pat)
    try:
        st = os.stat(p)
        ok = st.st_size == n and int(st.st_mtime) == mtime_of(pat)
    except OSError:
        ok = False
    if not ok:
        with open(p, 'wb') as f:
            f.write(data)
        os.utime(p, (mtime_of(pat), mtime_of(pat)))
    return p


def md5tag(data):
    return '"%s"' % hashlib.md5(data).hexdigest()


# ---------------------------------------------------------------------------
# reference semantics, written from RFC 7233 section 2.1 / the property text

SPEC_RE = re.compile(r'([0-9]*)([ \t]*)-([ \t]*)([0-9]*)')


def sem_specs(specs, n):
    """specs: list of (first|None, last|None); returns the set of acceptable outcomes"""
    bad = [(f, l) for f, l in specs if f is not None and l is not None and l < f]
    if any(f < n for f, l in bad):
        return {W}
    outs = set()
    if bad:
        outs.add(W)           # the text does not say which of "invalid" and "beyond EOF" is looked at first
        specs = [s for s in specs if s not in bad]
    sl = []
    for f, l in specs:
        if f is None:
            k = min(l, n)
            if k > 0:
                sl.append((n - k, n))
        elif f < n:
            sl.append((f, n if l is None else min(l + 1, n)))
    outs.add(('parts', tuple(sl)) if sl else UNSAT)
    if n == 0 and any(f is None and l > 0 for f, l in specs):
        outs.add(W)           # a non-empty suffix of an empty entity: RFC 7233 calls it satisfiable, no truthful 206 exists
    return outs


def ref_range(h, n):
    """set of acceptable outcomes for Range header h on an entity of n bytes:
    ('whole',) = header ignored | ('unsat',) = 416 | ('parts', ((a, b), ...)) = 206 with these slices.
    Second result: 'valid' | 'lenient' | 'invalid' | 'absent'."""
    if not h:
        return {W}, 'absent'
    if '=' not in h:
        return {W}, 'invalid'
    unit, rest = h.split('=', 1)
    lenient = False
    if unit.lower() != 'bytes':
        if unit.strip(OWS).lower() == 'bytes' or re.fullmatch(r"[!#$%&'*+.^_`|~0-9A-Za-z-]+", unit):
            lenient = True    # blanks around the unit / another range unit: may be ignored
        else:
            return {W}, 'invalid'
    specs = []
    for el in rest.split(','):
        e = el.strip(OWS)
        if e == '':
            lenient = True    # empty list element (RFC 7230 section 7 lets a recipient skip it)
            continue
        m = SPEC_RE.fullmatch(e)
        if not m or (m.group(1) == '' and m.group(4) == ''):
            return {W}, 'invalid'
        if m.group(2) or m.group(3):
            lenient = True    # blanks around '-': not in the grammar, harmless
        specs.append((int(m.group(1)) if m.group(1) else None, int(m.group(4)) if m.group(4) else None))
    if not specs:
        return {W}, 'invalid'
    outs = sem_specs(specs, n)
    if lenient:
        outs = outs | {W}
    return outs, ('lenient' if lenient else 'valid')


TAG_RE = re.compile(r'(?:W/)?"[^"]*"')


def tag_list(v):
    """the members of an If-Match / If-None-Match list: entity-tags (quoted, optionally weak) or bare tokens"""
    out, i, n = [], 0, len(v)
    while True:
        while i < n and v[i] in OWS:
            i += 1
        m = TAG_RE.match(v, i)
        if m:
            tok, i = m.group(0), m.end()
        else:
            j = v.find(',', i)
            j = n if j < 0 else j
            tok, i = v[i:j].strip(OWS), j
        out.append(tok)
        j = v.find(',', i)
        if j < 0:
            return out
        i = j + 1


def cond_allowed(c, etags, lastmod, may_be_non2xx):
    """set of acceptable dispositions {'pass', 304, 412} according to the decision table of the property text.
    etags: candidate current entity tags (None = the resource has none) or () when ETag validation does not apply."""
    res = set()
    safe = c['method'] in ('GET', 'HEAD')
    for cur in (etags or [Ellipsis]):
        t412 = t304 = False
        if cur is not Ellipsis:
            im, inm = c.get('im'), c.get('inm')
            if im:
                tl = tag_list(im)
                if not (im.strip(OWS) == '*' or (cur is not None and cur in tl)):
                    t412 = True
            if inm:
                tl = tag_list(inm)
                if inm.strip(OWS) == '*' or (cur is not None and cur in tl):
                    t304 = True
        if lastmod:
            if c.get('ius') and c['ius'] != lastmod:
                t412 = True
            if c.get('ims') and c['ims'] == lastmod:
                t304 = True
        if not t412 and not t304:
            res.add('pass')
        if t412:
            res.add(412)
        if t304:
            res.add(304 if safe else 412)
    if may_be_non2xx:
        res.add('pass')       # validators apply to what would be a 2xx only
    return res


def decode_multipart(body, boundary):
    """-> list of (headers dict, data) or None when the framing is broken"""
    delim = b'\r\n--' + boundary.encode('latin-1')
    segs = body.split(delim)
    if len(segs) < 2 or segs[0] != b'' or segs[-1] not in (b'--\r\n', b'--'):
        return None
    parts = []
    for s in segs[1:-1]:
        if not s.startswith(b'\r\n'):
            return None
        head, sep, data = s[2:].partition(b'\r\n\r\n')
        if not sep:
            return None
        hd = {}
        for line in head.split(b'\r\n'):
            k, _, v = line.partition(b':')
            hd[k.strip().lower().decode('latin-1')] = v.strip().decode('latin-1')
        parts.append((hd, data))
    return parts


CR_RE = re.compile(r'bytes ([0-9]+)-([0-9]+)/([0-9]+)')


# ---------------------------------------------------------------------------

class C16(core.Check):
    pid = 'C16'
    props_files = ('Props/C16.v',)
    refuted_files = ('Refuted/R_C16.v',)
    model_fn = ('run_C16', 'Model.M_validators')
    xcheck_n = 60
    rule = ('Range headers from the RFC 7233 byte-range grammar (first-last, first-, -suffix, lists of 1..5, overlapping, '
            'out of order, beyond EOF, blanks) and character-level mutations of them, on entity lengths 0..70000 '
            '(dense below 20 and around 65536), directly through httputil.get_ranges and as whole requests '
            '{GET, HEAD, POST} x {HTTP/1.0, 1.1} against a static file (handler + serve_file, tools.staticdir) and a '
            'handler-generated body with tools.etags.autotags; every subset of If-Match / If-None-Match / '
            'If-Modified-Since / If-Unmodified-Since with matching, non-matching, *, weak and list validators. '
            'A case is non-trivial when it reaches a 206/416/304/412 or a non-empty slice list; distinct by '
            '(kind, resource, method, protocol, status, number of parts, header class, conditionals present).')
    assumptions = (
        'header values are what a WSGI server delivers: code points < 256, stripped, no RFC 2047 encoded words',
        'If-Match / If-None-Match values contain no ";" (HeaderElement parameter parsing is not modelled: the model answers Unsupported)',
        'numbers in a Range header have fewer than 4300 digits (CPython int() limit)',
        'the file is not modified while it is served (st_size = length of the content read)',
        'the ETag of a handler-generated body is its MD5 tag as computed by tools.etags.autotags (hashlib is trusted)',
    )

    def __init__(self, tier, seed):
        super().__init__(tier, seed)
        self.variant = os.environ.get('C16_VARIANT', 'fixed')
        self.flags = list(VARIANTS[self.variant])
        self.app = None
        self.ctype = mimetypes.types_map.get('.bin', 'application/octet-stream')
        if self.variant != 'fixed':
            self.notes.append('C16_VARIANT=%s: model run with flags %r' % (self.variant, self.flags))
        self.notes += [
            'interpretation: a byte-range-spec with last < first makes the header invalid (ignored); if its first-byte-pos '
            'is also beyond EOF both "ignored" and "dropped as unsatisfiable" are accepted',
            'interpretation: "-0" and a suffix range on an empty entity select no byte: counted unsatisfiable (416); '
            'for the empty entity the whole (empty) 200 is accepted too',
            'interpretation: blanks around "-", empty list elements, blanks around the unit and range units other than '
            '"bytes" may be honoured or ignored (the text only fixes the byte-range grammar and its invalid mutations)',
            'interpretation: when a 412-type and a 304-type condition fire together either status is accepted; '
            'validators are compared as strings (dates too), weak tags included',
            'interpretation: with tools.etags.autotags the tag exists for a 200 only; for a 206 both "no tag" and the MD5 '
            'tag of the whole entity are accepted as current validator',
        ]

    # ---------------- G: constants of the anchored code the model relies on ----------------
    def ties(self):
        """regenerated from the sources with ast on every run, checked by the kernel:
        the entity headers a 304 loses include Content-Range/-Length/-Type and its body is None (obs_304);
        clean_headers keeps Content-Range for 416 only (obs_err); the methods that get 304 rather than 412
        are exactly GET and HEAD (safe_method, METHODS coding 0/1); file_generator_limited stops at count."""
        import ast

        def src(rel):
            return ast.parse(open(os.path.join(core.REPO, rel)).read())

        def func(tree, name, cls=None):
            for node in ast.walk(tree):
                if cls and isinstance(node, ast.ClassDef) and node.name == cls:
                    return func(node, name)
                if not cls and isinstance(node, ast.FunctionDef) and node.name == name:
                    return node
            raise LookupError(name)

        def coq_str(x):
            return '[' + ';'.join(str(ord(ch)) for ch in x) + ']'

        def coq_strs(xs):
            return '[' + '; '.join(coq_str(x) for x in xs) + ']'

        err = src('cherrypy/_cperror.py')
        stripped, body_none = None, False
        for node in ast.walk(func(err, 'set_response', 'HTTPRedirect')):
            if isinstance(node, ast.If) and isinstance(node.test, ast.Compare) and \
                    isinstance(node.test.comparators[0], ast.Constant) and node.test.comparators[0].value == 304 \
                    and isinstance(node.test.ops[0], ast.Eq):
                for sub in node.body:
                    if isinstance(sub, ast.For) and isinstance(sub.iter, (ast.Tuple, ast.List)) and \
                            any(isinstance(x, ast.Delete) for x in ast.walk(sub)):
                        stripped = [e.value for e in sub.iter.elts]
                    if isinstance(sub, ast.Assign) and ast.unparse(sub.targets[0]) == 'response.body' and \
                            isinstance(sub.value, ast.Constant) and sub.value.value is None:
                        body_none = True
        if stripped is None:
            raise LookupError('304 branch of HTTPRedirect.set_response')
        keep416 = None
        for node in ast.walk(func(err, 'clean_headers')):
            if isinstance(node, ast.If) and ast.unparse(node.test) == 'status != 416' and \
                    "del respheaders['Content-Range']" in ast.unparse(node):
                keep416 = True
        tools = src('cherrypy/lib/cptools.py')
        safe = []
        for fn in ('validate_etags', 'validate_since'):
            for node in ast.walk(func(tools, fn)):
                if isinstance(node, ast.If) and isinstance(node.test, ast.Compare) and \
                        ast.unparse(node.test.left) == 'request.method' and isinstance(node.test.ops[0], ast.In):
                    raises = [ast.unparse(x.exc) for x in node.body if isinstance(x, ast.Raise)]
                    oraises = [ast.unparse(x.exc) for x in node.orelse if isinstance(x, ast.Raise)]
                    if not (raises and '304' in raises[0] and oraises and '412' in oraises[0]):
                        raise LookupError('%s: 304/412 split by method' % fn)
                    safe.append([e.value for e in node.test.comparators[0].elts])
        if len(safe) != 2:
            raise LookupError('method tests in validate_etags/validate_since: %r' % (safe,))
        text = '\n'.join([
            'From Coq Require Import ZArith List Bool.', 'From CV Require Import Lib.ListZ.', 'Import ListNotations.',
            'Open Scope Z_scope.',
            'Definition gen_304_stripped : list (list Z) := %s.' % coq_strs(stripped),
            'Definition gen_304_body_none : bool := %s.' % ('true' if body_none else 'false'),
            'Definition gen_keeps_content_range_on_416_only : bool := %s.' % ('true' if keep416 else 'false'),
            'Definition gen_safe_etags : list (list Z) := %s.' % coq_strs(safe[0]),
            'Definition gen_safe_since : list (list Z) := %s.' % coq_strs(safe[1]),
            'Lemma tie_304_strips : forallb (fun h => existsb (eqbZs h) gen_304_stripped) %s = true.'
            % coq_strs(['Content-Range', 'Content-Length', 'Content-Type']),
            'Proof. vm_compute; reflexivity. Qed.',
            'Lemma tie_304_body : gen_304_body_none && gen_keeps_content_range_on_416_only = true.',
            'Proof. vm_compute; reflexivity. Qed.',
            'Lemma tie_safe_methods : gen_safe_etags = %s /\\ gen_safe_since = %s.'
            % (coq_strs(['GET', 'HEAD']), coq_strs(['GET', 'HEAD'])),
            'Proof. split; vm_compute; reflexivity. Qed.', ''])
        ok, out = core.coq_check_text('Tie_C16', text)
        return [core.Obligation('tie:%s(regenerated from cherrypy/_cperror.py, cherrypy/lib/cptools.py)' % n, ok,
                                '' if ok else out) for n in ('tie_304_strips', 'tie_304_body', 'tie_safe_methods')]

    # ---------------- generation ----------------
    def gen_num(self, rng, n, big=True):
        ch = rng.random()
        if ch < .55:
            v = rng.choice([0, 1, 2, max(n - 2, 0), max(n - 1, 0), n, n + 1, 2 * n + 1, n // 2, n // 3])
        elif ch < .9 or not big:
            v = rng.randrange(0, n + 6)
        elif ch < .95:
            v = rng.choice([65535, 65536, 65537, 70000, 2 ** 31, 2 ** 63 - 1, 2 ** 64, 10 ** 21 + 7])
        else:
            v = rng.randrange(0, 10 * n + 100)
        s = str(v)
        if rng.random() < .05:
            s = '0' * rng.randrange(1, 3) + s
        return s

    def gen_spec(self, rng, n):
        k = rng.random()
        if k < .5:
            a = self.gen_num(rng, n)
            b = self.gen_num(rng, n)
            if rng.random() < .8 and int(b) < int(a):
                a, b = b, a
            return a + '-' + b
        if k < .75:
            return self.gen_num(rng, n) + '-'
        return '-' + self.gen_num(rng, n)

    def gen_range(self, rng, n, ws=True):
        k = rng.choice([1, 1, 1, 2, 2, 3, 5])
        specs = [self.gen_spec(rng, n) for _ in range(k)]
        if ws and rng.random() < .3:
            specs = [rng.choice(['', ' ', '\t', '  ']) + s + rng.choice(['', ' ', '\t']) for s in specs]
        if ws and rng.random() < .08:
            specs = [s.replace('-', rng.choice([' -', '- ', ' - ']), 1) for s in specs]
        return 'bytes=' + ','.join(specs)

    MUT_ALPHA = list('0123456789') + ['-', '-', ',', ',', '=', '+', '_', 'x', ' ', '\t', '\xa0', '\x0b', '\x85', '.', 'e',
                                      '*', '/', ';', 'bytes', 'B', '--', ',,', '\xb2', '0x', 'items', '']

    def mutate(self, rng, h):
        for _ in range(rng.choice([1, 1, 1, 2, 3])):
            k = rng.random()
            i = rng.randrange(0, len(h) + 1)
            if k < .35 and h:
                i = min(i, len(h) - 1)
                h = h[:i] + h[i + 1:]
            elif k < .75:
                h = h[:i] + rng.choice(self.MUT_ALPHA) + h[i:]
            elif h:
                i = min(i, len(h) - 1)
                h = h[:i] + rng.choice(self.MUT_ALPHA) + h[i + 1:]
        h = h.strip()       # a server strips the field value
        if '=?' in h or '\r' in h or '\n' in h:
            h = h.replace('=?', '=').replace('\r', '').replace('\n', '')
        return h

    FIXED_RANGES = ['bytes=abc', 'bytes', 'bytes=1-2x', 'bytes=0-100,2-3', 'bytes=-0', 'bytes=--5', 'bytes=+1-5',
                    'bytes=1_0-1_2', 'items=0-3', 'bytes=0-1,,2-3', 'bytes=2-1', 'bytes=20-10', 'bytes= 1 - 3 , -2',
                    'bytes=\xa01-3', 'bytes=2-5', 'bytes=20-', 'bytes=-100', 'BYTES=0-0', 'bytes=4-6,2-5', 'bytes=-5',
                    'bytes=0-', 'bytes=0-0', 'bytes=', 'bytes=-', 'bytes=,', '=0-1', 'bytes==0-1', 'bytes=0-1=',
                    'bytes=1-2-3', 'bytes=0-0,1-1,2-2,3-3,4-4', 'bytes=5-,0-', 'bytes=-1,-2,-3', 'bytes =0-1',
                    'bytes=0 -1', 'bytes=0-1 ,2-3', 'bytes=0-1, 2-3', 'bytes=0-1,', ',bytes=0-1', 'bytes=00-01',
                    'bytes=0-99999999999999999999999', 'bytes=99999999999999999999999-', 'bytes=-99999999999999999999999']

    LENGTHS_SMALL = [0, 1, 2, 3, 4, 5, 6, 7, 10, 14, 15, 16]
    LENGTHS_BIG = [255, 256, 1000, 4096, 65535, 65536, 65537, 70000]

    def gen_len(self, rng):
        k = rng.random()
        if k < .7:
            return rng.choice(self.LENGTHS_SMALL)
        if k < .93:
            return rng.randrange(0, 300)
        return rng.choice(self.LENGTHS_BIG)

    def gen_header(self, rng, n):
        """-> (header, 'grammar' | 'mutant' | 'fixed')"""
        k = rng.random()
        if k < .6:
            return self.gen_range(rng, n), 'grammar'
        if k < .92:
            return self.mutate(rng, self.gen_range(rng, n)), 'mutant'
        return rng.choice(self.FIXED_RANGES), 'fixed'

    def gr_case(self, h, n, src):
        return {'k': 'gr', 'h': h, 'n': n, 'src': src}

    def cond_values(self, rng, kind, cur, lastmod):
        """the choices for one conditional header given the current validator"""
        other = '"%032x"' % rng.getrandbits(128) if rng.random() < .5 else '"xyz"'
        if kind in ('im', 'inm'):
            curs = cur if cur is not None else '"nothing"'
            return {'match': curs, 'nonmatch': other, 'star': '*', 'weak': 'W/' + curs,
                    'list_with': '%s, %s,%s' % (other, curs, '"q"'), 'list_without': '%s, "q", W/%s' % (other, curs),
                    'list_star': '*, ' + curs, 'unquoted': curs.strip('"'), 'comma_in_tag': '"a,b", ' + curs,
                    'blank': ''}
        lm = lastmod or 'Sun, 13 Sep 2020 12:26:40 GMT'
        return {'equal': lm, 'different': 'Sat, 29 Oct 1994 19:43:31 GMT', 'later': 'Fri, 01 Jan 2100 00:00:00 GMT',
                'lower': lm.lower(), 'garbage': 'yesterday', 'blank': ''}

    COND_MAIN = {'im': ['match', 'nonmatch', 'star', 'weak', 'list_with', 'list_without'],
                 'inm': ['match', 'nonmatch', 'star', 'weak', 'list_with', 'list_without'],
                 'ims': ['equal', 'different'], 'ius': ['equal', 'different']}
    COND_EXTRA = {'im': ['list_star', 'unquoted', 'comma_in_tag', 'blank'],
                  'inm': ['list_star', 'unquoted', 'comma_in_tag', 'blank'],
                  'ims': ['later', 'lower', 'garbage', 'blank'], 'ius': ['later', 'lower', 'garbage', 'blank']}

    def resource(self, rng, res=None, n=None):
        """a resource description (the part of a case that does not come from the request)"""
        res = res or rng.choice(['file', 'file', 'sdir', 'gen', 'gen'])
        n = self.gen_len(rng) if n is None else n
        pat = rng.choice([0, 0, 1, 2])
        r = {'res': res, 'n': n, 'pat': pat, 'etags': 0, 'autotags': 0, 'etag_set': None, 'glm': None}
        if res == 'file':
            r['etags'] = rng.choice([0, 1, 1, 1])
            if r['etags']:
                r['autotags'] = rng.choice([0, 0, 1])
                if not r['autotags'] or rng.random() < .3:
                    r['etag_set'] = rng.choice(['"v1"', '"%s"' % ('e' * 32), 'W/"v1"', '"a,b"', '"x y"'])
                if rng.random() < .1:
                    r['etag_set'] = None
                if not r['autotags'] and rng.random() < .3:
                    r['stream'] = 1
        elif res == 'sdir':
            r['etags'] = rng.choice([0, 1])
            r['autotags'] = r['etags'] and rng.choice([0, 1])
        else:
            r['etags'] = 1
            r['autotags'] = 1
            if rng.random() < .5:
                r['glm'] = lastmod_of(pat)
            if rng.random() < .15:
                r['etag_set'] = '"manual"'
        return r

    def current(self, r):
        """(etag the resource shows on a 200, Last-Modified) as the harness knows them"""
        data = content_of(r['n'], r['pat'])
        cur = r['etag_set'] if r['etag_set'] else (md5tag(data) if r['etags'] and r['autotags'] else None)
        lm = lastmod_of(r['pat']) if r['res'] in ('file', 'sdir') else r['glm']
        return cur, lm

    def http_case(self, rng, r, method=None, proto=None, rng_h=Ellipsis, conds=None, src='random'):
        c = dict(r)
        c['k'] = 'http'
        c['method'] = method or rng.choice(['GET', 'GET', 'GET', 'HEAD', 'POST'])
        if c['res'] == 'sdir' and c['method'] == 'POST':
            c['res'] = 'file'     # tools.staticdir leaves anything but GET/HEAD to the page handler
        c['proto'] = proto or rng.choice(['HTTP/1.1', 'HTTP/1.1', 'HTTP/1.1', 'HTTP/1.0'])
        if rng_h is Ellipsis:
            if rng.random() < .75 and r['res'] != 'gen' or rng.random() < .2:
                rng_h, src2 = self.gen_header(rng, r['n'])
                src = src + ':' + src2
            else:
                rng_h = None
        c['range'] = rng_h
        cur, lm = self.current(r)
        c['conds'] = conds if conds is not None else {}
        for k in ('im', 'inm', 'ims', 'ius'):
            c[k] = None
        if conds is None:
            p = rng.choice([0, 0, .25, .5])
            for k in ('im', 'inm', 'ims', 'ius'):
                if rng.random() < p:
                    pool = self.COND_MAIN[k] * 3 + self.COND_EXTRA[k]
                    c['conds'][k] = rng.choice(pool)
        for k, v in c['conds'].items():
            c[k] = self.cond_values(rng, k, cur, lm)[v]
        c['real_boundary'] = rng.random() < .1
        c['src'] = src
        return c

    def cases(self):
        rng = self.rng
        quick = self.tier == 'quick'
        out = []
        # direct get_ranges: the listed headers on a few lengths, then generated ones
        for h in self.FIXED_RANGES:
            for n in (0, 1, 8, 14):
                out.append(self.gr_case(h, n, 'fixed'))
        for _ in range(14000 if quick else 200000):
            n = self.gen_len(rng)
            h, src = self.gen_header(rng, n)
            out.append(self.gr_case(h, n, src))
        # whole requests: the listed headers against the 14-byte and the empty file
        for h in self.FIXED_RANGES:
            for n in (14, 0):
                r = {'res': 'file', 'n': n, 'pat': 0, 'etags': 0, 'autotags': 0, 'etag_set': None, 'glm': None}
                out.append(self.http_case(rng, r, 'GET', 'HTTP/1.1', h, {}, 'fixed'))
        # HTTP/1.0 always whole
        for h in self.FIXED_RANGES[:12]:
            r = {'res': 'sdir', 'n': 14, 'pat': 0, 'etags': 0, 'autotags': 0, 'etag_set': None, 'glm': None}
            out.append(self.http_case(rng, r, rng.choice(['GET', 'HEAD']), 'HTTP/1.0', h, {}, 'fixed'))
        # every subset of the four conditionals x main validator kinds
        out += self.cond_enumeration(rng, quick)
        # random products
        for _ in range(6000 if quick else 70000):
            out.append(self.http_case(rng, self.resource(rng)))
        # big entities
        for n in self.LENGTHS_BIG[4:] if quick else self.LENGTHS_BIG * 3:
            r = self.resource(rng, rng.choice(['file', 'sdir']), n)
            h = rng.choice(['bytes=0-0,%d-%d' % (n - 1, n + 5), 'bytes=-%d' % (n - 1), 'bytes=65535-65536',
                            'bytes=1-%d,0-65536' % (n * 2), self.gen_range(rng, n)])
            out.append(self.http_case(rng, r, 'GET', 'HTTP/1.1', h, {}, 'big'))
        # slices longer than the 64 KiB read size of the file generator that end before EOF (single and in lists)
        for h in ['bytes=0-65999', 'bytes=3000-69000', 'bytes=0-65536', 'bytes=1-65537', 'bytes=0-0,2-66000',
                  'bytes=100-66100,5-9', 'bytes=-69999', 'bytes=4464-'] * (1 if quick else 3):
            r = self.resource(rng, rng.choice(['file', 'sdir']), 70000)
            out.append(self.http_case(rng, r, 'GET', 'HTTP/1.1', h, {}, 'big'))
        if not quick:
            out += list(self.exhaustive())
        for c in out:
            self.count('kind:' + c['k'])
            self.count('src:' + c['src'].split(':')[-1])
            n = c['n']
            self.count('len:' + ('0' if n == 0 else '1-16' if n <= 16 else '17-299' if n < 300 else '300-65535'
                                 if n < 65536 else '65536-70000'))
            if c['k'] == 'http':
                self.count('res:%s/etags=%d/autotags=%d' % (c['res'], c['etags'], c['autotags']))
                self.count('method:' + c['method'])
                self.count('proto:' + c['proto'])
                self.count('conditionals:%d' % len(c['conds']))
                for k, v in c['conds'].items():
                    self.count('cond:%s=%s' % (k, v))
            h = c['h'] if c['k'] == 'gr' else c['range']
            self.count('rangeclass:' + ref_range(h, n)[1])
        return out

    def cond_enumeration(self, rng, quick):
        out = []
        resources = [
            {'res': 'file', 'n': 14, 'pat': 0, 'etags': 1, 'autotags': 0, 'etag_set': '"v1"', 'glm': None},
            {'res': 'gen', 'n': 14, 'pat': 0, 'etags': 1, 'autotags': 1, 'etag_set': None, 'glm': lastmod_of(0)},
        ]
        if not quick:
            resources += [
                {'res': 'sdir', 'n': 5, 'pat': 1, 'etags': 1, 'autotags': 1, 'etag_set': None, 'glm': None},
                {'res': 'gen', 'n': 0, 'pat': 0, 'etags': 1, 'autotags': 1, 'etag_set': None, 'glm': None},
                {'res': 'file', 'n': 3, 'pat': 2, 'etags': 1, 'autotags': 0, 'etag_set': 'W/"v1"', 'glm': None},
                {'res': 'file', 'n': 3, 'pat': 2, 'etags': 1, 'autotags': 0, 'etag_set': None, 'glm': None},
            ]
        opts = {k: [None] + self.COND_MAIN[k] for k in ('im', 'inm', 'ims', 'ius')}
        for r in resources:
            for combo in itertools.product(opts['im'], opts['inm'], opts['ims'], opts['ius']):
                conds = {k: v for k, v in zip(('im', 'inm', 'ims', 'ius'), combo) if v is not None}
                for method in ('GET', 'HEAD', 'POST'):
                    protos = ('HTTP/1.1', 'HTTP/1.0')
                    if quick and method != 'GET':
                        protos = ('HTTP/1.1',)      # quick tier: both protocols for GET only
                    for proto in protos:
                        rh = None
                        if r['res'] != 'gen' and rng.random() < .25:
                            rh = rng.choice(['bytes=2-5', 'bytes=0-0,-1', 'bytes=99-', 'bytes=x'])
                        out.append(self.http_case(rng, r, method, proto, rh, dict(conds), 'cond-enum'))
        return out

    def exhaustive(self):
        """lengths <= 6, headers of <= 2 specs with bounds <= 7: directly and as requests"""
        nums = [str(i) for i in range(8)]
        specs = [a + '-' + b for a in nums for b in nums] + [a + '-' for a in nums] + ['-' + a for a in nums]
        r0 = {'res': 'file', 'pat': 0, 'etags': 0, 'autotags': 0, 'etag_set': None, 'glm': None}
        for n in range(7):
            r = dict(r0, n=n)
            for s1 in specs:
                h = 'bytes=' + s1
                yield self.gr_case(h, n, 'exhaustive')
                yield self.http_case(self.rng, r, 'GET', 'HTTP/1.1', h, {}, 'exhaustive')
                for s2 in specs:
                    h = 'bytes=' + s1 + ',' + s2
                    yield self.gr_case(h, n, 'exhaustive')
                    yield self.http_case(self.rng, r, 'GET', 'HTTP/1.1', h, {}, 'exhaustive')

    def search_cases(self, around=None):
        rng = self.rng
        for c in around or []:
            yield c
        for _ in range(20000):
            n = self.gen_len(rng)
            h, src = self.gen_header(rng, n)
            yield self.gr_case(h, n, src)
            yield self.http_case(rng, self.resource(rng))

    # ---------------- model side ----------------
    def encode(self, c):
        if c['k'] == 'gr':
            return [0, self.flags, [c['h']] if c['h'] is not None else None, c['n']]
        data = content_of(c['n'], c['pat'])
        cur, lm = self.current(c)

        def opt(v):
            return None if v is None else [v]
        return [1, self.flags,
                [METHODS.get(c['method'], 2), c['proto'] == 'HTTP/1.1', c['res'] != 'gen', c['etags'], c['autotags']],
                [opt(c['range']), opt(c['im']), opt(c['inm']), opt(c['ims']), opt(c['ius'])],
                data, self.ctype, BOUNDARY, opt(lm), opt(c['etag_set']), md5tag(data)]

    # ---------------- implementation side ----------------
    def setup(self):
        import cherrypy
        from cherrypy.lib import static, cptools
        os.makedirs(WORKDIR, exist_ok=True)
        ctype = self.ctype

        class Root:
            @cherrypy.expose
            def f(self):
                if CUR['etag_set'] is not None:
                    cherrypy.response.headers['ETag'] = CUR['etag_set']
                return static.serve_file(CUR['path'], ctype)
            f0 = f1 = f2 = f1s = f

            @cherrypy.expose
            def g(self):
                if CUR['etag_set'] is not None:
                    cherrypy.response.headers['ETag'] = CUR['etag_set']
                cherrypy.response.headers['Content-Type'] = ctype
                if CUR['glm'] is not None:
                    cherrypy.response.headers['Last-Modified'] = CUR['glm']
                    cptools.validate_since()
                return CUR['content']
            g2 = g

        e1 = {'tools.etags.on': True}
        e2 = {'tools.etags.on': True, 'tools.etags.autotags': True}
        sd = {'tools.staticdir.on': True, 'tools.staticdir.dir': WORKDIR}
        conf = {'/f1': e1, '/f1s': dict(e1, **{'response.stream': True}), '/f2': e2, '/g2': e2, '/s0': dict(sd), '/s1': dict(sd, **e1), '/s2': dict(sd, **e2)}
        self.app = wsgi.make_app(Root(), conf)
        self._static = static
        self._orig_boundary = static.make_boundary
        self._httputil = __import__('cherrypy.lib.httputil', fromlist=['x'])

    def teardown(self):
        if getattr(self, '_static', None) is not None:
            self._static.make_boundary = self._orig_boundary

    def impl(self, c):
        if self.app is None:
            self.setup()
        if c['k'] == 'gr':
            try:
                r = self._httputil.get_ranges(c['h'], c['n'])
            except Exception as e:
                return {'exc': type(e).__name__, 'msg': str(e)[:100]}
            return {'ret': None if r is None else [[str(a), str(b)] for a, b in r]}
        path = file_of(c['n'], c['pat']) if c['res'] != 'gen' else None
        CUR.clear()
        CUR.update(etag_set=c['etag_set'], path=path, glm=c['glm'],
                   content=content_of(c['n'], c['pat']) if c['res'] == 'gen' else None)
        self._static.make_boundary = self._orig_boundary if c.get('real_boundary') else (lambda: BOUNDARY)
        lvl = 2 if c['autotags'] else 1 if c['etags'] else 0
        if c['res'] == 'file':
            target = '/f%d' % lvl
            if lvl == 1 and c.get('stream'):
                target = '/f1s'         # the same resource with response.stream on: same status, headers and body
        elif c['res'] == 'sdir':
            target = '/s%d/%s' % (lvl, os.path.basename(path))
        else:
            target = '/g2'
        headers = []
        for k, name in (('range', 'Range'), ('im', 'If-Match'), ('inm', 'If-None-Match'),
                        ('ims', 'If-Modified-Since'), ('ius', 'If-Unmodified-Since')):
            if c.get(k) is not None:
                headers.append((name, c[k]))
        if c['method'] == 'POST':
            headers.append(('Content-Length', '0'))
        res = wsgi.call(self.app, c['method'], target, headers, b'', c['proto'])
        return {'status': res['status'], 'cr': wsgi.header(res, 'Content-Range'), 'cl': wsgi.header(res, 'Content-Length'),
                'ct': wsgi.header(res, 'Content-Type'), 'etag': wsgi.header(res, 'ETag'),
                'lastmod': wsgi.header(res, 'Last-Modified'), 'body': res['body'], 'escaped': res['escaped'],
                'problems': res['problems']}

    def compare(self, c, mo, obs):
        if isinstance(mo, str):
            return 'model: ' + mo
        if c['k'] == 'gr':
            if mo[0] == 0:
                return None if obs.get('ret', 0) is None and 'exc' not in obs else 'model None, impl %r' % (obs,)
            if mo[0] == 1:
                return None if obs.get('exc') == 'ValueError' else 'model raises ValueError(%d), impl %r' % (mo[1], obs)
            want = [[bytes(a).decode(), bytes(b).decode()] for a, b in mo[1]]
            return None if obs.get('ret') == want else 'model %r impl %r' % (want, obs)
        status, cr, cl, ct, body, tag = mo
        if status == 0:
            self.count('model:unsupported')
            return None

        def s(o):
            return None if not o else bytes(o[0]).decode('latin-1')
        if status != obs['status']:
            return 'status: model %s impl %s' % (status, obs['status'])
        if status >= 400:
            if status == 416 and s(cr) != obs['cr']:
                return 'Content-Range of the 416: model %r impl %r' % (s(cr), obs['cr'])
            if status != 416 and obs['cr'] is not None:
                return 'Content-Range on a %d: %r' % (status, obs['cr'])
            return None
        ict, ibody = obs['ct'], obs['body']
        if c.get('real_boundary') and ict and ict.startswith('multipart/byteranges; boundary='):
            b = ict.split('boundary=', 1)[1]
            if len(b) == len(BOUNDARY):
                ict = ict.replace(b, BOUNDARY)
                ibody = ibody.replace(b.encode('latin-1'), BOUNDARY.encode('latin-1'))
        if s(cr) != obs['cr']:
            return 'Content-Range: model %r impl %r' % (s(cr), obs['cr'])
        if s(cl) != obs['cl'] and not (c.get('stream') and obs['cl'] is None):
            # (a streamed response may go out without a Content-Length: finalize does not compute one)
            return 'Content-Length: model %r impl %r' % (s(cl), obs['cl'])
        if s(ct) != ict:
            return 'Content-Type: model %r impl %r' % (s(ct), ict)
        if bytes(body[0] if body else []) != ibody:
            return 'body differs (model %d bytes, impl %d bytes)' % (len(body[0]) if body else 0, len(ibody))
        return None

    # ---------------- property oracle ----------------
    def oracle(self, c, obs):
        fails = []
        n = c['n']
        if c['k'] == 'gr':
            outs, cls = ref_range(c['h'], n)
            if 'exc' in obs:
                return [('range-invalid-500', 'get_ranges(%r, %d) raises %s: %s (an invalid Range header is to be ignored)'
                         % (c['h'], n, obs['exc'], obs['msg']))]
            ret = obs['ret']
            if ret is None:
                got = W
            else:
                sl = [(int(a), int(b)) for a, b in ret]
                # the slices as Python slicing sees them on an entity of n bytes
                eff = tuple((min(max(a, 0), n), min(max(b, 0), n)) for a, b in sl)
                if any(a >= b for a, b in eff) or any(a < 0 or b < 0 for a, b in sl):
                    if W in outs and len(outs) == 1:
                        return [('invalid-range-not-ignored', 'get_ranges(%r, %d) = %r for an invalid header' % (c['h'], n, ret))]
                    return [('empty-range-206', 'get_ranges(%r, %d) = %r contains a slice without a byte' % (c['h'], n, ret))]
                got = ('parts', eff) if eff else UNSAT
            if got not in outs:
                sig = 'invalid-range-not-ignored' if cls == 'invalid' else 'ranges-wrong'
                fails.append((sig, 'get_ranges(%r, %d) = %r; acceptable: %s' % (c['h'], n, ret, sorted(outs))))
            return fails

        data = content_of(n, c['pat'])
        st = obs['status']
        if obs['escaped'] or obs['problems'] or st is None:
            return [('wsgi-malformed', 'exception or malformed response at the WSGI boundary: %r %r'
                     % (obs['escaped'], obs['problems']))]
        ranged = c['res'] != 'gen' and c['proto'] == 'HTTP/1.1' and c['range']
        outs, cls = ref_range(c['range'], n) if ranged else ({W}, 'absent')
        if st >= 500:
            if c['range']:
                return [('range-invalid-500', '%d for Range: %r (class %s) on %d bytes; an invalid Range header is to be ignored'
                         % (st, c['range'], cls, n))]
            return [('5xx', 'status %d' % st)]
        # --- validators
        cur, lm = self.current(c)
        if not c['etags']:
            etags = ()
        elif c['etag_set'] or not c['autotags']:
            etags = [cur]
        elif outs == {W}:
            etags = [cur]
        else:
            etags = [cur, None]
        allowed = cond_allowed(c, etags, lm, UNSAT in outs)
        if st == 304:
            if obs['body']:
                fails.append(('304-with-body', '304 with %d body bytes' % len(obs['body'])))
            if obs['cl'] not in (None, '0') or obs['cr'] is not None:
                fails.append(('304-entity-headers', '304 carries Content-Length %r / Content-Range %r' % (obs['cl'], obs['cr'])))
            if 304 not in allowed:
                fails.append(('304-unjustified', '304 for %s although the validators do not dictate it (acceptable %s): %s'
                              % (c['method'], sorted(map(str, allowed)), self.cond_text(c, cur, lm))))
            return fails
        if st == 412:
            if 412 not in allowed and ranged and cls == 'invalid':
                # the only way here is that the invalid header was honoured (206 without a tag, then If-Match fails)
                fails.append(('invalid-range-not-ignored', '412 for Range: %r (class invalid) on %d bytes with %s'
                              % (c['range'], n, self.cond_text(c, cur, lm))))
            elif 412 not in allowed:
                fails.append(('412-unjustified', '412 although the validators do not dictate it (acceptable %s): %s'
                              % (sorted(map(str, allowed)), self.cond_text(c, cur, lm))))
            return fails
        if st == 416 and UNSAT not in outs:
            sig = 'http10-not-whole' if c['proto'] != 'HTTP/1.1' else (
                'invalid-range-not-ignored' if cls == 'invalid' else '416-unjustified')
            return [(sig, '416 for Range: %r on %d bytes; expected %s' % (c['range'], n, sorted(outs)))]
        if 'pass' not in allowed:
            fails.append(('conditional-missed', 'status %d, the validators dictate %s: %s'
                          % (st, sorted(map(str, allowed)), self.cond_text(c, cur, lm))))
            return fails
        # --- range / whole entity
        head = c['method'] == 'HEAD'
        if st == 200:
            if W not in outs:
                sig = 'range-not-served'
                fails.append((sig, '200 for Range: %r on %d bytes; expected %s' % (c['range'], n, sorted(outs))))
            if obs['cr'] is not None:
                fails.append(('200-with-content-range', 'Content-Range %r on a 200' % obs['cr']))
            if (not head and obs['body'] != data) or obs['cl'] != str(n):
                fails.append(('whole-entity-wrong', '200 does not carry the whole entity (%d bytes, Content-Length %r, entity %d)'
                              % (len(obs['body']), obs['cl'], n)))
            return fails
        if st == 416:
            if UNSAT not in outs:
                sig = 'http10-not-whole' if c['proto'] != 'HTTP/1.1' else (
                    'invalid-range-not-ignored' if cls == 'invalid' else '416-unjustified')
                fails.append((sig, '416 for Range: %r on %d bytes; expected %s' % (c['range'], n, sorted(outs))))
            if obs['cr'] != 'bytes */%d' % n:
                fails.append(('416-content-range', '416 with Content-Range %r, expected "bytes */%d"' % (obs['cr'], n)))
            return fails
        if st != 206:
            return [('unexpected-status', 'status %d' % st)]
        # 206: decode what was sent and judge it on its own
        if c['proto'] != 'HTTP/1.1':
            fails.append(('http10-not-whole', '206 to an HTTP/1.0 request'))
        parts = []
        ct = obs['ct'] or ''
        if ct.startswith('multipart/byteranges'):
            m = re.search(r'boundary=("?)([^";]+)\1', ct)
            dec = decode_multipart(obs['body'], m.group(2)) if (m and not head) else None
            if head:
                dec = []
            if dec is None:
                return fails + [('multipart-framing', 'multipart/byteranges body cannot be decoded with its boundary')]
            if obs['cr'] is not None:
                fails.append(('multipart-content-range', 'top-level Content-Range on a multipart 206'))
            for hd, pdata in dec:
                parts.append((hd.get('content-range'), pdata))
        else:
            parts.append((obs['cr'], None if head else obs['body']))
        got = []
        for crv, pdata in parts:
            m = CR_RE.fullmatch(crv or '')
            if not m:
                fails.append(('empty-range-206' if crv and re.fullmatch(r'bytes -?\d+--?\d+/\d+', crv) else 'content-range-syntax',
                              '206 part with Content-Range %r (Range: %r on %d bytes)' % (crv, c['range'], n)))
                continue
            a, e, tot = int(m.group(1)), int(m.group(2)), int(m.group(3))
            if tot != n:
                fails.append(('content-range-length', 'Content-Range %r, entity has %d bytes' % (crv, n)))
            elif e < a:
                fails.append(('empty-range-206', '206 with Content-Range %r: no byte selected (Range: %r on %d bytes)'
                              % (crv, c['range'], n)))
            elif e >= n:
                fails.append(('content-range-unclamped', 'Content-Range %r names bytes beyond the entity of %d bytes (Range: %r)'
                              % (crv, n, c['range'])))
            if pdata is not None and pdata != data[a:e + 1]:
                fails.append(('slice-wrong', 'part %r carries %d bytes that are not entity[%d:%d]' % (crv, len(pdata), a, e + 1)))
            got.append((a, min(e + 1, n)))
        if not fails and obs['cl'] is not None and not head and obs['cl'] != str(len(obs['body'])):
            fails.append(('content-length', 'Content-Length %r, body %d' % (obs['cl'], len(obs['body']))))
        if not fails:
            if head and ct.startswith('multipart/byteranges'):
                if not any(o[0] == 'parts' and len(o[1]) > 1 for o in outs):
                    empty = n == 0 or re.search(r'(^|[=,])[ \t]*-[ \t]*0+[ \t]*(,|$)', c['range'] or '')
                    fails.append(('invalid-range-not-ignored' if cls == 'invalid' else 'empty-range-206' if empty else 'ranges-wrong',
                                  'multipart 206 to HEAD for Range: %r on %d bytes although at most one spec selects a byte; '
                                  'acceptable %s' % (c['range'], n, sorted(outs))))
            elif ('parts', tuple(got)) not in outs:
                sig = 'invalid-range-not-ignored' if cls == 'invalid' else 'ranges-wrong'
                fails.append((sig, '206 with parts %r for Range: %r (class %s) on %d bytes; acceptable: %s'
                              % (got, c['range'], cls, n, sorted(outs))))
        return fails

    def cond_text(self, c, cur, lm):
        return ', '.join('%s: %r' % (k, c[k]) for k in ('im', 'inm', 'ims', 'ius') if c.get(k) is not None) + \
            ' against ETag %r, Last-Modified %r' % (cur, lm)

    def nontrivial(self, c, obs):
        n = c['n']
        if c['k'] == 'gr':
            h = c['h'] or ''
            if 'exc' in obs:
                return ('gr', 'exc', min(h.count(','), 3), n > 0)
            if not obs['ret']:
                return ('gr', 'none' if obs['ret'] is None else 'unsat', ref_range(h, n)[1], min(h.count(','), 3), n > 0) \
                    if ref_range(h, n)[1] != 'absent' else None
            return ('gr', len(obs['ret']), ref_range(h, n)[1], ' ' in h or '\t' in h, min(n, 17))
        st = obs['status']
        if st == 200 and not c['conds'] and not c['range']:
            return None
        multi = (obs['ct'] or '').startswith('multipart/byteranges')
        nparts = obs['body'].count(b'Content-range:') if multi else 0
        return ('http', c['res'], c['etags'], c['autotags'], c['method'], c['proto'], st, nparts,
                ref_range(c['range'], n)[1], tuple(sorted(c['conds'].items())), min(n, 17))

    def shrink(self, c, still_fails):
        c = dict(c)
        key = 'h' if c['k'] == 'gr' else 'range'

        def tryset(**kw):
            d = dict(c, **kw)
            try:
                if still_fails(d):
                    c.update(kw)
                    return True
            except Exception:
                pass
            return False
        if c['k'] == 'http':
            for k in ('im', 'inm', 'ims', 'ius'):
                if c.get(k) is not None:
                    conds = {a: b for a, b in c['conds'].items() if a != k}
                    tryset(**{k: None, 'conds': conds})
            if c['method'] != 'GET':
                tryset(method='GET')
            if c['etags'] and not any(c.get(k) for k in ('im', 'inm')):
                tryset(etags=0, autotags=0, etag_set=None)
            if c.get('real_boundary'):
                tryset(real_boundary=False)
            if c['pat'] != 0:
                tryset(pat=0)
        for n in (0, 1, 2, 3, 5, 8, 14):
            if n < c['n'] and tryset(n=n):
                break
        if c.get(key):
            chars = core.shrink_list(list(c[key]), lambda cs: still_fails(dict(c, **{key: ''.join(cs)})))
            c[key] = ''.join(chars)
        return c


CHECK = C16
