"""C20 - background workers obey stop/graceful under every thread interleaving.

D: schedules (lists of thread ids at the granularity of the visible instructions: reads/writes of
``BackgroundTask.running``, writes of ``Monitor.thread``, ``Thread.start``/``join``, ``time.sleep``, the
callback; dict operations and ``publish`` for the thread manager) are run through the REAL classes on
real threads under ``vcheck.impl.scheduler`` and through the extracted model LTS; step traces
(thread, label), journals, final states are compared.  The schedules are the complete enumeration of all
schedules with a bounded number of pre-emptions, produced by stateless search on the real code.
O: judged from the implementation's journal only."""
import json
import os
import sys

from .. import core

LABELS = {
    'begin': 0, 'run/STORE_ATTR:running': 1, 'run/LOAD_ATTR:running': 2, 'sleep': 3, 'cb': 4,
    'op': 10, 'start/STORE_ATTR:thread': 11, 'spawn': 12, 'cancel/STORE_ATTR:running': 13, 'join': 14,
    'stop/STORE_ATTR:thread': 15, 'stop/RET': 16, 'tstart/STORE_ATTR:running': 17,
    'acq/LOAD_ATTR:threads': 20, 'rel/LOAD_ATTR:threads': 20, 'tmstop/LOAD_ATTR:threads': 20,
    'tmstop/FOR_ITER': 21, 'pub': 22,
}
OPS = {'start': 0, 'stop': 1, 'graceful': 2}
STATUS = {'done': 0, 'horizon': 1, 'deadlock': 2}
INTERVAL = 7


def labeler(fn, rw=(), w=(), ret=False, ops=()):
    def lab(ins):
        if ins.opname in ('LOAD_ATTR', 'STORE_ATTR', 'DELETE_ATTR') and ins.argval in rw:
            return '%s/%s:%s' % (fn, ins.opname, ins.argval)
        if ins.opname in ('STORE_ATTR', 'DELETE_ATTR') and ins.argval in w:
            return '%s/%s:%s' % (fn, ins.opname, ins.argval)
        if ret and ins.opname in ('RETURN_CONST', 'RETURN_VALUE'):
            return '%s/RET' % fn
        if ins.opname in ops:
            return '%s/%s' % (fn, ins.opname)
        return None
    return lab


class C20(core.Check):
    pid = 'C20'
    props_files = ('Props/C20.v',)
    refuted_files = ('Refuted/R_C20.v',)
    model_fn = ('run_C20', 'Model.M_monitor')
    xcheck_n = 30
    rule = ('complete enumeration (stateless search on the real threads under the deterministic scheduler) of all '
            'schedules with <= k pre-emptions, k per scenario in the distribution; Monitor scenarios = controller '
            'programs over {start, stop, graceful} x daemon/non-daemon worker, each worker allowed 2 sleeps; '
            'ThreadManager scenarios = 2..4 request threads with programs over {acquire, release} against '
            'bus stop; a case is non-trivial when at least two threads took steps and a callback/notification '
            'was delivered; distinct by (scenario, journal)')
    assumptions = (
        'start/stop/graceful of one monitor are issued one after the other (as the bus publishes them), '
        'from a thread other than the worker; the callback does not raise and does not call stop itself',
        'thread switches happen between bytecode instructions; only instructions touching shared state '
        '(BackgroundTask.running, Monitor.thread, ThreadManager.threads, Thread.start/join, sleep, the callback) '
        'are scheduling points in D, every instruction of the anchored functions in the opcode-level search',
        'dict operations on int keys are atomic (GIL); fewer than 6 insertions between two clear()s (no resize '
        'of the dict while stop() iterates)',
        'real OS scheduling, Thread.join and signal delivery are outside the model; time.sleep is a yield that '
        'advances a logical clock')

    # ------------------------------------------------------------------ harness
    def setup(self):
        from ..impl.scheduler import Scheduler
        from cherrypy.process import plugins, wspbus
        self.plugins, self.wspbus = plugins, wspbus
        self.S = S = Scheduler(step_timeout=10.0, exec_timeout=60.0)
        BT, MON, TMc = plugins.BackgroundTask, plugins.Monitor, plugins.ThreadManager
        self.mon_codes = [(BT.run.__code__, labeler('run', rw=('running',))),
                          (BT.cancel.__code__, labeler('cancel', rw=('running',))),
                          (MON.start.__code__, labeler('start', w=('thread',))),
                          (MON.stop.__code__, labeler('stop', w=('thread',), ret=True)),
                          (MON.graceful.__code__, labeler('graceful', w=('thread',)))]
        if 'start' in BT.__dict__:
            self.mon_codes.append((BT.__dict__['start'].__code__, labeler('tstart', rw=('running',))))
        self.cancel_code = BT.cancel.__code__
        self.opcode_mode = None
        self.granularity(False)
        S.instrument(TMc.acquire_thread.__code__, labeler('acq', rw=('threads',)))
        S.instrument(TMc.release_thread.__code__, labeler('rel', rw=('threads',)))
        S.instrument(TMc.stop.__code__, labeler('tmstop', rw=('threads',), ops=('FOR_ITER',)))
        S.patch(plugins, 'time', S.fake_time())
        S.patch_threading()

        class Task(BT):
            """the worker as the anchored code sees it: daemon flag per scenario; at the OS level always
            daemonic so that an abandoned thread cannot keep the interpreter alive"""
            @property
            def daemon(self):
                return self.__dict__.get('_fake_daemon', True)

            @daemon.setter
            def daemon(self, v):
                self.__dict__['_fake_daemon'] = v
                self._daemonic = True
        self.Task = Task
        self.cache = {}
        self.n_exec = 0
        self.main_sigs = set()

    def teardown(self):
        S = getattr(self, 'S', None)
        if S is not None:
            self.stats['scheduler_executions'] = S.executions
            self.stats['threads_leaked'] = S.leaked_total
            S.close()
            self.S = None

    # ---- monitor ----
    def mon_setup(self, c):
        plugins, Task = self.plugins, self.Task
        prog, daemon = c['prog'], c['daemon']

        def setup(S):
            ctx = {'tasks': [], 'cancelled': set(), 'target': None, 'jstep': [], 'live_max': 0,
                   'after_graceful': [], 'seen_opret': 0, 'spawn_step': {}}
            bus = self.wspbus.Bus()

            def emit(*e):
                S.emit(*e)
                ctx['jstep'].append(S.step_index())

            def cb():
                S.point('cb')
                emit(0, S.tid(), S.now())
            mon = plugins.Monitor(bus, cb, frequency=INTERVAL)
            ctx['mon'] = mon

            def on_spawn(t):
                if isinstance(t, plugins.BackgroundTask):
                    t.__class__ = Task
                    t.__dict__['_fake_daemon'] = daemon
                    t._daemonic = True
                    ctx['tasks'].append(t)
                    ctx['spawn_step'][len(ctx['tasks'])] = S.step_index()

            def tid_of(t):
                rec = getattr(t, '_vcheck_rec', None)
                return -1 if rec is None else rec.tid

            def on_step(tid, label):
                if label == 'cancel/STORE_ATTR:running':
                    # the task whose cancel() is executing (found on the stack, not through mon.thread)
                    f = sys._getframe()
                    while f is not None and f.f_code is not self.cancel_code:
                        f = f.f_back
                    ctx['target'] = tid_of(f.f_locals.get('self')) if f is not None else -1
                    ctx['cancelled'].add(ctx['target'])
                elif label == 'stop/RET':
                    emit(1, -1 if ctx['target'] is None else ctx['target'], S.now())
                    ctx['target'] = None

            def on_decision():
                alive = [t for t in ctx['tasks'] if tid_of(t) >= 0 and S.alive(tid_of(t))]
                live = sum(1 for t in alive if t.running)
                if live > ctx['live_max']:
                    ctx['live_max'] = live
                j = S.journal
                while ctx['seen_opret'] < len(j):
                    e = j[ctx['seen_opret']]
                    ctx['seen_opret'] += 1
                    if e[0] == 3 and prog[e[1]] == 'graceful':
                        ctx['after_graceful'].append(
                            sum(1 for t in alive if tid_of(t) not in ctx['cancelled']))
            S.on_spawn, S.on_step, S.on_decision = on_spawn, on_step, on_decision

            def controller():
                for k, op in enumerate(prog):
                    S.point('op')
                    emit(2, k)
                    getattr(mon, op)()
                    emit(3, k, S.now())
            S.spawn(controller, 'controller')
            return ctx
        return setup

    def mon_obs(self, c, r):
        ctx = r.ctx
        tasks = []
        for t in ctx['tasks']:
            rec = t._vcheck_rec
            tasks.append([1 if t.running else 0, 1, 0 if r.threads[rec.tid]['state'] != 'done' else 1,
                          r.threads[rec.tid]['sleeps']])
        mon = ctx['mon']
        created_unspawned = mon.thread is not None and mon.thread not in ctx['tasks']
        if created_unspawned:
            tasks.append([1 if mon.thread.running else 0, 0, 0, 0])
        return {'status': STATUS.get(r.status, 9), 'detail': r.detail,
                'trace': [[t, LABELS.get(l, 99)] for t, l in r.trace],
                'labels_unknown': sorted({l for _, l in r.trace if l not in LABELS}),
                'journal': [list(e) for e in r.journal], 'jstep': list(ctx['jstep']),
                'final': [1 if mon.thread is None else 0, tasks, r.clock],
                'live_max': ctx['live_max'], 'after_graceful': ctx['after_graceful'],
                'spawn_step': {str(k): v for k, v in ctx['spawn_step'].items()},
                'errors': {str(t): d['error'] for t, d in r.threads.items() if d['error']},
                'leaked': r.leaked}

    # ---- thread manager ----
    def tm_setup(self, c):
        plugins = self.plugins
        progs, nstops = c['progs'], c['nstops']

        def setup(S):
            ctx = {}
            bus = self.wspbus.Bus()
            tm = plugins.ThreadManager(bus)
            ctx['tm'] = tm
            ctx['ident'] = {}

            def started(i):
                S.point('pub')
                S.emit(0, S.tid(), i)

            def stopped(i):
                S.point('pub')
                S.emit(1, S.tid(), i)
            bus.subscribe('start_thread', started)
            bus.subscribe('stop_thread', stopped)
            S.on_spawn = S.on_step = S.on_decision = None

            def controller():
                import _thread
                ctx['ident'][_thread.get_ident()] = 0
                for _ in range(nstops):
                    S.point('op')
                    try:
                        tm.stop()
                    except RuntimeError:
                        S.emit(2, S.tid())
            S.spawn(controller, 'bus-stop')

            def request(n, prog):
                def body():
                    import _thread
                    ctx['ident'][_thread.get_ident()] = n
                    for op in prog:
                        S.point('op')
                        (tm.acquire_thread if op == 'a' else tm.release_thread)()
                return body
            for n, prog in enumerate(progs):
                S.spawn(request(n + 1, prog), 'request-%d' % (n + 1))
            return ctx
        return setup

    def tm_obs(self, c, r):
        ctx = r.ctx
        final = [[ctx['ident'].get(k, -1), v] for k, v in ctx['tm'].threads.items()]
        return {'status': STATUS.get(r.status, 9), 'detail': r.detail,
                'trace': [[t, LABELS.get(l, 99)] for t, l in r.trace],
                'labels_unknown': sorted({l for _, l in r.trace if l not in LABELS}),
                'journal': [list(e) for e in r.journal], 'final': final,
                'errors': {str(t): d['error'] for t, d in r.threads.items() if d['error']},
                'leaked': r.leaked}

    def scenario(self, c):
        if c['sys'] == 'mon':
            return self.mon_setup(c), self.mon_obs, {'sleep_budget': c['budget']}
        return self.tm_setup(c), self.tm_obs, {}

    @staticmethod
    def key(c):
        return json.dumps(c, sort_keys=True)

    def granularity(self, opcode):
        """False: the visible instructions are the scheduling points (what the model has);
        True: every instruction of the anchored Monitor/BackgroundTask functions is one"""
        if opcode != self.opcode_mode:
            self.opcode_mode = opcode
            for code, lab in self.mon_codes:
                self.S.instrument(code, lab, every=opcode, replace=True)

    def impl(self, c):
        k = self.key(c)
        if k in self.cache:
            return self.cache.pop(k)
        self.granularity(bool(c.get('opcode')))
        setup, obsf, kw = self.scenario(c)
        r = self.S.execute(setup, c['sched'], **kw)
        self.n_exec += 1
        return obsf(c, r)

    # ------------------------------------------------------------------ cases
    def mon_scenarios(self):
        q = self.tier == 'quick'
        out = []
        # (program, bound daemon, bound non-daemon)
        one = [['start', 'stop'], ['start', 'stop', 'stop'], ['stop', 'start', 'stop'], ['start', 'start', 'stop'],
               ['start'], ['stop'], ['graceful'], ['graceful', 'stop']]
        two = [['start', 'stop', 'start'], ['start', 'graceful'], ['start', 'graceful', 'stop'],
               ['start', 'stop', 'start', 'stop'], ['graceful', 'graceful']]
        for p in one:
            out.append((p, True, 3 if q else 4))
            out.append((p, False, 3 if q else 4))
        for p in two:
            out.append((p, True, 2 if q else 3))
            out.append((p, False, 2 if q else 3))
        return out

    def tm_scenarios(self):
        q = self.tier == 'quick'
        return [
            ([['a', 'r'], ['a', 'r']], 1, 2 if q else 3),
            ([['a'], ['a', 'r']], 1, 2 if q else 3),
            ([['a', 'r'], ['a'], ['a']], 1, 1 if q else 2),
            ([['a', 'r', 'a'], ['a', 'r']], 1, 1 if q else 2),
            ([['a', 'a', 'r', 'r'], ['r', 'a']], 1, 1 if q else 2),
            ([['a', 'r'], ['a', 'r'], ['a'], ['a']], 1, 1 if q else 2),
            ([['a'], ['a', 'r']], 2, 1 if q else 2),
        ]

    def cases(self):
        out = []
        cap = 2500 if self.tier == 'quick' else 60000
        for prog, daemon, bound in self.mon_scenarios():
            base = {'sys': 'mon', 'prog': prog, 'daemon': daemon, 'budget': 2, 'interval': INTERVAL}
            n = self.enumerate(base, bound, cap, out)
            self.count('mon %s %s k<=%d%s' % ('/'.join(prog), 'daemon' if daemon else 'joined', bound,
                                              '' if n < cap else ' (capped)'), n)
        for progs, nstops, bound in self.tm_scenarios():
            base = {'sys': 'tm', 'progs': progs, 'nstops': nstops}
            n = self.enumerate(base, bound, cap, out)
            self.count('tm %s stops=%d k<=%d%s' % ('|'.join(''.join(p) for p in progs), nstops, bound,
                                                   '' if n < cap else ' (capped)'), n)
        self.all_cases = out
        return out

    def enumerate(self, base, bound, cap, out):
        self.granularity(bool(base.get('opcode')))
        setup, obsf, kw = self.scenario(dict(base, sched=[]))
        n = 0
        for r in self.S.explore(setup, bound, limit=cap, **kw):
            c = dict(base, sched=list(r.schedule))
            self.cache[self.key(c)] = obsf(c, r)
            out.append(c)
            n += 1
            self.n_exec += 1
        return n

    def search_cases(self, around=None):
        """one more pre-emption than the enumeration, on the basic scenarios"""
        for c in around or []:
            yield c
        b = 3 if self.tier == 'quick' else 4
        for base in ({'sys': 'mon', 'prog': ['start', 'stop'], 'daemon': True, 'budget': 3, 'interval': INTERVAL},
                     {'sys': 'mon', 'prog': ['start', 'stop', 'start'], 'daemon': True, 'budget': 2,
                      'interval': INTERVAL},
                     {'sys': 'mon', 'prog': ['start', 'start', 'stop'], 'daemon': True, 'budget': 3,
                      'interval': INTERVAL},
                     {'sys': 'tm', 'progs': [['a', 'r'], ['a', 'r']], 'nstops': 1}):
            tmp = []
            self.enumerate(base, b, 6000, tmp)
            for c in tmp:
                yield c

    # ------------------------------------------------------------------ model side
    def encode(self, c):
        if c['sys'] == 'mon':
            # variant flag = the REPAIRED task (running set by the starting thread)
            return [0, 1, 1 if c['daemon'] else 0, c['budget'], c['interval'], [OPS[o] for o in c['prog']],
                    list(c['sched'])]
        return [1, 1, c['nstops'], [[0 if o == 'a' else 1 for o in p] for p in c['progs']], list(c['sched'])]

    def compare(self, c, mo, obs):
        if isinstance(mo, str):
            return 'model: ' + mo
        m_status, m_trace, m_journal, m_final = mo
        if obs['labels_unknown']:
            return 'the implementation executed visible instructions the model does not have: %s' % obs['labels_unknown']
        if m_trace != obs['trace']:
            i = next((i for i, (a, b) in enumerate(zip(m_trace, obs['trace'])) if a != b),
                     min(len(m_trace), len(obs['trace'])))
            return 'step traces differ at step %d: model %s impl %s' % (
                i, m_trace[i:i + 3], obs['trace'][i:i + 3])
        if m_journal != obs['journal']:
            return 'journals differ: model %s impl %s' % (m_journal, obs['journal'])
        if m_status != obs['status']:
            return 'status: model %s impl %s (%s)' % (m_status, obs['status'], obs['detail'])
        if c['sys'] == 'mon':
            if m_final != [obs['final'][0], obs['final'][1], obs['final'][2]]:
                return 'final states differ: model %s impl %s' % (m_final, obs['final'])
        elif m_final != obs['final']:
            return 'final registries differ: model %s impl %s' % (m_final, obs['final'])
        return None

    # ------------------------------------------------------------------ property oracle (implementation only)
    def oracle(self, c, obs):
        fails = []
        if obs['status'] == 9:
            fails.append(('scheduler-stuck', 'execution did not complete under the scheduler: %s' % obs['detail']))
        for t, e in obs['errors'].items():
            fails.append(('exception:%s' % e.split(':')[0], 'thread %s ended with %s' % (t, e)))
        j = obs['journal']
        if c['sys'] == 'mon':
            js = obs['jstep']
            spawn = {int(k): v for k, v in obs['spawn_step'].items()}
            for a, e in enumerate(j):
                if e[0] != 2 or c['prog'][e[1]] not in ('stop', 'graceful'):
                    continue
                ret = next((b for b in range(a + 1, len(j)) if j[b][0] == 1), None)
                if ret is None:
                    continue
                for w, sstep in spawn.items():
                    if sstep >= js[a]:
                        continue
                    n = sum(1 for b in range(ret + 1, len(j)) if j[b][0] == 0 and j[b][1] == w)
                    if n > 1:
                        fails.append(('callback-after-stop',
                                      'the callback of worker %d was invoked %d times after stop() (operation %d) had '
                                      'returned' % (w, n, e[1])))
            if obs['live_max'] > 1:
                fails.append(('two-live-workers', '%d worker threads of one monitor were running with their flag set'
                              % obs['live_max']))
            for n in obs['after_graceful']:
                if n != 1:
                    fails.append(('graceful-not-one', 'graceful() returned leaving %d active workers' % n))
        else:
            if obs['status'] == 0:
                vals = {}
                for e in j:
                    if e[0] in (0, 1):
                        vals.setdefault(e[2], [0, 0])[e[0]] += 1
                live = {}
                for _, v in obs['final']:
                    live[v] = live.get(v, 0) + 1
                for i, (st, sp) in sorted(vals.items()):
                    want = st - live.get(i, 0)
                    if sp > want:
                        fails.append(('stop_thread-twice', 'stop_thread(%d) delivered %d times for %d released '
                                      'registrations' % (i, sp, want)))
                    elif sp < want:
                        fails.append(('stop_thread-missing', 'stop_thread(%d) delivered %d times for %d released '
                                      'registrations' % (i, sp, want)))
            if any(e[0] == 2 for e in j):
                fails.append(('threadmanager-stop-raises', 'ThreadManager.stop raised RuntimeError (dictionary '
                              'changed size during iteration)'))
        seen, out = set(), []
        for f in fails:
            if f[0] not in seen:
                seen.add(f[0])
                out.append(f)
                if not c.get('opcode'):
                    self.main_sigs.add(f[0])
        return out

    def nontrivial(self, c, obs):
        tids = {t for t, _ in obs['trace']}
        if len(tids) < 2 or not any(e[0] in (0, 1) for e in obs['journal']):
            return None
        scen = json.dumps({k: v for k, v in c.items() if k != 'sched'}, sort_keys=True)
        return (scen, json.dumps(obs['journal']))

    def shrink(self, c, still_fails):
        sched = core.shrink_list(c['sched'], lambda s: still_fails(dict(c, sched=s)))
        return dict(c, sched=sched)

    # ------------------------------------------------------------------ extra: determinism + opcode level
    def extra(self):
        out = []
        S = self.S
        # 1. deterministic replay: a sample of the enumerated schedules is executed again, twice
        pool = getattr(self, 'all_cases', [])
        bad = None
        for c in self.rng.sample(pool, min(40 if self.tier == 'quick' else 400, len(pool))):
            a, b = self.impl(c), self.impl(c)
            self.count('replayed twice (determinism)')
            if a != b or a['trace'] == [] or len(a['trace']) < len(c['sched']):
                bad = (c, a, b)
        if bad:
            out.append(core.Violation('scheduler-nondeterministic', 'the same schedule gave two different executions',
                                      case=bad[0], observed=bad[1], expected=bad[2], kind='correspondence',
                                      no_input=True, broken=['deterministic-replay']))
        # 2. opcode granularity (oracle only): every instruction of BackgroundTask.run/cancel/start and
        #    Monitor.start/stop/graceful is a pre-emption point
        q = self.tier == 'quick'
        found = {}
        for prog, daemon, bound, cap in ((['start', 'stop'], True, 1 if q else 2, 1500 if q else 40000),
                                         (['start', 'stop', 'start'], True, 1, 1500 if q else 20000),
                                         (['start', 'graceful'], False, 1, 800 if q else 10000)):
            base = {'sys': 'mon', 'prog': prog, 'daemon': daemon, 'budget': 2, 'interval': INTERVAL, 'opcode': True}
            self.granularity(True)
            setup, obsf, kw = self.scenario(dict(base, sched=[]))
            n = 0
            for r in S.explore(setup, bound, limit=cap, **kw):
                c = dict(base, sched=list(r.schedule))
                obs = obsf(c, r)
                n += 1
                for sig, what in self.oracle(c, obs):
                    if sig not in self.main_sigs and sig not in found:
                        found[sig] = core.Violation(sig, what + ' (opcode-level schedule)', case=c, observed=obs,
                                                    kind='oracle')
            self.count('opcode-level %s k<=%d%s (oracle only)' % ('/'.join(prog), bound,
                                                                 '' if n < cap else ' (capped)'), n)
        self.granularity(False)
        return (out + list(found.values()) + self.dead_worker_histories() + self.autoreload_self_stop()
                + self.exiting_is_terminal())

    def exiting_is_terminal(self):
        """block() samples the state between sleeps: once a thread has driven the bus to EXITING, further exit() /
        restart() calls (a signal handler racing with the autoreloader) must leave it there, or the main thread never
        sees EXITING.  Two shutdown requests land inside one poll interval of a real block().  Oracle only."""
        import threading
        import time
        from cherrypy.process import wspbus
        out = []
        for second in ('exit', 'restart'):
            bus = wspbus.Bus()
            bus.execv = False
            seen = []
            done = threading.Event()

            def main():
                try:
                    bus.block(interval=0.3)
                except BaseException as e:       # noqa
                    seen.append('block raised %s' % type(e).__name__)
                done.set()
            real_execv = bus._do_execv
            bus._do_execv = lambda: seen.append('execv')     # restart() must not re-execute the test process
            t = threading.Thread(target=main, daemon=True)
            t.start()
            time.sleep(0.05)                         # main is inside its first sleep
            bus.exit()
            s1 = bus.state
            getattr(bus, second)()
            s2 = bus.state
            ok = done.wait(10)
            self.count('exit(); %s() while the main thread is in block()' % second)
            if s2 != wspbus.states.EXITING:      # (block() also joins foreign non-daemon threads: `ok` is only recorded)
                out.append(core.Violation(
                    'exiting-not-terminal',
                    'exit() drove the bus to %s; a following %s() left it in %s; block() on the main thread %s'
                    % (s1, second, s2, 'returned' if ok else 'was still polling after 10 s'),
                    case={'sys': 'double-exit', 'second': second},
                    observed={'after_first': str(s1), 'after_second': str(s2), 'block_returned': ok, 'seen': seen}))
                bus.state = wspbus.states.EXITING    # let the poller end
                break
        return out

    def autoreload_self_stop(self):
        """the one stop that the worker issues itself: Autoreloader.run sees a changed file and calls bus.restart(),
        which publishes 'stop' on the worker's own thread (Monitor.stop cannot cancel+join itself).  After that stop has
        returned the callback must not be invoked again (at most the invocation in flight), no worker may stay alive,
        and a later start() gives exactly one.  Real threads, oracle only."""
        import tempfile
        import threading
        import time
        from cherrypy.process import plugins, wspbus
        out = []
        fd, path = tempfile.mkstemp(prefix='c20ar')
        os.close(fd)
        bus = wspbus.Bus()
        ar = plugins.Autoreloader(bus, frequency=0.02, match='$^')
        ar.files.add(path)
        calls = []
        stops = []
        inner = ar.callback

        def counted():
            calls.append(time.time())
            return inner()
        ar.callback = counted
        real_stop = ar.stop

        def stop():
            real_stop()
            stops.append((time.time(), len(calls)))
        ar.stop = stop
        bus.subscribe('stop', ar.stop)
        try:
            ar.start()
            t0 = time.time()
            while len(calls) < 2 and time.time() - t0 < 30:
                time.sleep(0.01)
            later = time.time() + 100
            os.utime(path, (later, later))               # the watched file "changes" (a newer mtime)
            while not stops and time.time() - t0 < 60:
                time.sleep(0.01)
            time.sleep(0.4)                              # 20 periods
            t1 = time.time()
            while True:                                  # the worker is still inside bus.restart(): let it return
                live = [t for t in threading.enumerate() if isinstance(t, plugins.BackgroundTask) and t.is_alive()]
                if not live or time.time() - t1 > 10:
                    break
                time.sleep(0.02)
            after = len(calls) - (stops[0][1] if stops else 0)
            self.count('autoreload: the worker stops its own monitor through bus.restart()')
            obs = {'stop_returned': bool(stops), 'callback_calls_after_stop': after, 'live_workers': len(live)}
            if not stops:
                self.notes.append('autoreload self-stop probe: the worker never reached stop() within the time limit')
            if stops and (after > 1 or live):
                out.append(core.Violation(
                    'self-stop:worker-survives',
                    'Autoreloader saw a changed file and called bus.restart(); after its stop() returned the callback was '
                    'invoked %d more time(s) and %d worker(s) are still alive' % (after, len(live)),
                    case={'sys': 'autoreload-self-stop'}, observed=obs))
        finally:
            for t in [t for t in threading.enumerate() if isinstance(t, plugins.BackgroundTask)]:
                t.cancel()
            try:
                os.unlink(path)
            except OSError:
                pass
        return out

    def dead_worker_histories(self):
        """the end of a worker's life: its callback raises, BackgroundTask.run re-raises and the thread ends while
        Monitor.thread still refers to it.  Controller calls issued after that (real threads, no scheduler: the worker
        is dead, nothing interleaves): graceful / stop+start must leave exactly one live worker, stop none."""
        import threading
        import time
        from cherrypy.process import plugins, wspbus
        out = []
        for prog in (['graceful'], ['stop', 'start'], ['graceful', 'graceful'], ['stop']):
            bus = wspbus.Bus()
            calls = []

            def cb():
                calls.append(time.time())
                if len(calls) == 1:
                    raise RuntimeError('monitor callback fails once')
            mon = plugins.Monitor(bus, cb, frequency=0.01, name='c20-dying')
            hook, threading.excepthook = threading.excepthook, (lambda a: None)      # the dying worker is expected
            try:
                mon.start()
                first = mon.thread
                first.join(60)
                died = not first.is_alive() and len(calls) == 1
                for op in prog:
                    getattr(mon, op)()
                want = 0 if prog[-1] == 'stop' else 1
                t0 = time.time()
                while want and len(calls) < 2 and time.time() - t0 < 60:
                    time.sleep(0.01)
                # a cancelled worker (daemon threads are not joined by stop()) ends within one period: give it ten
                # seconds before counting; a worker that was never cancelled is still there after that
                t1 = time.time()
                while True:
                    live = [t for t in threading.enumerate() if isinstance(t, plugins.BackgroundTask) and t.is_alive()
                            and t.name == 'c20-dying']
                    if len(live) <= want or time.time() - t1 > 10:
                        break
                    time.sleep(0.02)
                obs = {'worker_died': died, 'live_workers': len(live), 'callback_calls': len(calls),
                       'monitor_thread_alive': bool(mon.thread is not None and mon.thread.is_alive())}
                self.count('dead-worker history: start, callback raises, %s' % ', '.join(prog))
                if died and (len(live) != want or (want and len(calls) < 2)):
                    out.append(core.Violation(
                        'dead-worker:%s' % ('no-worker' if len(live) < want else 'extra-worker'),
                        'start; the callback raised and the worker ended; %s: %d live worker(s), the property demands %d '
                        '(callback invoked %d times)' % ('; '.join(prog), len(live), want, len(calls)),
                        case={'sys': 'dead-worker', 'prog': prog}, observed=obs))
            finally:
                try:
                    mon.stop()
                except Exception:
                    pass
                threading.excepthook = hook
            if out:
                break
        return out


CHECK = C20
