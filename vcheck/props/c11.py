"""C11 - static serving and file sessions never touch files outside their root.

Real code: cherrypy.lib.static.staticdir/staticfile (through an in-process WSGI call) and
cherrypy.lib.sessions.FileSession (through the sessions tool, and clean_up directly), in a sandbox
tree under .work/C11/ with sibling directories and canary files.  Every file-system call is
observed from outside: sys.addaudithook (open/remove/listdir/mkdir/...) plus wrappers around
os.stat/os.lstat, installed once per process and inactive outside impl().
"""
import datetime
import http.cookies
import os
import pickle
import posixpath
import re
import shutil
import stat as statmod
import sys
import urllib.parse

from .. import core, sx
from ..impl import wsgi

# --------------------------------------------------------------------------
# file-system observation (process-wide, cheap when inactive)

_AUD = {'on': False, 'log': None, 'installed': False, 'base': None}
_ORIG = {}
_EVENTS = {'open': 'open', 'os.remove': 'remove', 'os.rmdir': 'rmdir', 'os.mkdir': 'mkdir',
           'os.listdir': 'listdir', 'os.scandir': 'listdir', 'os.rename': 'rename', 'os.truncate': 'truncate',
           'os.chmod': 'chmod', 'os.link': 'link', 'os.symlink': 'symlink', 'os.utime': 'utime'}
_SKIP_MODS = {'genericpath', 'posixpath', 'pathlib', 'os', 'ntpath', __name__}
_ANCHOR_MODS = ('cherrypy.lib.static', 'cherrypy.lib.sessions', 'filelock')


def _caller(f):
    n = None
    k = 0
    while f is not None and k < 12:
        n = f.f_globals.get('__name__')
        if n not in _SKIP_MODS:
            return n or ''
        f = f.f_back
        k += 1
    return n or ''


def _reach(path):
    """where a symlink-free kernel walk of `path` ends: the location it resolves to, or the
    location whose lookup failed (ENOENT/ENOTDIR).  None when the path cannot reach the kernel (NUL)."""
    if '\0' in path:
        return None
    if not path.startswith('/'):
        path = posixpath.join(os.getcwd(), path)
    lstat = _ORIG['lstat']
    cur = []
    for comp in path.split('/'):
        if comp in ('', '.'):
            continue
        if comp == '..':
            if cur:
                cur.pop()
            continue
        cur.append(comp)
        try:
            st = lstat('/' + '/'.join(cur))
        except (OSError, ValueError):
            break
        if not statmod.S_ISDIR(st.st_mode):
            break
    return '/' + '/'.join(cur)


def _record(op, path, frame, extra=None):
    try:
        path = os.fspath(path)
    except TypeError:
        return
    if isinstance(path, bytes):
        path = path.decode('latin-1')
    mod = _caller(frame)
    anchored = mod.startswith(_ANCHOR_MODS)
    if not anchored:
        base = _AUD['base']
        if not (base and base in path):
            return
    _AUD['on'] = False          # our own lstat calls must not be recorded
    try:
        reach = _reach(path)
    finally:
        _AUD['on'] = True
    _AUD['log'].append([op, path, mod, reach, extra])


def _audit_hook(event, args):
    if not _AUD['on']:
        return
    op = _EVENTS.get(event)
    if op is None or not args:
        return
    p = args[0]
    if isinstance(p, int) or p is None:
        return
    extra = None
    if op == 'open':
        fl = args[2] if len(args) > 2 and isinstance(args[2], int) else 0
        extra = 'w' if (fl & 3) else 'r'
    _record(op, p, sys._getframe(1), extra)


def _wrap_stat(name):
    orig = _ORIG[name]

    def w(path, *a, **k):
        if _AUD['on'] and not isinstance(path, int):
            _record(name, path, sys._getframe(1))
        return orig(path, *a, **k)
    w.__name__ = name
    return w


def install_audit():
    if _AUD['installed']:
        return
    _ORIG['stat'], _ORIG['lstat'] = os.stat, os.lstat
    sys.addaudithook(_audit_hook)      # cannot be removed: stays for the life of the process, inactive
    _AUD['installed'] = True


# --------------------------------------------------------------------------
# sandbox

FAR = datetime.datetime(2099, 1, 1)
PAST = datetime.datetime(2000, 1, 1)


def _pk(tag, when=FAR):
    return pickle.dumps(({'k': tag}, when), pickle.HIGHEST_PROTOCOL)


# relative path -> bytes (file) | None (directory)
TREE = {
    'canary.txt': b'CANARY-TOP',
    'r': None,
    'r/canary.txt': b'CANARY-R',
    'r/s': None,
    'r/s/a.txt': b'S-A',
    'r/s/index.html': b'S-INDEX',
    'r/s/.hidden': b'S-HIDDEN',
    'r/s/sp ace.txt': b'S-SPACE',
    'r/s/back\\slash.txt': b'S-BACKSLASH',
    'r/s/sub': None,
    'r/s/sub/b.txt': b'S-SUB-B',
    'r/s/sub/index.html': b'S-SUB-INDEX',
    'r/s/sub/deep': None,
    'r/s/sub/deep/c.txt': b'S-SUB-DEEP-C',
    'r/s/s': None,
    'r/s/s/d.txt': b'S-S-D',
    'r/sx': None,
    'r/sx/f': b'SECRET-SX-F',
    'r/sx/index.html': b'SECRET-SX-INDEX',
    'r/s_secret': None,
    'r/s_secret/s.txt': b'SECRET-S_SECRET',
    'r/s.bak': None,
    'r/s.bak/a.txt': b'SECRET-S.BAK',
    'r/t': None,
    'r/t/a.txt': b'SECRET-T',
    'r/static': None,
    'r/static/a.txt': b'STATIC-A',
    'r/static/index.html': b'STATIC-INDEX',
    'r/static_secret': None,
    'r/static_secret/s.txt': b'SECRET-STATIC_SECRET',
    'r/static2': None,
    'r/static2/a.txt': b'SECRET-STATIC2',
    'r/one.txt': b'ONE',
    'r/one.txt.bak': b'SECRET-ONE-BAK',
    # session region
    'sess': None,
    'sess/session-abc': _pk('abc'),
    'sess/session-old': _pk('old', PAST),
    'sess/session-abc.lock': b'',
    'sess/other.txt': b'not a session',
    'sess/session-d': None,
    'sess/session-d/inner': _pk('inner'),
    'sess/session-': None,
    'sess_evil': None,
    'sess_evil/x': _pk('EVIL'),
    'sess_evil/session-abc': _pk('EVIL2'),
    'sessx': _pk('EVIL3'),
    'store': None,
    'store/session-k': _pk('k'),
    'store/session-d': None,
    'store.old': None,
    'store.old/session-k': _pk('EVIL4'),
}
SESSION_REGION = ('sess', 'sess_evil', 'sessx', 'store', 'store.old')

# static configurations: (dir, root) with $B = sandbox base; all denote the same directory per group
DIRS = {
    's0': ('$B/r/s', ''), 's1': ('$B/r/s/', ''), 's2': ('$B/r/./s', ''), 's3': ('$B/r/t/../s', ''),
    's4': ('$B//r//s', ''), 's5': ('s', '$B/r'), 's6': ('r/s', '$B/'), 's7': ('/$B/r/s', ''),
    'st': ('$B/r/static', ''), 'sx': ('$B/r/sx', ''), 'r': ('$B/r', ''), 'sub': ('$B/r/s/sub', ''),
    'bad': ('r/s', ''), 'bad2': ('s', 'r'),
}
DIR_REAL = {'s0': 'r/s', 's1': 'r/s', 's2': 'r/s', 's3': 'r/s', 's4': 'r/s', 's5': 'r/s', 's6': 'r/s', 's7': 'r/s',
            'st': 'r/static', 'sx': 'r/sx', 'r': 'r', 'sub': 'r/s/sub', 'bad': None, 'bad2': None}
MOUNTS = ['/static', '/', '/a/b', 'global', '/s']
INDEXES = ['', 'index.html', 'sub/index.html', 'nothere.html']
MATCHES = ['', r'\.txt', r'^/static', r'x{3}']
STORES = {'p0': '$B/sess', 'p1': '$B/sess/', 'p2': 'sess', 'p3': '$B/./sess', 'p4': '$B/r/../sess', 'p5': './sess',
          'q0': '$B/store', 'q1': 'store/'}
STORE_REAL = {'p0': 'sess', 'p1': 'sess', 'p2': 'sess', 'p3': 'sess', 'p4': 'sess', 'p5': 'sess', 'q0': 'store',
              'q1': 'store'}
ACTIONS = {'none': 0, 'get': 1, 'delete': 2, 'regen': 3}
GENS = [('%02x' % (0xa0 + i)) * 20 for i in range(4)]


def segs(p):
    """independent lexical resolution of an absolute path"""
    out = []
    for c in p.split('/'):
        if c in ('', '.'):
            continue
        if c == '..':
            if out:
                out.pop()
            continue
        out.append(c)
    return out


def inside(root_segs, p_segs):
    return p_segs[:len(root_segs)] == root_segs


# --------------------------------------------------------------------------

_COOKIE_LEGAL = set("abcdefghijklmnopqrstuvwxyzABCDEFGHIJKLMNOPQRSTUVWXYZ0123456789!#$%&'*+-.^_`|~:/"
                    "<>@,?}{=[]()")


def cookie_header(idv, style):
    """wire form of `session_id=<idv>`; style 0 raw, 1 quoted with octal escapes"""
    if style == 0:
        return 'session_id=' + idv
    out = []
    for ch in idv:
        if ch in _COOKIE_LEGAL and ch not in '"\\' and ch != '/':
            out.append(ch)
        else:
            out.append('\\%03o' % ord(ch))
    return 'session_id="' + ''.join(out) + '"'


def cookie_id(header):
    """the id the sessions tool will see (http.cookies is what request.cookie uses); 'ERR' = 400"""
    c = http.cookies.SimpleCookie()
    try:
        c.load(header)
    except http.cookies.CookieError:
        return 'ERR'
    if 'session_id' in c:
        return [c['session_id'].value]
    return None


def path_info_of(target):
    """what request.path_info is for this request target: the server unquotes the path segment-wise
    keeping %2F (cheroot), CherryPy collapses '//' (httputil.urljoin) and recodes Latin-1 -> UTF-8"""
    raw = target.encode('latin-1').partition(b'?')[0]
    atoms = [urllib.parse.unquote_to_bytes(x) for x in wsgi.QUOTED_SLASH.split(raw)]
    p = b'%2F'.join(atoms).decode('latin-1')
    while '//' in p:
        p = p.replace('//', '/')
    p = p or '/'
    try:
        p = p.encode('latin-1').decode('utf-8')
    except (UnicodeEncodeError, UnicodeDecodeError):
        pass
    return p


def mount_applies(mount, pi):
    if mount in ('/', 'global'):
        return True
    full = [x for x in pi.strip('/').split('/') if x]
    m = [x for x in mount.strip('/').split('/') if x]
    return full[:len(m)] == m


class C11(core.Check):
    pid = 'C11'
    props_files = ('Props/C11.v',)
    refuted_files = ('Refuted/R_C11.v',)
    model_fn = ('run_C11', 'Model.M_paths')
    xcheck_n = 30
    rule = ('request targets from a traversal grammar (.., %2e%2e, .%2e, ..%2f, %252e, %c0%ae, //, leading /, '
            'absolute paths injected with %2f, backslash, %5c, NUL, names sharing the root name as a prefix) x '
            'root directory spellings (trailing slash, ./, ../, //, relative+root) x mount sections '
            '(/static, /, /a/b, global, /s) x index/match options x GET/HEAD/POST through staticdir and staticfile; '
            'session-id cookies (raw and quoted-with-octal-escapes) from the same grammar x storage_path spellings '
            '(absolute, trailing slash, relative to cwd, ./, ../) x handler actions (none/get/delete/regenerate) '
            'through the sessions tool with FileSession, plus clean_up; plus a primitive suite for normpath/join/'
            'abspath/unquote/strip/guards on random strings.  A case is non-trivial when the tool ran up to its '
            'containment test (static) / the cookie id reached FileSession (sessions); distinct by '
            '(kind, configuration, traversal features of the input, status, number of fs calls)')
    assumptions = (
        'A_fs: the sandbox tree is symlink-free; the kernel opens what lexical resolution denotes or fails '
        '(ENOENT/ENOTDIR) - proved for the model kernel (kwalk_resolve), sampled against the real one',
        'Windows path rules (platform.system() branch) and ~ expansion are outside the quantifier',
        'urllib.parse.unquote of escaped UTF-8 lead bytes (C2..F4) is answered "unsupported" by the model; '
        'the theorems quantify over every branch string after unquoting, so they do not depend on it',
        'filelock, pickle, http.cookies, the dispatcher\'s choice of the config section and cheroot\'s '
        'request-line unquoting are mirrored in the harness, not modelled',
        'a path handed to the OS counts as touching outside when it denotes (lexically) a location outside the '
        'root AND a symlink-free kernel walk of it actually leaves the root (a walk stopped by a missing directory '
        'inside the root does not touch the outside; a walk that passes through a sibling on the way to a location '
        'inside, a/../sibling/../a, is not counted - note: its 200/404 answer still reveals whether the sibling '
        'directory exists, also with the repaired guard); stat/lstat/'
        'mkdir(exist_ok) of the root itself or of its ancestors is allowed; the per-component lstat calls of '
        'filelock\'s realpath() are path resolution, not judged (the lock file it then opens is)',
    )

    # ---------------- G: constants regenerated from the sources ----------------
    def ties(self):
        """SESSION_PREFIX / LOCK_SUFFIX of FileSession, the strip sets and the 'global' literal of staticdir are
        read off the working tree with ast and proved equal to what the model (and its theorems) use."""
        import ast
        src = ast.parse(open(os.path.join(core.REPO, 'cherrypy', 'lib', 'sessions.py')).read())
        consts = {}
        for node in ast.walk(src):
            if isinstance(node, ast.ClassDef) and node.name == 'FileSession':
                for st in node.body:
                    if isinstance(st, ast.Assign) and len(st.targets) == 1 and isinstance(st.targets[0], ast.Name) \
                            and isinstance(st.value, ast.Constant) and isinstance(st.value.value, str):
                        consts[st.targets[0].id] = st.value.value
        prefix, lock = consts['SESSION_PREFIX'], consts['LOCK_SUFFIX']
        src = ast.parse(open(os.path.join(core.REPO, 'cherrypy', 'lib', 'static.py')).read())
        fn = next(n for n in ast.walk(src) if isinstance(n, ast.FunctionDef) and n.name == 'staticdir')
        strips = {}
        glob = None
        for node in ast.walk(fn):
            if isinstance(node, ast.Call) and isinstance(node.func, ast.Attribute) and node.func.attr in (
                    'lstrip', 'rstrip') and len(node.args) == 1 and isinstance(node.args[0], ast.Constant):
                strips.setdefault(node.func.attr, []).append(node.args[0].value)
            if isinstance(node, ast.Compare) and isinstance(node.left, ast.Name) and node.left.id == 'section' \
                    and len(node.comparators) == 1 and isinstance(node.comparators[0], ast.Constant):
                glob = node.comparators[0].value
        if sorted(strips) != ['lstrip', 'rstrip'] or any(len(v) != 1 for v in strips.values()) or glob is None:
            raise ValueError('staticdir: strip calls / section literal not found: %r %r' % (strips, glob))

        def z(t):
            return '[' + '; '.join(str(ord(ch)) for ch in t) + ']'
        text = '\n'.join([
            'From Coq Require Import ZArith List Bool.',
            'From CV Require Import Lib.Sx Lib.ListZ Model.M_paths.',
            'Import ListNotations.', 'Open Scope Z_scope.',
            'Lemma tie_session_prefix : s_prefix = %s.' % z(prefix), 'Proof. vm_compute; reflexivity. Qed.',
            'Lemma tie_lock_suffix : s_lock = %s.' % z(lock), 'Proof. vm_compute; reflexivity. Qed.',
            '(* what the lock-file lemma needs of the suffix: no separator, at least 3 characters *)',
            'Lemma tie_lock_shape : negb (existsb (Z.eqb 47) %s) && (3 <=? lenZ %s) = true.' % (z(lock), z(lock)),
            'Proof. vm_compute; reflexivity. Qed.',
            'Lemma tie_global : s_global = %s.' % z(glob), 'Proof. vm_compute; reflexivity. Qed.',
            'Lemma tie_lstrip : forallb is_sep %s && existsb (Z.eqb 47) %s && existsb (Z.eqb 92) %s = true.'
            % ((z(strips['lstrip'][0]),) * 3), 'Proof. vm_compute; reflexivity. Qed.',
            'Lemma tie_rstrip : forallb is_sep %s && existsb (Z.eqb 47) %s && existsb (Z.eqb 92) %s = true.'
            % ((z(strips['rstrip'][0]),) * 3), 'Proof. vm_compute; reflexivity. Qed.', ''])
        ok, out = core.coq_check_text('Tie_C11', text)
        return [core.Obligation('tie:constants(SESSION_PREFIX, LOCK_SUFFIX, strip sets, "global") = model', ok,
                                '' if ok else out)]

    # ---------------- sandbox ----------------
    def setup(self):
        install_audit()
        self.slot = 'p%d' % os.getpid()
        self.base = os.path.join(core.WORK, 'C11', self.slot)
        shutil.rmtree(self.base, ignore_errors=True)
        os.makedirs(self.base)
        for rel in sorted(TREE):
            p = os.path.join(self.base, rel)
            if TREE[rel] is None:
                os.makedirs(p, exist_ok=True)
            else:
                with open(p, 'wb') as f:
                    f.write(TREE[rel])
        self.bsegs = segs(self.base)
        self.notes.append('model variant compared: strict=%d (1 = guards compared on a separator boundary, '
                          'fixes/C11-staticdir.diff + fixes/C11-filesession.diff; 0 = string-prefix guards as the '
                          'code had them, refuted in Refuted/R_C11.v)' % self.STRICT)
        self.notes.append('interpretation: containment is judged on the location a path denotes lexically and the '
                          'kernel walk reaches; a/../sibling/../a passes through the sibling without being counted '
                          '(it still tells the client whether the sibling directory exists)')
        self.notes.append('a session id naming an existing directory inside storage_path (session-d) is not adopted '
                          '(_exists = os.path.isfile since repo 8deaa5f; before that it was adopted and the save '
                          'failed with 500 - that 500 is not a C11 clause and is only counted if it reappears)')
        self._apps = {}
        self._seen = []
        self._cwd0 = os.getcwd()
        os.stat = _wrap_stat('stat')
        os.lstat = _wrap_stat('lstat')
        _AUD['base'] = self.base
        cherrypy = wsgi.quiet_cherrypy()
        from cherrypy.lib import sessions
        self._tool = cherrypy.tools.staticdir
        self._tool_orig = self._tool.callable
        self._file_tool = cherrypy.tools.staticfile
        self._file_tool_orig = self._file_tool.callable
        seen = self._seen

        def rec_dir(*a, **kw):
            seen.append(['staticdir', kw.get('section'), cherrypy.serving.request.path_info, kw.get('dir'),
                         kw.get('root', ''), kw.get('index', '')])
            return self._tool_orig(*a, **kw)

        def rec_file(*a, **kw):
            seen.append(['staticfile', kw.get('filename'), kw.get('root')])
            return self._file_tool_orig(*a, **kw)
        self._tool.callable = rec_dir
        self._file_tool.callable = rec_file
        self._fs_init = sessions.FileSession.__init__
        fs_init = self._fs_init

        def rec_init(inst, id=None, **kw):
            seen.append(['filesession', id, kw.get('storage_path')])
            return fs_init(inst, id=id, **kw)
        sessions.FileSession.__init__ = rec_init
        self._urandom = os.urandom

    def teardown(self):
        _AUD['on'] = False
        if 'stat' in _ORIG:
            os.stat, os.lstat = _ORIG['stat'], _ORIG['lstat']
        try:
            os.urandom = self._urandom
            self._tool.callable = self._tool_orig
            self._file_tool.callable = self._file_tool_orig
            from cherrypy.lib import sessions
            sessions.FileSession.__init__ = self._fs_init
            os.chdir(self._cwd0)
        except Exception:
            pass
        shutil.rmtree(getattr(self, 'base', '/nonexistent'), ignore_errors=True)

    def sub(self, s):
        return s.replace('$B', self.base).replace('$P', self.slot) if isinstance(s, str) else s

    def inst(self, c):
        """cases name the sandbox as $B (base path) / $P (its last segment) so that they replay in any process"""
        if c.get('target') is not None and '$' in c['target']:
            c = dict(c, target=self.sub(c['target']))
        if c.get('cookie') is not None and '$' in c['cookie']:
            c = dict(c, cookie=self.sub(c['cookie']))
        return c

    def restore_sessions(self):
        for top in SESSION_REGION:
            p = os.path.join(self.base, top)
            want = {rel for rel in TREE if rel == top or rel.startswith(top + '/')}
            have = set()
            if os.path.isdir(p):
                for d, ds, fs_ in os.walk(p):
                    for n in ds + fs_:
                        have.add(os.path.relpath(os.path.join(d, n), self.base))
                have.add(top)
            elif os.path.exists(p):
                have.add(top)
            for rel in sorted(have - want, reverse=True):
                q = os.path.join(self.base, rel)
                if os.path.isdir(q):
                    shutil.rmtree(q, ignore_errors=True)
                else:
                    os.unlink(q)
            for rel in sorted(want):
                q = os.path.join(self.base, rel)
                if TREE[rel] is None:
                    if not os.path.isdir(q):
                        if os.path.exists(q):
                            os.unlink(q)
                        os.makedirs(q)
                else:
                    try:
                        ok = open(q, 'rb').read() == TREE[rel]
                    except OSError:
                        ok = False
                    if not ok:
                        if os.path.isdir(q):
                            shutil.rmtree(q)
                        with open(q, 'wb') as f:
                            f.write(TREE[rel])

    def fs_table(self, tops):
        """the tree as the model sees it: [path string, is_dir] incl. the ancestors of the sandbox"""
        out = [['/', 1]]
        acc = ''
        for s in self.bsegs:
            acc += '/' + s
            out.append([acc, 1])
        for rel in sorted(TREE):
            if tops is None or rel.split('/')[0] in tops:
                out.append([self.base + '/' + rel, 1 if TREE[rel] is None else 0])
        return out

    # ---------------- generators ----------------
    UPS = ['..', '..', '%2e%2e', '.%2e', '%2E.', '%252e%252e', '%252E%252e', '.%252e', '%c0%ae%c0%ae', '...',
           '..%00', '..;', '%2e%2e%00', '. .', '%80..']
    SEPS = ['/', '/', '/', '//', '%2f', '%2F', '%252f', '\\', '%5c', '%255c', '/./', '%2f%2f']
    NAMES_IN = ['a.txt', 'index.html', 'sub', 'sub/b.txt', 'sub/deep/c.txt', 's', 's/d.txt', '.hidden', 'sp%20ace.txt',
                'back%5cslash.txt', 'sub/index.html', 'nope', 'sub/deep', '']
    SIBS = {'r/s': ['sx/f', 'sx', 'sx/', 's_secret/s.txt', 's.bak/a.txt', 't/a.txt', 'canary.txt', 'static/a.txt',
                    's/a.txt', 's/../sx/f', 's/sub/b.txt', 'sx/index.html'],
            'r/static': ['static_secret/s.txt', 'static2/a.txt', 'static2', 's/a.txt', 'static/a.txt', 'canary.txt'],
            'r/sx': ['s/a.txt', 'sx/f', 'sxy', 's_secret/s.txt'],
            'r': ['canary.txt', 'r/canary.txt', 'r/s/a.txt', 'sess/session-abc', 'sessx'],
            'r/s/sub': ['a.txt', 'sub/b.txt', 's/d.txt', 'subx', '../sx/f']}
    DECOR = ['', '', '', '%00', '/', '/.', '%2f', '%00.txt', '/..', '?x=1', '%20']

    def enc_sep(self, path, rng):
        """re-spell the '/' of a relative path with random separators"""
        parts = path.split('/')
        out = parts[0]
        for p in parts[1:]:
            out += rng.choice(self.SEPS) + p
        return out

    def gen_branch(self, rng, real):
        depth = len(real.split('/'))
        mode = rng.random()
        if mode < .22:      # plain
            return self.enc_sep(rng.choice(self.NAMES_IN), rng) + rng.choice(self.DECOR)
        if mode < .62:      # climb out, come down into a sibling / back in
            n = rng.choice([1, 1, 1, 2, depth, depth + len(self.bsegs), depth + len(self.bsegs) + 2])
            pre = rng.choice(['', '', '', 'sub/', 'nope/', 'a.txt/', 's/', 'sub/deep/../'])
            up = [rng.choice(self.UPS) for _ in range(n + pre.rstrip('/').count('/') + (1 if pre else 0)
                                                      - (2 if 'deep/..' in pre else 0))]
            tgt = rng.choice(self.SIBS[real])
            full = real.split('/')
            if n > 1:
                # after n ups we are at depth max(0, abs depth - n): re-descend to the parent of the root
                absd = len(self.bsegs) + depth
                at = max(0, absd - n)
                allsegs = self.bsegs + full
                down = allsegs[at:len(allsegs) - 1]
                tgt = '/'.join(down + [tgt])
            s = pre + '/'.join(up) + '/' + tgt
            return self.enc_sep(s, rng) + rng.choice(self.DECOR)
        if mode < .80:      # absolute path smuggled in
            tgt = rng.choice(self.SIBS[real] + self.NAMES_IN)
            parent = '/'.join(self.bsegs + real.split('/')[:-1])
            where = rng.choice([parent + '/' + tgt, parent + '/' + real.split('/')[-1] + '/' + tgt, 'etc/passwd',
                                parent + '/' + real.split('/')[-1] + 'x', parent])
            lead = rng.choice(['%2f', '%2F', '%252f', '/', '//', '\\', '%5c', '%2f%2f', '/%2f', '%2f/'])
            return lead + self.enc_sep(where, rng) + rng.choice(self.DECOR)
        # soup
        atoms = self.UPS + ['a.txt', 'sub', 'sx', 'f', 's', '.', '', '%2e', 's_secret', 's.txt', '%00', 'x', '~', '%',
                            '%zz', '%2', '%c3%a9', '%e2%80%ae', '%ff', '\\..', '..\\', '%5c..', 'static', 'r']
        k = rng.randrange(0, 6)
        return ''.join(rng.choice(atoms) + rng.choice(self.SEPS) for _ in range(k)) + rng.choice(atoms)

    def gen_static(self, rng):
        dv = rng.choice(['s0', 's0', 's0', 's1', 's2', 's3', 's4', 's5', 's6', 's7', 'st', 'st', 'sx', 'r', 'sub'])
        if rng.random() < .01:
            dv = rng.choice(['bad', 'bad2'])
        real = DIR_REAL[dv] or 'r/s'
        mount = rng.choice(MOUNTS + ['/static', '/static'])
        prefix = {'global': '', '/': ''}.get(mount, mount)
        r = rng.random()
        if r < .06:
            prefix = rng.choice(['/' + prefix, prefix + '/', '/.' + prefix, prefix + '%2f..', prefix.upper(), '/x',
                                 prefix + 'x', prefix[:-1]])
        branch = self.gen_branch(rng, real)
        if rng.random() < .03:
            target = prefix or '/'
        else:
            target = prefix + '/' + branch
        if not target.startswith('/'):
            target = '/' + target
        target = target.replace('#', '%23')
        idx = rng.choice(INDEXES + ['', 'index.html'])
        mt = rng.choice(MATCHES + ['', '', '', ''])
        method = rng.choice(['GET'] * 12 + ['HEAD', 'HEAD', 'POST'])
        return {'k': 'dir', 'dirv': dv, 'mount': mount, 'index': idx, 'match': mt, 'method': method,
                'target': target.replace(self.slot, '$P')}

    def gen_file(self, rng):
        fv = rng.choice([('$B/r/one.txt', ''), ('one.txt', '$B/r'), ('$B/r/s/../one.txt', ''), ('$B/r/nothere', ''),
                         ('$B/r/s', ''), ('one.txt', '')])
        mount = rng.choice(['/one', '/', '/a/b'])
        prefix = '' if mount == '/' else mount
        target = prefix + rng.choice(['', '/', '/' + self.gen_branch(rng, 'r/s'), '.bak', '/../one.txt.bak', '%00'])
        if not target.startswith('/'):
            target = '/' + target
        return {'k': 'file', 'filename': fv[0], 'root': fv[1], 'mount': mount, 'match': rng.choice(['', '', r'bak']),
                'method': rng.choice(['GET', 'GET', 'GET', 'HEAD', 'POST']),
                'target': target.replace('#', '%23').replace(self.slot, '$P')}

    IDS = ['abc', 'zzz', 'd', 'd/inner', 'd/', 'd/.', 'd/..', 'd/../abc', 'd/../../sess_evil/x',
           '/../../sess_evil/x', 'd/../../sessx', 'd/../../sess_evil/session-abc', 'd/../../sess/session-abc',
           '../x', '..', '/..', '/../..', 'd/../..', 'd/../../canary.txt', '/etc/passwd',
           'd/../../../../../../../../etc/passwd', '%2e%2e/x', 'a%2fb', 'abc\0', 'd/../../sess_evil/x\0', 'a\\b',
           'd\\..\\..\\sess_evil\\x', '.', '', 'abc.lock', 'old', '//x', 'd//inner', 'd/./inner', 'd/../../sess',
           'd/../../sess_evil', 'k', 'd/../../store.old/session-k', '/../../store.old/session-k',
           'd/../../storex', 'x' * 300, 'd/../../sess_evil/' + 'y' * 260, 'abc/', 'abc/.', 'abc/..', 'abc/../abc',
           '/../session-abc', '/../../sess/session-abc', '/', '/.', 'd/inner/..', 'd/inner/../inner', ' abc',
           'abc;x', 'a"b', 'd/../../sess_evil/./x', 'd/../../sess_evil//x', 'd/..//../sess_evil/x',
           'd/.././../sess_evil/x', '/../../sessx', '/../../sess_evil/../sess/session-abc']

    def gen_sess(self, rng):
        sv = rng.choice(['p0', 'p0', 'p0', 'p1', 'p2', 'p3', 'p4', 'p5', 'q0', 'q0', 'q1'])
        if rng.random() < .7:
            idv = rng.choice(self.IDS)
        else:
            atoms = ['d', 'abc', '..', '..', '.', '', 'inner', 'sess_evil', 'x', 'sess', 'session-abc', 'sessx', 'store',
                     'store.old', 'session-k', 'k', 'session-', 'session-d', '\0', 'zz', '%2e%2e', '..\\']
            idv = '/'.join(rng.choice(atoms) for _ in range(rng.randrange(1, 7)))
        nocookie = rng.random() < .03
        style = rng.choice([0, 0, 1])
        return {'k': 'sess', 'store': sv, 'cookie': None if nocookie else cookie_header(idv, style),
                'action': rng.choice(['get', 'get', 'get', 'none', 'delete', 'regen'])}

    PRIM_ALPHA = ['/', '/', '/', '.', '.', '..', 'a', 'b', 's', 'sx', '\\', '%2e', '%2f', '%2F', '%5c', '%25', '%', '%4',
                  '%zz', '%00', '\0', '%80', '%c0', '%af', '%ff', '~', ' ', 'session-', '-', '%41', '%7e', '%e9', '\xe9',
                  '€', '//', '///', './', '../']

    def gen_prim(self, rng):
        def s(n=8):
            return ''.join(rng.choice(self.PRIM_ALPHA) for _ in range(rng.randrange(0, n)))
        f = rng.choice([0, 0, 0, 1, 1, 2, 3, 3, 4, 5, 6, 7, 7, 7, 8])
        a, b = s(), s()
        if f in (0, 5, 7) and rng.random() < .6:
            a = '/' + a
        if f == 7:
            b = rng.choice(['/r/s', '/r/s/', '/', '//', '//r', '/r//s/.', 'r/s', '.', '', '/r/s/../s', '/a', '/s'])
            a = posixpath.join(b, rng.choice(['', 'a', '../sx/f', '../s/a', '..', '../..', 'x/../..', '/r/sx', '/r/s',
                                                '/r/s/a', '../s', '../s/', './', '//r/s/a', 'a/../../sx']) + s(3))
        if f == 2:
            a = self.base
        if f == 8:
            b = rng.choice([a[:rng.randrange(0, len(a) + 1)], b])
        return {'k': 'prim', 'f': f, 'a': a, 'b': b}

    def cases(self):
        rng = self.rng
        q = self.tier == 'quick'
        n_dir, n_file, n_sess, n_prim = (3600, 200, 1800, 1500) if q else (60000, 2000, 25000, 40000)
        out = []
        out += [self.gen_static(rng) for _ in range(n_dir)]
        out += [self.gen_file(rng) for _ in range(n_file)]
        out += [self.gen_sess(rng) for _ in range(n_sess)]
        out += [{'k': 'clean', 'store': sv} for sv in STORES]
        out += [self.gen_prim(rng) for _ in range(n_prim)]
        if not q:
            out += list(self.exhaustive())
        return out

    def exhaustive(self):
        """all branches of <= 4 atoms over a small traversal alphabet, for the sibling-prefix root"""
        import itertools
        alpha = ['..', '%2e%2e', 'sx', 'f', 's', 'a.txt', '', '.', '%252e%252e']
        for L in (1, 2, 3, 4):
            for atoms in itertools.product(alpha, repeat=L):
                yield {'k': 'dir', 'dirv': 's0', 'mount': '/static', 'index': 'index.html', 'match': '',
                       'method': 'GET', 'target': '/static/' + '/'.join(atoms)}
        ids = ['d', '..', '.', '', 'sess_evil', 'x', 'sess', 'session-abc', 'abc']
        for L in (1, 2, 3, 4, 5):
            for atoms in itertools.product(ids, repeat=L):
                if L == 5 and atoms[0] != 'd':
                    continue
                yield {'k': 'sess', 'store': 'p0', 'cookie': cookie_header('/'.join(atoms), 0), 'action': 'get'}

    def search_cases(self, around=None):
        rng = self.rng
        for c in around or []:
            yield c
        for _ in range(20000):
            yield self.gen_static(rng) if rng.random() < .6 else self.gen_sess(rng)

    # ---------------- model side ----------------
    STRICT = int(os.environ.get("VERIF_C11_STRICT", "1"))      # the repaired guards (fixes/C11-*.diff); the code before the fix is strict = 0

    def gate(self, c, pi):
        if c['method'] not in ('GET', 'HEAD'):
            return False
        if c['match'] and not re.search(c['match'], pi):
            return False
        return mount_applies(c['mount'], pi)

    def encode(self, c):
        c = self.inst(c)
        k = c['k']
        if k == 'dir':
            pi = path_info_of(c['target'])
            d, root = DIRS[c['dirv']]
            return [0, self.STRICT, c['mount'], pi, self.sub(d), self.sub(root), c['index'],
                    self.gate(c, pi), self.fs_table({'r', 'canary.txt'})]
        if k == 'file':
            pi = path_info_of(c['target'])
            return [2, self.sub(c['filename']), self.sub(c['root']), self.gate(c, pi),
                    self.fs_table({'r', 'canary.txt'})]
        if k == 'sess':
            idv = None if c['cookie'] is None else cookie_id(c['cookie'])
            if idv == 'ERR':
                return [4, 99]
            return [1, self.STRICT, self.base, self.sub(STORES[c['store']]), idv if idv is not None else [],
                    ACTIONS[c['action']], GENS, self.fs_table(set(SESSION_REGION) | {'canary.txt'})]
        if k == 'clean':
            sp = os.path.join(self.base, STORE_REAL[c['store']])
            names = []
            for n in _listdir(sp):
                rel = STORE_REAL[c['store']] + '/' + n
                expired = TREE.get(rel) is not None and rel.endswith('session-old')
                names.append([n, expired])
            return [3, self.base, self.sub(STORES[c['store']]), names]
        return [4, c['f'], c['a'], c['b']]

    # ---------------- implementation side ----------------
    def app_for(self, key, conf, root):
        if key not in self._apps:
            self._apps[key] = wsgi.make_app(root, conf)
        return self._apps[key]

    def observe(self, fn):
        log = []
        _AUD['log'] = log
        del self._seen[:]
        _AUD['on'] = True
        try:
            r = fn()
        finally:
            _AUD['on'] = False
        return r, log

    def api_ops(self, log):
        out = []
        for op, path, mod, reach, extra in log:
            if mod.startswith('filelock'):
                if op == 'open' and (not out or out[-1] != [4, path]):
                    out.append([4, path])
                continue
            if not mod.startswith(('cherrypy.lib.static', 'cherrypy.lib.sessions')):
                continue
            if op == 'stat':
                out.append([0, path])
            elif op == 'open':
                out.append([2 if extra == 'w' else 1, path])
            elif op == 'remove':
                out.append([3, path])
            elif op == 'listdir':
                out.append([5, path])
            else:
                out.append([9, op + ':' + path])
        return out

    def impl(self, c):
        c = self.inst(c)
        k = c['k']
        if k == 'prim':
            return self.impl_prim(c)
        import cherrypy
        if k in ('dir', 'file'):
            class Root:
                pass
            if k == 'dir':
                d, root = DIRS[c['dirv']]
                sec = {'tools.staticdir.on': True, 'tools.staticdir.dir': self.sub(d)}
                if root:
                    sec['tools.staticdir.root'] = self.sub(root)
                if c['index']:
                    sec['tools.staticdir.index'] = c['index']
                if c['match']:
                    sec['tools.staticdir.match'] = c['match']
                key = ('dir', c['dirv'], c['mount'], c['index'], c['match'])
            else:
                sec = {'tools.staticfile.on': True, 'tools.staticfile.filename': self.sub(c['filename'])}
                if c['root']:
                    sec['tools.staticfile.root'] = self.sub(c['root'])
                if c['match']:
                    sec['tools.staticfile.match'] = c['match']
                key = ('file', c['filename'], c['root'], c['mount'], c['match'])
            glob = c['mount'] == 'global'
            conf = {'/': {'tools.trailing_slash.on': False}}
            if not glob:
                conf.setdefault(c['mount'], {}).update(sec)
            app = self.app_for(key, conf, Root())
            if glob:
                cherrypy.config.update(sec)
            try:
                hd = [('Content-Length', '0')] if c['method'] == 'POST' else []
                r, log = self.observe(lambda: wsgi.call(app, c['method'], c['target'], headers=hd))
            finally:
                if glob:
                    for kk in list(sec) + ['tools.staticdir.section']:
                        cherrypy.config.pop(kk, None)
            seen = [s for s in self._seen if s[0] in ('staticdir', 'staticfile')]
            return {'status': r['status'], 'body': r['body'][:200], 'api': self.api_ops(log),
                    'raw': [[a, b, m, rc] for a, b, m, rc, _ in log], 'seen': seen[0] if seen else None,
                    'escaped': r['escaped']}
        from cherrypy.lib import sessions
        if k == 'sess':
            app = self.sess_app(c['store'])
            calls = [0]

            def fake_urandom(n):
                i = calls[0]
                calls[0] += 1
                return bytes([0xa0 + (i % 64)]) * n
            os.chdir(self.base)
            os.urandom = fake_urandom
            hdrs = [('Cookie', c['cookie'])] if c['cookie'] is not None else []
            try:
                r, log = self.observe(lambda: wsgi.call(app, 'GET', '/' + c['action'], headers=hdrs))
            finally:
                os.urandom = self._urandom
                os.chdir(self._cwd0)
                seen = [s for s in self._seen if s[0] == 'filesession']
                self.restore_sessions()
            return {'status': r['status'], 'body': r['body'][:200], 'api': self.api_ops(log),
                    'raw': [[a, b, m, rc] for a, b, m, rc, _ in log], 'seen': seen[0] if seen else None,
                    'escaped': r['escaped']}
        if k == 'clean':
            os.chdir(self.base)
            try:
                s = sessions.FileSession(id=None, storage_path=self.sub(STORES[c['store']]), timeout=60, clean_freq=0)
                r, log = self.observe(s.clean_up)
            finally:
                os.chdir(self._cwd0)
                self.restore_sessions()
            return {'status': 0, 'body': b'', 'api': self.api_ops(log),
                    'raw': [[a, b, m, rc] for a, b, m, rc, _ in log], 'seen': None, 'escaped': None}
        raise ValueError(k)

    def sess_app(self, sv):
        import cherrypy
        from cherrypy.lib import sessions

        class Root:
            @cherrypy.expose
            def get(self):
                return repr(cherrypy.session.get('k'))

            @cherrypy.expose
            def none(self):
                return 'none'

            @cherrypy.expose
            def delete(self):
                cherrypy.session.delete()
                return 'deleted'

            @cherrypy.expose
            def regen(self):
                cherrypy.session.regenerate()
                return 'regen'
        conf = {'/': {'tools.sessions.on': True, 'tools.sessions.storage_class': sessions.FileSession,
                      'tools.sessions.storage_path': self.sub(STORES[sv]), 'tools.sessions.clean_freq': 0}}
        return self.app_for(('sess', sv), conf, Root())

    def impl_prim(self, c):
        f, a, b = c['f'], c['a'], c['b']
        if f == 0:
            return {'v': posixpath.normpath(a)}
        if f == 1:
            return {'v': posixpath.join(a, b)}
        if f == 2:
            os.chdir(self.base)
            try:
                return {'v': posixpath.abspath(b)}
            finally:
                os.chdir(self._cwd0)
        if f == 3:
            return {'v': urllib.parse.unquote(a)}
        if f == 4:
            return {'v': [a.lstrip('\\/'), a.rstrip('\\/')]}
        if f == 5:
            return {'v': segs(a), 'np': [x for x in posixpath.normpath(a).split('/') if x] if a.startswith('/') else None}
        if f == 6:
            return {'v': [x for x in a.split('/') if x]}
        if f == 7:
            nf, nd = posixpath.normpath(a), posixpath.normpath(b)
            return {'v': [nf.startswith(nd), nf == nd or nf.startswith(posixpath.join(nd, ''))]}
        if f == 8:
            sa, sb = [x for x in a.split('/') if x], [x for x in b.split('/') if x]
            return {'v': [posixpath.isabs(a), a.startswith(b), sb[:len(sa)] == sa]}
        raise ValueError(f)

    # ---------------- comparison ----------------
    def compare(self, c, mo, obs):
        c = self.inst(c)
        k = c['k']
        if k == 'prim':
            if c['f'] == 3:
                sup, val = mo
                if not sup:
                    self.count('prim:unquote-unsupported')
                    return None
                return None if val == sx.norm(obs['v']) else 'unquote(%r): model %r impl %r' % (c['a'], val, obs['v'])
            if c['f'] == 5 and obs['np'] is not None and obs['np'] != obs['v']:
                return 'harness: normpath segments differ from lexical resolution for %r' % c['a']
            want = sx.norm(obs['v'])
            return None if mo == want else 'primitive %d (%r, %r): model %r impl %r' % (c['f'], c['a'], c['b'], mo, want)
        if k == 'sess' and mo == []:
            # cookie the parser refuses: CherryPy answers 400 before the sessions tool runs
            if obs['status'] == 400 and not obs['api']:
                return None
            return 'illegal cookie: expected 400 with no fs access, got %s' % obs['status']
        tag, status, ops = mo
        if tag == 7:
            self.count('static:unquote-unsupported')
            return None
        if tag == 15:
            return 'model ran out of generated ids'
        # the harness mirrors (section, path_info, cookie id) must be what the real code saw
        if k == 'dir':
            pi = path_info_of(c['target'])
            if obs['seen'] is None:
                if self.gate(c, pi) and c['method'] in ('GET', 'HEAD') and mount_applies(c['mount'], pi):
                    pass    # gate may have been closed by match, which the tool evaluates itself
                if mount_applies(c['mount'], pi) != False and obs['seen'] is None and tag != 6 and False:
                    return 'tool not called'
            else:
                want_section = c['mount']
                if obs['seen'][1] != want_section or obs['seen'][2] != pi:
                    return 'harness mirror: staticdir saw section=%r path_info=%r, expected %r %r' % (
                        obs['seen'][1], obs['seen'][2], want_section, pi)
        if k == 'sess':
            idv = None if c['cookie'] is None else cookie_id(c['cookie'])
            got = obs['seen']
            if got is None or (got[1] if got[1] is None else [got[1]]) != idv:
                return 'harness mirror: FileSession saw id %r, expected %r' % (got, idv)
        if status != (obs['status'] or 0):
            return 'status: model %s impl %s (%s)' % (status, obs['status'], obs.get('escaped'))
        if ops != sx.norm(obs['api']):
            return 'file-system calls: model %r impl %r' % (
                [(o[0], ''.join(map(chr, o[1]))) for o in ops], obs['api'])
        if k in ('dir', 'file') and status == 200 and c['method'] == 'GET':
            last = obs['api'][-1][1]
            rel = '/'.join(segs(last)[len(self.bsegs):])
            if TREE.get(rel) is None or obs['body'] != TREE[rel][:200]:
                return 'served body is not the content of %s' % rel
        return None

    # ---------------- property oracle ----------------
    def root_of(self, c):
        k = c['k']
        if k == 'dir':
            d, root = DIRS[c['dirv']]
            d, root = self.sub(d), self.sub(root)
            if not d.startswith('/'):
                if not root.startswith('/'):
                    return None
                d = posixpath.join(root, d)
            return segs(d)
        if k == 'file':
            f, root = self.sub(c['filename']), self.sub(c['root'])
            if not f.startswith('/'):
                if not root.startswith('/'):
                    return None
                f = posixpath.join(root, f)
            return segs(f)
        sp = self.sub(STORES[c['store']])
        if not sp.startswith('/'):
            sp = self.base + '/' + sp
        return segs(sp)

    def naive_target(self, c):
        """where the request points lexically (independent of model and code); None when not applicable"""
        if c['k'] == 'dir':
            pi = path_info_of(c['target'])
            if not self.gate(c, pi):
                return None
            sec = '' if c['mount'] in ('/', 'global') else c['mount']
            br = urllib.parse.unquote(pi[len(sec) + 1:].lstrip('\\/'))
            root = self.root_of(c)
            if root is None:
                return None
            return segs(br) if br.startswith('/') else segs('/' + '/'.join(root) + '/' + br)
        if c['k'] == 'sess' and c['cookie'] is not None:
            idv = cookie_id(c['cookie'])
            if idv in (None, 'ERR'):
                return None
            return segs('/' + '/'.join(self.root_of(c)) + '/session-' + idv[0])
        return None

    def oracle(self, c, obs):
        c = self.inst(c)
        if c['k'] == 'prim':
            return []
        fails = []
        root = self.root_of(c)
        who = {'dir': 'staticdir', 'file': 'staticfile', 'sess': 'filesession', 'clean': 'filesession'}[c['k']]
        for op, path, mod, reach in obs['raw']:
            if reach is None:
                self.count('oracle:nul-path-never-reaches-kernel')
                continue
            if mod.startswith('filelock') and op in ('stat', 'lstat'):
                continue    # realpath() of the lock file's directory: component look-ups the kernel makes anyway
            if root is None:
                fails.append((who + '-fs-access-with-relative-dir', '%s(%r) although no absolute root is configured'
                              % (op, path)))
                continue
            rs = segs(reach)
            lex = segs(path if path.startswith('/') else self.base + '/' + path)
            if inside(root, lex) and not inside(root, rs):
                # a/../sibling/../a: the path denotes a location inside; the walk only passed through outside
                self.count('oracle:walk-passes-outside-on-the-way-to-an-inside-location')
                continue
            if inside(root, rs):
                if c['k'] in ('sess', 'clean') and rs == root and op in ('open', 'remove') and mod.startswith(
                        'cherrypy.lib.sessions'):
                    self.count('oracle:storage-dir-itself-opened')
                continue
            if op in ('stat', 'lstat', 'mkdir') and inside(rs, root):
                continue    # resolution of the root itself (ancestors)
            fails.append((who + '-outside-root',
                          '%s called %s(%r), which reaches %s - outside the configured %s /%s'
                          % (mod, op, path, reach, 'storage_path' if who == 'filesession' else 'root', '/'.join(root))))
            break
        st = obs['status']
        if c['k'] in ('dir', 'file'):
            ok = {200, 403, 400, 404} | ({500} if root is None else set())
            if st not in ok:
                fails.append((who + '-status-%s' % st, 'status %s (%s)' % (st, obs.get('escaped'))))
        if c['k'] == 'sess' and st not in (200, 400):
            if st == 500 and obs['api'] and any(o[0] == 2 for o in obs['api']):
                self.count('sessions:500-when-the-id-names-a-directory(not a C11 clause)')
            else:
                fails.append((who + '-status-%s' % st, 'status %s (%s)' % (st, obs.get('escaped'))))
        nt = self.naive_target(c)
        if nt is not None and root is not None and not inside(root, nt) and not fails:
            if st not in (400, 403, 404):
                fails.append((who + '-escape-not-refused',
                              'the request denotes /%s outside /%s but was answered %s instead of 400/403/404'
                              % ('/'.join(nt), '/'.join(root), st)))
        # lexical escapes that only a missing directory stopped (informational)
        if root is not None and not fails:
            for op, path, mod, reach in obs['raw']:
                if reach is not None and mod.startswith(('cherrypy.lib.static', 'cherrypy.lib.sessions')):
                    p = path if path.startswith('/') else self.base + '/' + path
                    if not inside(root, segs(p)):
                        self.count('oracle:lexical-escape-stopped-by-missing-directory')
                        break
        return fails

    def nontrivial(self, c, obs):
        c = self.inst(c)
        k = c['k']
        if k == 'prim':
            s = c['a'] + c['b']
            self.count('prim:f%d' % c['f'])
            return ('prim', c['f'], len(s) // 4, '..' in s, '%' in s, '//' in s, s[:1] == '/')
        if k == 'clean':
            self.count('clean')
            return ('clean', c['store'])
        src = c['target'] if k in ('dir', 'file') else (c['cookie'] or '')
        low = src.lower()
        feats = ('..' in src, '%2e' in low, '%25' in low, '%2f' in low, '\\' in src or '%5c' in low,
                 '%00' in low or '\\000' in src, '//' in src, '%c0' in low)
        self.count('%s:status=%s' % (k, obs['status']))
        for name, on in zip(('dotdot', 'pct2e', 'double-encoded', 'pct2f', 'backslash', 'nul', 'dslash', 'overlong'),
                            feats):
            if on:
                self.count('%s:feature:%s' % (k, name))
        if obs['seen'] is None:
            self.count('%s:tool-not-reached' % k)
            return None
        if k == 'dir':
            return (k, c['dirv'], c['mount'], bool(c['index']), c['method'], feats, obs['status'], len(obs['api']))
        if k == 'file':
            return (k, c['filename'], c['mount'], feats, obs['status'], len(obs['api']))
        return (k, c['store'], c['action'], feats, obs['status'], len(obs['api']),
                tuple(o[0] for o in obs['api']))

    def shrink(self, c, still_fails):
        c = dict(c)
        if c['k'] not in ('dir', 'file', 'sess'):
            return c
        # keep what makes the witness telling: same status and the same kinds of file-system calls
        o0 = self.impl(c)
        want = (o0['status'], sorted({o[0] for o in o0['api']}))
        crude = still_fails

        def still_fails(cc):
            if not crude(cc):
                return False
            o = self.impl(cc)
            return (o['status'], sorted({x[0] for x in o['api']})) == want
        if c['k'] in ('dir', 'file'):
            for key, val in (('index', ''), ('match', ''), ('method', 'GET')):
                if c.get(key) != val and key in c and still_fails(dict(c, **{key: val})):
                    c[key] = val
            parts = c['target'].split('/')
            parts = core.shrink_list(parts, lambda ps: still_fails(dict(c, target='/'.join(ps))))
            c['target'] = '/'.join(parts)
        elif c['k'] == 'sess' and c['cookie']:
            idv = cookie_id(c['cookie'])
            if isinstance(idv, list):
                parts = idv[0].split('/')
                parts = core.shrink_list(parts, lambda ps: still_fails(dict(c, cookie=cookie_header('/'.join(ps), 1))))
                c['cookie'] = cookie_header('/'.join(parts), 1 if not all(ch in _COOKIE_LEGAL for ch in '/'.join(parts))
                                            else 0)
                if not still_fails(c):
                    c['cookie'] = cookie_header('/'.join(parts), 1)
        return c


def _listdir(p):
    return os.listdir(p)


CHECK = C11
