"""C04 - multipart bodies are parsed byte-exactly for every content and chunking."""
import itertools
import re

from .. import core, sx
from ..impl import wsgi

MAXRAM = 1000
BCHARS = "abcXYZ019'()+_-./:=? "
LATIN = 'iso-8859-1'


# ---------------------------------------------------------------- ground truth helpers
def delim_like(b, line):
    """would read_lines_to_boundary take this line (at a line start) for a delimiter?"""
    return line.startswith(b'--') and line.strip() in (b, b + b'--')


def no_delim_line(b, content):
    """the weakest precondition under which the code is exact (Props/C04.v no_delim_line)"""
    return not any(delim_like(b, ln) for ln in content.split(b'\n'))


def rfc_ok(b, content):
    """RFC 2046: the content (preceded by the CRLF that ends the headers) does not contain CRLF--boundary"""
    return (b'\r\n' + b) not in (b'\r\n' + content)


def ct_value(ct):
    return 'text/plain' if not ct else ct.split(';')[0].strip()


def ct_charset(ct):
    m = re.search(r'charset=([\w-]+)', ct or '', flags=re.I)
    return m.group(1).lower() if m else None


def is_proc_type(ct):
    v = ct_value(ct)
    return v == 'application/x-www-form-urlencoded' or v.split('/', 1)[0] == 'multipart'


def q_param(text):
    """a quoted-string parameter as curl / requests / urllib3 write it: '"' is sent as backslash-quote (the generator
    produces no backslashes: parse_header's handling of those is outside the modelled subset and the property text)"""
    return text.replace('"', '\\"').encode('latin-1')


def comma_split_defect(p):
    """httputil.RE_HEADER_SPLIT takes a comma for an element separator when an even number of double quotes follows
    it, counting the quote of a backslash-quote pair: a comma inside the quoted name/filename followed by an odd
    number of escaped quotes is (wrongly) split at (recorded finding)"""
    if p['name'] is None and p['filename'] is None:
        return False
    line = std_headers({'name': p['name'], 'filename': p['filename'], 'ct': None}).split(b'\r\n')[0]
    inq = False
    i = 0
    while i < len(line):
        ch = line[i:i + 1]
        if ch == b'\\' and inq:
            i += 2
            continue
        if ch == b'"':
            inq = not inq
        elif ch == b',' and inq and line[i + 1:].count(b'"') % 2 == 0:
            return True
        i += 1
    return False


def std_headers(p):
    out = b''
    if p['name'] is not None or p['filename'] is not None:
        out += b'Content-Disposition: form-data'
        if p['name'] is not None:
            out += b'; name="' + q_param(p['name']) + b'"'
        if p['filename'] is not None:
            out += b'; filename="' + q_param(p['filename']) + b'"'
        out += b'\r\n'
    if p['ct'] is not None:
        out += b'Content-Type: ' + p['ct'].encode('latin-1') + b'\r\n'
    return out


def build_body(c):
    b = b'--' + c['ib'].encode('ascii')
    out = [c['pre']]
    for p in c['parts']:
        h = p.get('hraw')
        if h is None:
            h = std_headers(p)
        out += [b, b'\r\n', h, b'\r\n', p['body'], b'\r\n']
    out += [b, b'--', c['tail']]
    return b''.join(out)


def classify(c):
    """input class of a case (decided from its content, not from the generator's label)"""
    b = b'--' + c['ib'].encode('ascii')
    if c.get('cut') is not None:
        return 'truncated'
    if not re.fullmatch(r'[ -~]{0,200}[!-~]', c['ib']):
        return 'badboundary'
    if c.get('chunked'):
        return 'chunked'
    if any(is_proc_type(p['ct']) for p in c['parts']):
        return 'proc'
    if any(not no_delim_line(b, p['body']) for p in c['parts']):
        if all(rfc_ok(b, p['body']) for p in c['parts']):
            return 'lenient'
        return 'invalid'
    if not no_delim_line(b, c['pre']) and c['pre']:
        return 'invalid'
    for p in c['parts']:
        if p['filename'] is None:
            cs = ct_charset(p['ct'])
            try:
                p['body'].decode(LATIN if cs in (LATIN, 'latin-1') else 'utf-8')
            except UnicodeDecodeError:
                return 'undecodable'
    return 'main'


class C04(core.Check):
    pid = 'C04'
    props_files = ('Props/C04.v',)
    refuted_files = ('Refuted/R_C04.v',)
    model_fn = ('run_C04', 'Model.M_multipart')
    xcheck_n = 30
    rule = ('multipart/form-data and multipart/mixed requests of 0..6 parts posted through the in-process WSGI driver '
            '(unclamped wsgi.input followed by pipelined bytes, so over-reading is observable); contents over all byte '
            'values built from CR, LF, CRLF, "--" runs, near-miss delimiters, sizes 0,1,999,1000,1001,10000 and lines '
            'longer than 64 KiB; field|file; preamble; with/without CRLF or epilogue after the close delimiter; socket '
            'fragmentation 1 byte..whole; RequestBody.bufsize 1..64 KiB; header-syntax variants; plus the bounded '
            'exhaustive enumeration of single-part contents over {CR,LF,-,b,x,SP}. A case is non-trivial when at least '
            'one part was delivered; distinct by (stream, mode, #parts, kinds, size classes, bufsize class, fragmented?)')
    assumptions = (
        'tempfile.TemporaryFile is a byte store (write then seek(0) then read returns what was written)',
        'the socket file returns between 1 and n bytes per read(n) and b"" only at EOF (as for C05)',
        'main stream = contents with no delimiter-like line (no line that starts with "--" and strips to the boundary '
        'or the close delimiter): the weakest precondition under which read_lines_to_boundary is exact; contents that '
        'only satisfy the RFC 2046 precondition (no CRLF--boundary) form the separate "lenient" stream',
        'part names / filenames are ISO-8859-1 text as read_headers decodes them; a plain field must be decodable '
        '(declared charset, else us-ascii/utf-8) - an undecodable field is answered 400 by design',
        'parse_header is modelled for quoted/unquoted name, filename, charset parameters without backslashes; '
        'filename*, unbalanced quotes, several comma-separated elements: the model abstains (MUnsup)',
        'the Content-Type boundary parameter contains no line break (the regexp "$" would accept a trailing LF)',
    )

    # ------------------------------------------------------------ setup
    def setup(self):
        import cherrypy
        from cherrypy import _cpreqbody
        self._rb = _cpreqbody.RequestBody
        self._bufsize0 = _cpreqbody.RequestBody.bufsize
        self._maxram0 = _cpreqbody.Part.maxrambytes
        self._part = _cpreqbody.Part
        sink = self.sink = {}

        def desc(p):
            f = p.file
            if f is not None:
                f.seek(0)
                data = f.read()
                f.seek(0)
            else:
                data = p.value
            return {'name': p.name, 'filename': p.filename, 'ct': p.content_type.value,
                    'ctparams': [[k, v] for k, v in p.content_type.params.items()], 'data': data,
                    'spooled': f is not None}

        def val(v):
            return [0, v] if isinstance(v, str) else [1, desc(v)]

        class Root:
            @cherrypy.expose
            def index(self, **kw):
                body = cherrypy.request.body
                sink['params'] = [[k, isinstance(v, list), [val(x) for x in (v if isinstance(v, list) else [v])]]
                                  for k, v in kw.items()]
                sink['parts'] = [desc(p) for p in body.parts]
                sink['done'] = bool(body.fp.done)
                return 'ok'

        self.app = wsgi.make_app(Root(), {'/': {'request.show_tracebacks': True}})

    def teardown(self):
        if getattr(self, '_rb', None) is not None:
            self._rb.bufsize = self._bufsize0
            self._part.maxrambytes = self._maxram0

    # ------------------------------------------------------------ generation
    def gen_boundary(self, rng):
        r = rng.random()
        if r < .35:
            return rng.choice(['b', 'X', 'bnd', '-', '--', 'a-b', '----------------------------735323031399963166993862150'])
        n = rng.choice([1, 2, 3, 5, 8, 20, 70])
        s = ''.join(rng.choice(BCHARS) for _ in range(n))
        if s.endswith(' '):
            s = s[:-1] + 'z'
        return s

    def gen_content(self, rng, ib, size, ascii_only=False):
        """adversarial content of about [size] bytes; not yet checked against no_delim_line"""
        b = b'--' + ib.encode('ascii')
        if size == 0:
            return b''
        toks = [b'\r', b'\n', b'\r\n', b'--', b'-', b, b[:-1], b + b'x', b + b'--', b + b'-', b + b' ', b' ' + b,
                b'x' + b, ib.encode('ascii'), b' ', b'\t', b'x', b'\r\r\n', b'\n\r', b'\r\n--', b'\n--', b'---',
                b + b'--x', b + b'\t\r\n', b'\r\n' + b[:-1] + b'\r\n', b + b'\r']
        style = rng.choice(['tok', 'tok', 'bin', 'mix', 'longline', 'lines'])
        if size > 20000:
            style = 'longline'      # the point of these is a line longer than the 64 KiB readline size
        out = bytearray()
        if style == 'bin' and not ascii_only:
            out += bytes(rng.randrange(256) for _ in range(min(size, 300)))
            while len(out) < size:
                out += out[:size - len(out)]
        elif style == 'longline':
            unit = bytes(rng.choice(b'abcdefgh -\r') for _ in range(61))
            out += (unit * (size // 61 + 1))[:size]
        elif style == 'lines':
            while len(out) < size:
                out += bytes(rng.choice(b'abc-') for _ in range(rng.randrange(0, 40))) + rng.choice([b'\n', b'\r\n'])
        else:
            while len(out) < size:
                if style == 'mix' and rng.random() < .5 and not ascii_only:
                    out.append(rng.randrange(256))
                elif size > 200 and rng.random() < .6:
                    out += bytes(rng.choice(b'abcdefgh') for _ in range(rng.randrange(1, 60)))
                else:
                    out += rng.choice(toks)
        out = bytes(out[:size])
        # adversarial endings (content ending in CR, LF, CRLF, dashes, a boundary prefix)
        if rng.random() < .4:
            end = rng.choice([b'\r', b'\n', b'\r\n', b'--', b'-', b[:-1], b'\r\n--', b'\n\r', b'\r\r', b'\n\n', b + b'x'])
            out = (out[:max(0, size - len(end))] + end) if size >= len(end) else end[:size]
        return out

    def repair(self, b, content):
        """make the content satisfy no_delim_line by spoiling each delimiter-like line (same length)"""
        lines = content.split(b'\n')
        for i, ln in enumerate(lines):
            if delim_like(b, ln):
                lines[i] = b'-+' + ln[2:]
        return b'\n'.join(lines)

    def gen_name(self, rng):
        r = rng.random()
        if r < .55:
            return rng.choice(['a', 'b', 'c', 'file', 'parts', 'x y', 'n1'])
        if r < .62:
            return ''
        if r < .67:
            # quotes inside the quoted string, with the separators of the parameter list around them
            return rng.choice(['5" floppy; backup.img', 'a"b', 'say "hi"; then', '";"', ';"', '"', 'x"; name="y', '""; filename=z'])
        n = rng.randrange(1, 9)
        alphabet = [chr(i) for i in range(32, 256) if chr(i) not in '"\\'] + ['\t', '\x0b', '\x1f', '\x00']
        return ''.join(rng.choice(alphabet) for _ in range(n))

    CTS_FILE = [None, 'text/plain', 'application/octet-stream', 'image/png', 'Text/HTML', 'application/json',
                'text/plain; charset=iso-8859-1', 'text/plain;charset=UTF-8', 'x-whatever', 'Multipart/mixed',
                'application/X-WWW-FORM-URLENCODED']

    def gen_part(self, rng, ib, size):
        b = b'--' + ib.encode('ascii')
        kind = rng.choice(['field', 'field', 'file', 'file', 'nameless', 'emptyfn'])
        p = {'name': None, 'filename': None, 'ct': None, 'body': b''}
        if kind != 'nameless' or rng.random() < .3:
            p['name'] = self.gen_name(rng)
        if kind == 'file' or (kind == 'nameless' and rng.random() < .5):
            p['filename'] = self.gen_name(rng) or 'f.bin'
        if kind == 'emptyfn':
            p['filename'] = ''
        if p['filename'] is not None:
            p['ct'] = rng.choice(self.CTS_FILE)
            p['body'] = self.gen_content(rng, ib, size)
        else:
            mode = rng.choice(['ascii', 'ascii', 'latin', 'utf8'])
            if mode == 'ascii':
                p['ct'] = rng.choice([None, None, 'text/plain', 'text/plain; charset=us-ascii'])
                p['body'] = bytes(x & 0x7f for x in self.gen_content(rng, ib, size, ascii_only=True))
            elif mode == 'latin':
                p['ct'] = rng.choice(['text/plain; charset=iso-8859-1', 'text/plain;charset=Latin-1',
                                      'application/octet-stream; charset=ISO-8859-1'])
                p['body'] = self.gen_content(rng, ib, size)
            else:
                p['ct'] = rng.choice([None, 'text/plain; charset=utf-8'])
                txt = ''.join(rng.choice(['a', '\n', '\r\n', '--', 'é', '€', '\U0001f600', 'ࠀ', '퟿',
                                          '', '\x7f', '\x80', '߿', '￿', '\U0010ffff'])
                              for _ in range(max(1, size // 2)))
                p['body'] = txt.encode('utf-8')[:size] if size < 50 else txt.encode('utf-8')
                try:
                    p['body'].decode('utf-8')
                except UnicodeDecodeError:
                    p['body'] = p['body'].decode('utf-8', 'ignore').encode('utf-8')
        return p

    SIZES = [0, 0, 1, 1, 2, 3, 5, 8, 13, 40, 100, 300, 999, 1000, 1001, 2000]
    BUFS = [1, 2, 3, 5, 7, 8, 16, 64, 100, 1024, 8192, 8192, 65536]

    def gen_frags(self, rng, n, bufsize):
        fm = rng.choice(['none', 'none', 'ones', 'small', 'rand', 'big'])
        if fm == 'none':
            return []
        if fm == 'ones':
            return [1] * min(n, 3000)
        if fm == 'small':
            return [rng.randrange(1, 9) for _ in range(rng.randrange(1, 200))]
        if fm == 'rand':
            return [rng.randrange(1, max(2, n)) for _ in range(rng.randrange(1, 40))]
        return [rng.randrange(1000, 70000) for _ in range(rng.randrange(1, 10))]

    def gen_case(self, rng, big=False, want=None):
        ib = self.gen_boundary(rng)
        b = b'--' + ib.encode('ascii')
        nparts = rng.choice([0, 1, 1, 2, 2, 3, 4, 5, 6])
        if big:
            nparts = rng.choice([1, 2, 3])
        sizes = [rng.choice(self.SIZES) for _ in range(nparts)]
        if big:
            sizes[rng.randrange(nparts)] = rng.choice([10000, 10000, 70000])
        elif sum(sizes) > 2500:
            sizes = [s if s < 999 else rng.choice([999, 1000, 1001]) for s in sizes][:3]
            nparts = len(sizes)
        parts = [self.gen_part(rng, ib, s) for s in sizes]
        # share names so that scalar/list grouping is exercised
        if nparts >= 2 and rng.random() < .5:
            named = [p for p in parts if p['name'] is not None]
            if len(named) >= 2:
                for p in rng.sample(named, rng.randrange(2, len(named) + 1)):
                    p['name'] = named[0]['name']
        lenient = None
        for p in parts:
            if p['ct'] is not None and is_proc_type(p['ct']):
                p['ct'] = 'text/plain'
            if not no_delim_line(b, p['body']):
                if want == 'lenient' and lenient is None and rfc_ok(b, p['body']):
                    lenient = p
                else:
                    p['body'] = self.repair(b, p['body'])
        pre = b''
        r = rng.random()
        if r < .25:
            pre = rng.choice([b'This is a preamble.\r\n', b'\r\n', b'\n', b'x\r\n' + b[:-1] + b'\r\n', b'-- \r\n',
                              b'junk without newline\n', b + b'x\r\n' + b' \r\n'])
        tail = rng.choice([b'\r\n', b'\r\n', b'', b'', b'\r\nepilogue\r\n', b'\n', b' \t\r\n', b'\r\nmore\r\n' + b + b'\r\n'])
        if not parts and b in tail:
            tail = b'\r\n'
        bufsize = rng.choice(self.BUFS)
        if big:
            bufsize = rng.choice([256, 1024, 8192, 65536])
        c = {'ib': ib, 'parts': parts, 'pre': pre, 'tail': tail, 'bufsize': bufsize,
             'mode': rng.choice(['form', 'form', 'mixed']),
             'extra': rng.choice([b'', b'', b'GET /next HTTP/1.1\r\n\r\n', b'\r\n' + b + b'--\r\n'])}
        n = len(build_body(c))
        c['frags'] = self.gen_frags(rng, n, bufsize) if not big else rng.choice([[], [rng.randrange(1, 9000) for _ in range(20)]])
        return c

    def gen_linesize_boundary(self, rng, quick):
        """the last line of a part ends exactly at / around a multiple of the 64 KiB that read_lines_to_boundary
        asks readline() for: the CRLF before the delimiter straddles the limit (k * 65536 - 1), sits just before
        or just after it; with and without earlier lines; content ending in CR"""
        lens = [65536 * k + d for k in ((1, 2) if quick else (1, 2, 3)) for d in (-2, -1, 0, 1)]
        for n in lens:
            for head in ((b'',) if quick else (b'', b'hello\r\n', b'x\n')):
                for cr_end in (False, True):
                    c = self.gen_case(rng, big=True)
                    c['parts'] = c['parts'][:1]
                    unit = bytes(rng.choice(b'abcdefgh -') for _ in range(53))
                    line = (unit * (n // 53 + 1))[:n]
                    if cr_end:
                        line = line[:-1] + b'\r'
                    c['parts'][0]['body'] = head + line
                    c['parts'][0]['ct'] = rng.choice([None, 'application/octet-stream'])
                    c['pre'] = b''
                    m = len(build_body(c))
                    c['frags'] = rng.choice([[], [rng.randrange(1, 9000) for _ in range(20)]])
                    self.count('linesize-boundary')
                    yield c

    LENIENT_SHAPES = [b'x\n%s\r\ny', b'x\n%s', b'\n%s\r\n', b'x\n%s--\r\nrest', b'abc\n%s \t\r\nmore', b'x\n%s\ny',
                      b'x\r\n\n%s\r\n']

    def gen_lenient(self, rng):
        c = self.gen_case(rng)
        b = b'--' + c['ib'].encode('ascii')
        if not c['parts']:
            c['parts'] = [self.gen_part(rng, c['ib'], 0)]
        for p in c['parts']:
            p['body'] = self.repair(b, p['body'])
        p = rng.choice(c['parts'])
        body = rng.choice(self.LENIENT_SHAPES) % b
        if p['filename'] is None and p['ct'] and 'utf-8' in p['ct'].lower():
            p['ct'] = None
        p['body'] = body
        return c

    def gen_proc(self, rng):
        c = self.gen_case(rng)
        if not c['parts']:
            c['parts'] = [self.gen_part(rng, c['ib'], 5)]
        p = rng.choice(c['parts'])
        p['ct'] = rng.choice(['application/x-www-form-urlencoded', 'multipart/mixed; boundary=inner', 'multipart/form-data',
                              'multipart/x'])
        if rng.random() < .5:
            p['body'] = rng.choice([b'a=1&b=2', b'--inner\r\n\r\nx\r\n--inner--', b''])
        return c

    HDR_VARIANTS = [
        lambda n, f, t: b'content-disposition: form-data; name="%s"\r\n' % n,
        lambda n, f, t: b'CONTENT-DISPOSITION:form-data;name="%s"\r\n' % n,
        lambda n, f, t: b'X-Other: 1\r\nContent-Disposition:   form-data ;  name = "%s"  \r\nX-More: a, b\r\n' % n,
        lambda n, f, t: b'Content-Disposition: form-data; name="%s"; size=3; x="y;z"\r\n' % n,
        lambda n, f, t: b'Content-Disposition: form-data; NAME="%s"\r\nContent-Length: 5\r\n' % n,
        lambda n, f, t: b'Content-Disposition: attachment; name="%s"\r\nContent-Transfer-Encoding: binary\r\n' % n,
    ]

    def gen_hdr(self, rng):
        """same parts, header blocks written in another (equivalent) syntax"""
        c = self.gen_case(rng)
        for p in c['parts']:
            if p['name'] is None or p['filename'] is not None:
                continue
            n = q_param(p['name'])
            v = rng.choice(self.HDR_VARIANTS)
            h = v(n, None, None)
            if rng.random() < .3 and re.fullmatch(r'[a-z0-9]+', p['name']):
                h = b'Content-Disposition: form-data; name=%s\r\n' % n
            if p['ct'] is not None:
                h += rng.choice([b'Content-Type: %s\r\n', b'content-type:%s\r\n', b'Content-Type:  %s \r\n']) % p['ct'].encode()
            p['hraw'] = h
        return c

    def gen_truncated(self, rng):
        c = self.gen_case(rng)
        n = len(build_body(c))
        c['cut'] = rng.randrange(0, n) if n else 0
        return c

    def gen_chunked(self, rng):
        """Transfer-Encoding: chunked, no Content-Length (outside the property's quantifier, which speaks of a
        declared Content-Length): correspondence only"""
        c = self.gen_case(rng)
        c['chunked'] = True
        c['extra'] = b''
        return c

    def gen_badboundary(self, rng):
        """boundary parameter refused by process_multipart (HTTPError 400)"""
        c = self.gen_case(rng)
        c['ib'] = rng.choice(['', 'ab ', ' ', 'x' * 202, 'a\x7fb', 'a\tb', 'b' * 201 + ' '])
        return c

    def gen_undecodable(self, rng):
        c = self.gen_case(rng)
        if not c['parts']:
            c['parts'] = [self.gen_part(rng, c['ib'], 0)]
        p = rng.choice(c['parts'])
        p['name'], p['filename'] = p['name'] or 'u', None
        p['ct'] = rng.choice([None, 'text/plain', 'text/plain; charset=utf-8', 'text/plain; charset=us-ascii'])
        p['body'] = rng.choice([b'\xff', b'ab\xc3', b'\xc0\x80', b'\xed\xa0\x80', b'\xf4\x90\x80\x80', b'\xe0\x80\x80',
                                b'x\x80y', b'\xf0\x80\x80\x80'])
        return c

    def exhaustive(self, maxlen, bufsizes):
        """every single-part content over {CR, LF, '-', 'b', 'x', SP} up to maxlen, boundary 'b'"""
        alpha = [b'\r', b'\n', b'-', b'b', b'x', b' ']
        for L in range(0, maxlen + 1):
            for tup in itertools.product(alpha, repeat=L):
                body = b''.join(tup)
                for bs in bufsizes:
                    for fn in (None, 'f'):
                        yield {'ib': 'b', 'parts': [{'name': 'a', 'filename': fn, 'ct': None, 'body': body}],
                               'pre': b'', 'tail': b'\r\n', 'bufsize': bs, 'mode': 'form', 'extra': b'', 'frags': [],
                               'exh': True}

    def cases(self):
        rng = self.rng
        self.notes.append(
            'stream "chunked" (Transfer-Encoding: chunked, no Content-Length) is outside the quantifier of C04 and is run '
            'for the model/implementation correspondence only; observed there: process_multipart stops after the first '
            'part whenever the reader has already hit EOF while filling its buffer (fp.done is used as "close delimiter '
            'seen"), so following parts are silently dropped - see distribution key chunked:parts-silently-dropped')
        self.notes.append(
            'header folding inside a part header (continuation line) is joined with ", " by read_headers, so a folded '
            'Content-Disposition loses its name parameter; folding is not generated (outside the property text)')
        quick = self.tier == 'quick'
        out = []
        n_main = 3000 if quick else 40000
        out += [self.gen_case(rng) for _ in range(n_main)]
        out += [self.gen_case(rng, big=True) for _ in range(40 if quick else 300)]
        out += list(self.gen_linesize_boundary(rng, quick))
        out += [self.gen_hdr(rng) for _ in range(300 if quick else 4000)]
        out += [self.gen_lenient(rng) for _ in range(60 if quick else 1000)]
        out += [self.gen_proc(rng) for _ in range(40 if quick else 500)]
        out += [self.gen_truncated(rng) for _ in range(150 if quick else 3000)]
        out += [self.gen_undecodable(rng) for _ in range(60 if quick else 1000)]
        out += [self.gen_chunked(rng) for _ in range(150 if quick else 2000)]
        out += [self.gen_badboundary(rng) for _ in range(30 if quick else 300)]
        ex = list(self.exhaustive(3, (1, 8192)) if quick else
                  itertools.chain(self.exhaustive(5, (1, 3, 8192)), self.exhaustive(6, (2,))))
        # contents that contain a real delimiter are outside every stream
        ex = [c for c in ex if classify(c) != 'invalid']
        out += ex
        out = [c for c in out if classify(c) != 'invalid']
        for c in out:
            self.count('stream:' + classify(c))
            if any(p.get('hraw') is not None for p in c['parts']):
                self.count('header-syntax-variants')
            if c.get('exh'):
                self.count('exhaustive-enumeration')
        return out

    def search_cases(self, around=None):
        rng = self.rng
        for c in around or []:
            yield c
        for _ in range(6000):
            yield self.gen_case(rng)

    # ------------------------------------------------------------ model side
    def wire(self, c):
        body = build_body(c)
        if c.get('cut') is not None:
            body = body[:c['cut']]
        return body

    def encode(self, c):
        body = self.wire(c)
        pr = None
        if c.get('cut') is None and all(p.get('hraw') is None for p in c['parts']):
            pr = [[c['pre'],
                   [[None if p['name'] is None else [p['name']], None if p['filename'] is None else [p['filename']],
                     None if p['ct'] is None else [p['ct']], p['body']] for p in c['parts']],
                   c['tail']]]
        return [body + c['extra'], c['frags'], None if c.get('chunked') else [len(body)], c['bufsize'], MAXRAM,
                c['mode'] == 'mixed', c['ib'], pr]

    # ------------------------------------------------------------ implementation side
    def impl(self, c):
        body = self.wire(c)
        self._rb.bufsize = c['bufsize']
        self.sink.clear()
        ib = c['ib']
        ctype = 'multipart/%s; boundary="%s"' % ('form-data' if c['mode'] == 'form' else 'mixed', ib)
        if re.fullmatch(r"[A-Za-z0-9'()+_./:?-]+", ib) and len(ib) % 2:
            ctype = 'multipart/%s; boundary=%s' % ('form-data' if c['mode'] == 'form' else 'mixed', ib)
        try:
            framing = ('Transfer-Encoding', 'chunked') if c.get('chunked') else ('Content-Length', str(len(body)))
            res = wsgi.call(self.app, 'POST', '/', headers=[('Content-Type', ctype), framing],
                            body=body + c['extra'], frags=list(c['frags']), chunked=True)
        finally:
            self._rb.bufsize = self._bufsize0
        obs = {'status': res['status'], 'consumed': res['consumed'], 'clen': len(body), 'escaped': res['escaped']}
        if res['status'] == 200 and 'params' in self.sink:
            obs['params'] = self.sink['params']
            obs['parts'] = self.sink['parts']
            obs['done'] = self.sink['done']
        elif res['status'] and res['status'] >= 500:
            m = re.findall(rb'\n(\w+(?:\.\w+)*)(?::[^\n]*)?\n', res['body'])
            txt = res['body'].decode('latin-1')
            m = re.findall(r'^(\w+)(?::.*)?$', txt.replace('&#39;', "'"), flags=re.M)
            excs = [x for x in m if x.endswith('Error') or x.endswith('Exception')]
            obs['exc'] = excs[-1] if excs else None
        self.count('status:%s' % res['status'])
        self.count('bufsize:%s' % ('1' if c['bufsize'] == 1 else '2-8' if c['bufsize'] <= 8 else '9-1024'
                                   if c['bufsize'] <= 1024 else '>1024'))
        self.count('nparts:%d' % len(c['parts']))
        for p in c['parts']:
            n = len(p['body'])
            self.count('size:%s' % ('0' if n == 0 else '1' if n == 1 else '2-998' if n < 999 else str(n)
                                    if n <= 1001 else '1002-9999' if n < 10000 else '10000' if n == 10000 else '>64K'
                                    if n > 65536 else '>10000'))
            self.count('kind:%s' % ('file' if p['filename'] else 'field' if p['filename'] is None else 'empty-filename'))
        self.count('frags:%s' % ('none' if not c['frags'] else 'ones' if set(c['frags']) == {1} else 'other'))
        return obs

    @staticmethod
    def _npart(d):
        return [[] if d['name'] is None else [sx.norm(d['name'])], [] if d['filename'] is None else [sx.norm(d['filename'])],
                sx.norm(d['ct']), [[sx.norm(k), sx.norm(v)] for k, v in d['ctparams']],
                sx.norm(d['data'] if d['data'] is not None else b''), 1 if d['spooled'] else 0]

    def compare(self, c, mo, obs):
        if isinstance(mo, str):
            return 'model driver: %s' % mo[:80]
        st, m_params, m_kept, m_taken, m_done, m_pr = mo
        if m_pr != [] and m_pr != 1:
            if any('"' in (p[k] or '') for p in c['parts'] for k in ('name', 'filename')):
                # encode_mp prints header-safe names only (no double quote, no backslash: the subset the
                # round-trip statement is about); the sender's backslash-quote form is outside it
                self.count('printer-tie-skipped(name with a double quote)')
            else:
                return 'encode_mp (Coq printer) differs from the generator\'s body'
        if st in (4, 5):
            self.count('model-abstains:%d' % st)
            return None
        if st == 6:
            return 'model ran out of fuel'
        if st == 0:
            if obs['status'] != 200:
                return 'model parses the body, implementation answered %s (%s)' % (obs['status'], obs.get('exc'))
            ip = [[sx.norm(k), 1 if il else 0, [[0, sx.norm(v[1])] if v[0] == 0 else [1, self._npart(v[1])] for v in vs]]
                  for k, il, vs in obs['params']]
            if ip != m_params:
                return 'handler arguments differ from the model\'s params'
            if [self._npart(d) for d in obs['parts']] != m_kept:
                return 'request.body.parts differs from the model'
            if m_taken != obs['consumed']:
                return 'bytes taken from wsgi.input: model %d impl %d' % (m_taken, obs['consumed'])
            if bool(m_done) != obs['done']:
                return 'fp.done: model %s impl %s' % (m_done, obs['done'])
            return None
        if st in (400, 413):
            # HTTPError(400): malformed multipart framing / part headers, or an undecodable field
            if obs['status'] != st:
                return 'model status %d, implementation %s (%s)' % (st, obs['status'], obs.get('exc'))
            if m_taken != obs['consumed']:
                return 'bytes taken from wsgi.input before the %d: model %d impl %d' % (st, m_taken, obs['consumed'])
            return None
        return 'unexpected model status %r' % (st,)

    # ------------------------------------------------------------ property oracle
    def expected(self, c):
        """what the handler must receive, from the generator's parts alone"""
        vals = []
        for p in c['parts']:
            if p['filename'] is None:
                cs = ct_charset(p['ct'])
                try:
                    v = ('field', p['body'].decode(LATIN if cs in (LATIN, 'latin-1') else 'utf-8'))
                except UnicodeDecodeError:
                    v = ('field', None)
            else:
                v = ('file', p['filename'], ct_value(p['ct']), p['body'])
            vals.append((p['name'], v))
        return vals

    @staticmethod
    def _seen(v):
        if v[0] == 0:
            return ('field', v[1])
        d = v[1]
        return ('file', d['filename'], d['ct'], d['data'])

    def oracle(self, c, obs):
        cls = classify(c)
        if cls == 'chunked':
            # no declared length: outside the property text; record what happens, demand nothing
            if obs.get('status') == 200 and 'params' in obs:
                n_seen = sum(len(vs) for _, _, vs in obs['params']) + (len(obs['parts']) if c['mode'] == 'form' else 0)
                if n_seen < len(c['parts']):
                    self.count('chunked:parts-silently-dropped(fp.done set by the buffer fill)')
            return []
        if cls in ('invalid', 'truncated', 'badboundary'):
            # malformed input (answered 400 since b533e91; 4xx-vs-5xx is C07's): only the bound on consumption is demanded
            if obs['consumed'] > obs['clen']:
                return [('overread', 'consumed %d bytes, Content-Length %d' % (obs['consumed'], obs['clen']))]
            return []
        fails = []
        pre = {'lenient': 'lf-delimiter:', 'proc': 'part-entity-processor:'}.get(cls, '')
        bad_split = any(comma_split_defect(p) for p in c['parts'])

        def fail(sig, what):
            if bad_split:
                fails.append(('header_elements:comma-split-ignores-escaped-quote',
                              'a Content-Disposition with a comma inside a quoted parameter and a backslash-quote '
                              'after it is split at that comma: ' + what))
            elif cls == 'lenient':
                fails.append(('read_lines_to_boundary:lf-only-delimiter-line',
                              'content with a line "--boundary" after a bare LF (no CRLF--boundary inside): ' + what))
            elif cls == 'proc':
                fails.append(('Part.process:part-with-registered-content-type',
                              'a part declared application/x-www-form-urlencoded or multipart/*: ' + what))
            else:
                fails.append((sig, what))
        if obs['consumed'] > obs['clen']:
            fails.append(('overread', 'consumed %d bytes from the connection, Content-Length %d'
                          % (obs['consumed'], obs['clen'])))
        if cls == 'undecodable':
            if obs['status'] not in (200, 400):
                fail('status', 'status %s for an undecodable field' % obs['status'])
            return fails
        if obs['status'] != 200 or 'params' not in obs:
            fail('status', 'well-formed multipart body answered %s (%s)' % (obs['status'], obs.get('exc') or obs.get('escaped')))
            return fails
        exp = self.expected(c)
        old = c['mode'] == 'mixed'
        groups = {}
        order = []
        nameless = [('file', p['filename'], ct_value(p['ct']), p['body']) for p in c['parts'] if p['name'] is None]
        for name, v in exp:
            if name is None and not old:
                continue
            key = 'parts' if name is None else name
            if key not in groups:
                groups[key] = []
                order.append(key)
            groups[key].append(v)
        got = {k: (il, [self._seen(v) for v in vs]) for k, il, vs in obs['params']}
        if sorted(got) != sorted(groups):
            fail('names', 'handler got arguments %r, sent names %r' % (sorted(got)[:8], sorted(groups)[:8]))
            return fails
        for k in order:
            il, vs = got[k]
            ev = groups[k]
            if len(vs) != len(ev):
                fail('part-count', 'name %r: %d values arrived, %d sent' % (k, len(vs), len(ev)))
                continue
            if il != (len(ev) > 1):
                fail('scalar-list', 'name %r: %s for %d parts' % (k, 'list' if il else 'scalar', len(ev)))
            for i, (a, e) in enumerate(zip(vs, ev)):
                if e[0] == 'field' and a[0] == 'file' and False:
                    pass
                if a[0] != e[0]:
                    fail('kind', 'name %r value %d arrived as %s, sent as %s' % (k, i, a[0], e[0]))
                elif a != e:
                    which = 'content' if a[:-1] == e[:-1] else 'metadata'
                    fail('part-' + which, 'name %r value %d: %s differs: got %r sent %r' % (
                        k, i, which, repr(a)[:120], repr(e)[:120]))
        seen_parts = [self._seen([1, d]) for d in obs['parts']]
        if not old:
            if seen_parts != nameless:
                fail('nameless-parts', 'request.body.parts: %d parts, %d nameless parts sent (or contents differ)'
                     % (len(seen_parts), len(nameless)))
        else:
            allp = [('file', p['filename'], ct_value(p['ct']), p['body']) for p in c['parts']]
            if seen_parts != allp or [d['name'] for d in obs['parts']] != [p['name'] for p in c['parts']]:
                fail('parts-order', 'request.body.parts is not the sent part list in wire order (%d vs %d parts)'
                     % (len(seen_parts), len(allp)))
        return fails

    def nontrivial(self, c, obs):
        if obs.get('status') != 200 or not c['parts']:
            return None

        def szc(n):
            return 0 if n == 0 else 1 if n < 999 else 2 if n <= 1001 else 3
        bs = c['bufsize']
        return (classify(c), c['mode'], len(c['parts']),
                tuple(('F' if p['filename'] else 'f') + str(szc(len(p['body']))) for p in c['parts']),
                0 if bs < 4 else 1 if bs < 100 else 2, bool(c['frags']), bool(c['pre']), c['tail'] == b'',
                c['parts'][0]['body'][-2:] if c.get('exh') else None, c['parts'][0]['body'] if c.get('exh') else None)

    def shrink(self, c, still_fails):
        c = dict(c)
        c['parts'] = core.shrink_list(c['parts'], lambda ps: still_fails(dict(c, parts=ps)))
        c['frags'] = core.shrink_list(c['frags'], lambda fr: still_fails(dict(c, frags=fr)))
        for key, val in (('pre', b''), ('extra', b''), ('tail', b'\r\n')):
            if c[key] != val and still_fails(dict(c, **{key: val})):
                c[key] = val
        parts = [dict(p) for p in c['parts']]
        for i, p in enumerate(parts):
            if len(p['body']) > 4000:
                continue

            def with_body(ix, i=i, p=p):
                ps = [dict(q) for q in parts]
                ps[i]['body'] = bytes(p['body'][j] for j in ix)
                return dict(c, parts=ps)
            idx = core.shrink_list(list(range(len(p['body']))), lambda ix: still_fails(with_body(ix)))
            p['body'] = bytes(p['body'][j] for j in idx)
        c['parts'] = parts
        return c


CHECK = C04
