"""C10 - requests are isolated from one another across time and threads.

G (ties): with Python's ast over the CURRENT sources of cherrypy/_cprequest.py, _cpreqbody.py, _cpwsgi.py,
_cptree.py, _cpdispatch.py and __init__.py the initialisation kind (FreshCopy | FreshEmpty | AliasOfClassAttr)
of every per-request / per-application attribute that shadows a class-level mutable collection is derived and
emitted as the Coq table `isolation_fields`; `forallb is_fresh_entry isolation_fields = true` and
`covers isolation_fields = true` are checked by vm_compute and the property theorems are instantiated with the
generated table.  `_Serving` must derive from threading.local and load/clear may only touch attributes of self.

D: request histories (<= 50 requests, 1..16 REAL threads, forced overlaps inside the handlers through
threading.Barrier with timeouts) over a two-application site whose paths enable different tool / hook /
processor / error_page sets and whose probe handlers mutate request.hooks, request.body.processors,
request.error_page, request.namespaces, request.toolmaps, request.params, request.config (top-level keys of the
request's own merged copy), request/response headers and cookies and set ad-hoc attributes on request and
response.  Every request returns two snapshots (on entering the handler; after its own mutations and after all
concurrent requests have mutated too).  The extracted model (M_isolation: heap + allocator + serving map) is run
on the same schedule with the generated table and predicts, per field, which marks each snapshot contains.
The oracle compares every first snapshot with the baseline of the same request served as the only request of a
fresh process (helper process, one fork per request), checks the identity tokens echoed through params,
thread-locals, headers and body, object identities of concurrently live requests, and a deep snapshot of all
class-level roots before/after the history."""
import ast
import json
import os
import subprocess
import sys
import threading

from .. import core, sx

# --------------------------------------------------------------------------------------------
# model fields (ids are the constructors of M_isolation.all_fields; root object of field f has id f)

FIELDS = [
    (0, 'request.hooks'), (1, 'request.error_page'), (2, 'request.namespaces'), (3, 'request.toolmaps'),
    (4, 'request.params'), (5, 'request.headers'), (6, 'request.cookie'), (7, 'request.header_list'),
    (8, 'request.config'), (9, 'response.headers'), (10, 'response.cookie'), (11, 'response.header_list'),
    (12, 'body.processors'), (13, 'body.attempt_charsets'), (14, 'part.attempt_charsets'),
    (15, 'request object'), (16, 'response object'), (17, 'hooks[point] lists'),
    (18, 'wsgiapp.pipeline'), (19, 'wsgiapp.config'), (20, 'app.config'), (21, 'app.namespaces'),
]
FIELD_ID = {n: i for i, n in FIELDS}
FIELD_NAME = {i: n for i, n in FIELDS}
NFIELDS = len(FIELDS)

# (class, attribute) -> model field
SOURCE_FIELD = {
    ('Request', 'hooks'): 0, ('Request', 'error_page'): 1, ('Request', 'namespaces'): 2, ('Request', 'toolmaps'): 3,
    ('Request', 'params'): 4, ('Request', 'headers'): 5, ('Request', 'cookie'): 6, ('Request', 'header_list'): 7,
    ('Response', 'headers'): 9, ('Response', 'cookie'): 10, ('Response', 'header_list'): 11,
    ('Entity', 'processors'): 12, ('RequestBody', 'processors'): 12, ('Part', 'processors'): 12,
    ('Entity', 'attempt_charsets'): 13, ('RequestBody', 'attempt_charsets'): 13, ('Part', 'attempt_charsets'): 14,
    ('CPWSGIApp', 'pipeline'): 18, ('CPWSGIApp', 'config'): 19,
    ('Application', 'config'): 20, ('Application', 'namespaces'): 21,
}
# class-level mutable attributes that are shared by design: no per-instance initialisation exists and none is
# demanded, PROVIDED no anchored code ever stores through them (checked)
SHARED_READONLY = {('Application', 'toolboxes'), ('AppResponse', 'headerNames')}

# (file, class, functions that run before any user code of a request / at construction of an application)
CLASSES = [
    ('_cprequest.py', 'Request', ['__init__', 'run', '_do_respond']),
    ('_cprequest.py', 'Response', ['__init__']),
    ('_cpreqbody.py', 'Entity', ['__init__']),
    ('_cpreqbody.py', 'Part', ['__init__']),
    ('_cpreqbody.py', 'RequestBody', ['__init__']),
    ('_cpwsgi.py', 'CPWSGIApp', ['__init__']),
    ('_cpwsgi.py', 'AppResponse', ['__init__', 'run']),
    ('_cptree.py', 'Application', ['__init__']),
]
ANCHOR_FILES = ['__init__.py', '_cprequest.py', '_cptree.py', '_cpreqbody.py', '_cpwsgi.py']

FRESH, EMPTY, ALIAS = 'FreshCopy', 'FreshEmpty', 'AliasOfClassAttr'
KCODE = {FRESH: 0, EMPTY: 1, ALIAS: 2}
RANK = {EMPTY: 0, FRESH: 1, ALIAS: 2}

# calls that build a new container from their (optional) single argument
COPY_FUNCS = {'dict', 'list', 'set', 'sorted', 'copy.copy', 'copy.deepcopy', 'copy', 'deepcopy',
              'collections.OrderedDict', 'OrderedDict'}
# constructors of empty containers
FRESH_CTORS = {'dict', 'list', 'set', 'HeaderMap', 'httputil.HeaderMap', 'SimpleCookie', 'HookMap', 'NamespaceSet',
               'reprconf.NamespaceSet', 'collections.OrderedDict', 'OrderedDict', 'bytearray'}
MUTATORS = {'append', 'extend', 'insert', 'remove', 'pop', 'clear', 'update', 'setdefault', 'popitem', 'sort',
            'reverse', 'add', 'discard', 'attach', '__setitem__', '__delitem__'}


class Unclassifiable(ValueError):
    pass


def _worst(a, b):
    return a if RANK[a[0]] >= RANK[b[0]] else b


def _dotted(e):
    if isinstance(e, ast.Name):
        return e.id
    if isinstance(e, ast.Attribute):
        b = _dotted(e.value)
        return None if b is None else b + '.' + e.attr
    return None


def _txt(node):
    return ast.unparse(node).replace('\n', ' ')[:100]


class Deriver:
    """derives the isolation table from the sources under <repo>/cherrypy"""

    def __init__(self, repo):
        self.repo = repo
        self.trees = {}
        self.rows = []            # (field id, kind, 'Class.attr', where/why)
        self.shared = []          # ('Class.attr', why)
        self.notes = []

    def tree(self, fn):
        if fn not in self.trees:
            p = os.path.join(self.repo, 'cherrypy', fn)
            self.trees[fn] = ast.parse(open(p).read(), p)
        return self.trees[fn]

    def classdef(self, fn, name):
        for n in self.tree(fn).body:
            if isinstance(n, ast.ClassDef) and n.name == name:
                return n
        raise Unclassifiable('class %s not found in %s' % (name, fn))

    @staticmethod
    def funcs(cd):
        return {n.name: n for n in cd.body if isinstance(n, ast.FunctionDef)}

    @staticmethod
    def class_level(cd):
        """name -> value expression of the assignments in the class body"""
        out = {}
        for n in cd.body:
            if isinstance(n, ast.Assign):
                for t in n.targets:
                    if isinstance(t, ast.Name):
                        out[t.id] = n.value
                    else:
                        for tt in ast.walk(t):
                            if isinstance(tt, ast.Name):
                                out[tt.id] = n.value
            elif isinstance(n, ast.AnnAssign) and isinstance(n.target, ast.Name) and n.value is not None:
                out[n.target.id] = n.value
        return out

    # ---------------- classification of a right-hand side ----------------
    def class_attr_read(self, e, clsnames):
        """self.a | self.__class__.a | type(self).a | Class.a  ->  a"""
        if not isinstance(e, ast.Attribute):
            return None
        v = e.value
        if isinstance(v, ast.Name) and (v.id == 'self' or v.id in clsnames or v.id == 'cls'):
            return e.attr
        if isinstance(v, ast.Attribute) and v.attr == '__class__' and isinstance(v.value, ast.Name) \
                and v.value.id == 'self':
            return e.attr
        if isinstance(v, ast.Call) and isinstance(v.func, ast.Name) and v.func.id == 'type' and len(v.args) == 1 \
                and isinstance(v.args[0], ast.Name) and v.args[0].id == 'self':
            return e.attr
        return None

    def classify(self, e, ctx):
        """-> (kind, why).  ctx: dict(clsnames, state, tracked, params, is_root(expr)->name|None, locals)"""
        root = ctx['is_root'](e)
        if root is not None:
            # a bare read of an attribute that the instance has already got its own fresh object for is that object
            st = ctx.get('state', {}).get(root)
            if st is not None and st[0] != ALIAS and isinstance(e.value, ast.Name) and e.value.id == 'self':
                return (st[0], 're-read of own ' + root)
            return (ALIAS, 'bare read of ' + _txt(e))
        if isinstance(e, ast.Constant):
            return (EMPTY, 'immutable constant %s shadows the class attribute' % _txt(e))
        if isinstance(e, (ast.Dict, ast.List, ast.Set, ast.ListComp, ast.DictComp, ast.SetComp)):
            return (EMPTY, 'literal/comprehension')
        if isinstance(e, ast.Name):
            loc = ctx.get('locals', {})
            if e.id in loc:
                if len(loc[e.id]) != 1:
                    raise Unclassifiable('local %s is assigned %d times' % (e.id, len(loc[e.id])))
                return self.classify(loc[e.id][0], ctx)
            raise Unclassifiable('name %s (parameter or unknown)' % e.id)
        if isinstance(e, ast.IfExp):
            return _worst(self.classify(e.body, ctx), self.classify(e.orelse, ctx))
        if isinstance(e, ast.Subscript) and isinstance(e.slice, ast.Slice) and e.slice.lower is None \
                and e.slice.upper is None and e.slice.step is None:
            return self.copy_of(e.value, ctx, '[:]')
        if isinstance(e, ast.BinOp) and isinstance(e.op, ast.Add):
            ks = []
            for side in (e.left, e.right):
                if ctx['is_root'](side) is not None:
                    ks.append((FRESH, 'concatenation with ' + _txt(side)))
                else:
                    ks.append(self.classify(side, ctx))
            return (FRESH if any(k[0] == FRESH for k in ks) else EMPTY, 'concatenation builds a new list')
        if isinstance(e, ast.Call):
            f = e.func
            name = _dotted(f)
            if isinstance(f, ast.Attribute) and f.attr == 'copy' and not e.args and not e.keywords:
                return self.copy_of(f.value, ctx, '.copy()')
            if name in COPY_FUNCS and len(e.args) == 1 and not e.keywords:
                return self.copy_of(e.args[0], ctx, name + '(...)')
            if name in FRESH_CTORS and not e.args and not e.keywords:
                return (EMPTY, 'constructor ' + name + '()')
            lf = ctx.get('localfuncs', {})
            if name in lf and not e.args and not e.keywords:
                return self.classify_return(lf[name], ctx)
            if name in ('self.request_class', 'self.response_class'):
                return (EMPTY, 'new instance ' + name + '(...)')
            if name in ('self.__class__', 'cls') or (isinstance(f, ast.Call) and _dotted(f.func) == 'type'):
                if not e.args and not e.keywords:
                    return (EMPTY, 'constructor ' + _txt(f) + '()')
            raise Unclassifiable('call ' + _txt(e))
        raise Unclassifiable('expression ' + _txt(e))

    def copy_of(self, inner, ctx, how):
        if isinstance(inner, ast.Name) and inner.id in ctx.get('aliases', {}):
            # a local bound earlier to some expression (x = self.attr ; self.attr = x.copy()): classify the copy of
            # what it was bound to, in the state of that moment
            node, snap = ctx['aliases'][inner.id]
            c2 = dict(ctx)
            c2['state'] = snap
            c2['aliases'] = {k: v for k, v in ctx['aliases'].items() if k != inner.id}
            return self.copy_of(node, c2, how)
        if isinstance(inner, ast.Call) and isinstance(inner.func, ast.Attribute) and not inner.args \
                and not inner.keywords and inner.func.attr in ('items', 'keys', 'values') and how != '.copy()':
            inner = inner.func.value          # dict(x.items()), list(x.values()) ... build a new container
        root = ctx['is_root'](inner)
        if root is not None:
            return (FRESH, '%s of %s' % (how, _txt(inner)))
        if isinstance(inner, ast.Name) and inner.id in ctx.get('params', ()):
            return (EMPTY, '%s of parameter %s' % (how, inner.id))
        if isinstance(inner, ast.Name) and inner.id in ctx.get('elements', ()):
            return (FRESH, '%s of element %s' % (how, inner.id))
        k = self.classify(inner, ctx)
        if k[0] == ALIAS:
            raise Unclassifiable('copy of ' + _txt(inner))
        return k

    def classify_return(self, fdef, ctx):
        rets = [n for n in ast.walk(fdef) if isinstance(n, ast.Return)]
        if len(rets) != 1 or rets[0].value is None:
            raise Unclassifiable('function %s: not exactly one return value' % fdef.name)
        c2 = dict(ctx)
        c2['locals'] = self.local_assigns(fdef)
        c2['params'] = {a.arg for a in fdef.args.args}
        return self.classify(rets[0].value, c2)

    @staticmethod
    def local_assigns(fdef):
        loc = {}
        for n in ast.walk(fdef):
            if isinstance(n, ast.Assign):
                for t in n.targets:
                    if isinstance(t, ast.Name):
                        loc.setdefault(t.id, []).append(n.value)
            elif isinstance(n, (ast.AugAssign, ast.AnnAssign)) and isinstance(n.target, ast.Name):
                loc.setdefault(n.target.id, []).extend([n.value, n.value])   # never "assigned once"
            elif isinstance(n, (ast.For, ast.comprehension)):
                for t in ast.walk(n.target):
                    if isinstance(t, ast.Name):
                        loc.setdefault(t.id, []).extend([None, None])
        return loc

    # ---------------- abstract execution of the initialisation code ----------------
    @staticmethod
    def self_attr(t):
        if isinstance(t, ast.Attribute) and isinstance(t.value, ast.Name) and t.value.id == 'self':
            return t.attr
        return None

    def stores_tracked(self, node, tracked):
        for n in ast.walk(node):
            if isinstance(n, ast.Attribute) and isinstance(n.ctx, (ast.Store, ast.Del)) \
                    and self.self_attr(n) in tracked:
                return n
            if isinstance(n, ast.Call) and _dotted(n.func) in ('setattr', 'delattr', 'object.__setattr__') and n.args \
                    and isinstance(n.args[0], ast.Name) and n.args[0].id == 'self':
                return n
            if isinstance(n, ast.Attribute) and n.attr == '__dict__' and isinstance(n.value, ast.Name) \
                    and n.value.id == 'self':
                return n
        return None

    @staticmethod
    def exits(stmts):
        return bool(stmts) and isinstance(stmts[-1], (ast.Raise, ast.Return, ast.Continue, ast.Break))

    def execute(self, stmts, state, ctx):
        """state: attr -> (kind, why) ; returns the state after the statements"""
        tracked = ctx['tracked']
        for st in stmts:
            ctx['state'] = state
            if isinstance(st, (ast.Assign, ast.AnnAssign)):
                targets = st.targets if isinstance(st, ast.Assign) else [st.target]
                if st.value is None:
                    continue
                for t in targets:
                    a = self.self_attr(t)
                    if a in tracked:
                        state = dict(state)
                        k = self.classify(st.value, ctx)
                        state[a] = (k[0], '%s line %d: %s  [%s]' % (ctx['where'], st.lineno, _txt(st), k[1]))
                    elif isinstance(t, ast.Name) and isinstance(st.value, (ast.Attribute, ast.Name)):
                        ctx.setdefault('aliases', {})[t.id] = (st.value, state)
                    elif isinstance(t, (ast.Tuple, ast.List)) and self.stores_tracked(t, tracked):
                        raise Unclassifiable('%s line %d: tuple assignment to a tracked attribute' %
                                             (ctx['where'], st.lineno))
                    elif self.stores_tracked(t, tracked) and not (
                            isinstance(t, ast.Subscript) or isinstance(t, ast.Attribute)):
                        raise Unclassifiable('%s line %d: %s' % (ctx['where'], st.lineno, _txt(st)))
            elif isinstance(st, ast.AugAssign):
                a = self.self_attr(st.target)
                if a in tracked and state[a][0] == ALIAS:
                    state = dict(state)
                    state[a] = (ALIAS, '%s line %d: %s mutates the class attribute in place' %
                                (ctx['where'], st.lineno, _txt(st)))
            elif isinstance(st, ast.Delete):
                for t in st.targets:
                    a = self.self_attr(t)
                    if a in tracked:
                        state = dict(state)
                        state[a] = (ALIAS, '%s line %d: %s uncovers the class attribute' %
                                    (ctx['where'], st.lineno, _txt(st)))
            elif isinstance(st, ast.If):
                s1 = self.execute(st.body, state, ctx)
                s2 = self.execute(st.orelse, state, ctx)
                if self.exits(st.body):
                    state = s2
                elif self.exits(st.orelse):
                    state = s1
                else:
                    state = {a: _worst(s1[a], s2[a]) for a in state}
            elif isinstance(st, ast.Try):
                state = self.execute(st.body, state, ctx)
                state = self.execute(st.orelse, state, ctx)
                for h in st.handlers:
                    bad = self.stores_tracked(h, tracked)
                    if bad is not None:
                        raise Unclassifiable('%s line %d: tracked attribute stored in an except clause' %
                                             (ctx['where'], bad.lineno))
                state = self.execute(st.finalbody, state, ctx)
            elif isinstance(st, ast.Expr) and isinstance(st.value, ast.Call) and self.base_init(st.value, ctx):
                bfn, bcd = self.base_init(st.value, ctx)
                c2 = dict(ctx)
                c2['where'] = '%s.__init__' % bcd.name
                c2['params'] = {a.arg for a in bfn.args.args}
                c2['locals'] = self.local_assigns(bfn)
                state = self.execute(bfn.body, state, c2)
            else:
                bad = self.stores_tracked(st, tracked)
                if bad is not None:
                    raise Unclassifiable('%s line %d: tracked attribute stored inside %s' %
                                         (ctx['where'], bad.lineno, type(st).__name__))
        return state

    def base_init(self, call, ctx):
        """Base.__init__(self, ...) | super().__init__(...) | super(C, self).__init__(...)"""
        f = call.func
        if not (isinstance(f, ast.Attribute) and f.attr == '__init__'):
            return None
        bases = ctx.get('bases', [])
        if isinstance(f.value, ast.Name):
            for fn, cd in bases:
                if cd.name == f.value.id and '__init__' in self.funcs(cd):
                    return self.funcs(cd)['__init__'], cd
        if isinstance(f.value, ast.Call) and _dotted(f.value.func) == 'super':
            for fn, cd in bases:
                if '__init__' in self.funcs(cd):
                    return self.funcs(cd)['__init__'], cd
        return None

    # ---------------- the table ----------------
    def runtime_class(self, name):
        import cherrypy  # noqa: F401
        from cherrypy import _cprequest, _cpreqbody, _cpwsgi, _cptree
        for m in (_cprequest, _cpreqbody, _cpwsgi, _cptree):
            if hasattr(m, name):
                return getattr(m, name)
        raise Unclassifiable('runtime class %s' % name)

    def mro_defs(self, fn, name):
        """[(file, ClassDef)] for the class and its bases defined in the same file, most derived first"""
        out = []
        cd = self.classdef(fn, name)
        out.append((fn, cd))
        for b in cd.bases:
            bn = _dotted(b)
            if bn in ('object', 'dict'):
                continue
            try:
                out += self.mro_defs(fn, bn)
            except Unclassifiable:
                raise Unclassifiable('base class %s of %s not found in %s' % (bn, name, fn))
        return out

    def derive_class(self, fn, name, init_names):
        import collections
        mro = self.mro_defs(fn, name)
        rt = self.runtime_class(name)
        # class-level mutable attributes (ast names cross-checked with the imported class)
        level = {}
        for _, cd in reversed(mro):
            level.update(self.class_level(cd))
        mutable = []
        for a in sorted(level):
            if a.startswith('__'):
                continue
            if not hasattr(rt, a):
                raise Unclassifiable('%s.%s is in the source but not on the imported class' % (name, a))
            v = getattr(rt, a)
            if isinstance(v, (dict, list, set, bytearray, collections.deque)):
                mutable.append(a)
        for k in rt.__mro__:
            if k.__module__.startswith('cherrypy'):
                for a, v in vars(k).items():
                    if isinstance(v, (dict, list, set, bytearray, collections.deque)) and not a.startswith('__') \
                            and a not in mutable:
                        raise Unclassifiable('%s.%s is a mutable class attribute not visible in the class body'
                                             % (name, a))
        clsnames = {cd.name for _, cd in mro}
        tracked = set(mutable)

        def is_root(e):
            a = self.class_attr_read(e, clsnames)
            return a if a in tracked else None
        state = {a: (ALIAS, 'no per-instance assignment in %s' % '/'.join(init_names)) for a in mutable}
        cd = mro[0][1]
        fs = self.funcs(cd)
        allf = {}
        for _, c in reversed(mro):
            allf.update(self.funcs(c))
        for iname in init_names:
            if iname not in allf:
                raise Unclassifiable('%s.%s not found' % (name, iname))
            f = allf[iname]
            owner = next(c.name for _, c in mro if iname in self.funcs(c))
            ctx = {'clsnames': clsnames, 'tracked': tracked, 'is_root': is_root, 'where': '%s.%s' % (owner, iname),
                   'params': {a.arg for a in f.args.args}, 'locals': self.local_assigns(f),
                   'bases': [m for m in mro if m[1].name != owner]}
            state = self.execute(f.body, state, ctx)
        # assignments of tracked attributes elsewhere in the class: a bare alias there is an alias too
        for _, c in mro:
            for mname, f in self.funcs(c).items():
                if mname in init_names and (c.name == name or mname not in fs):
                    continue
                if c.name != name and mname == '__init__':
                    continue
                for n in ast.walk(f):
                    if isinstance(n, ast.Assign):
                        for t in n.targets:
                            a = self.self_attr(t)
                            if a in tracked and is_root(n.value) is not None:
                                state[a] = (ALIAS, '%s.%s line %d: %s' % (c.name, mname, n.lineno, _txt(n)))
                            elif a in tracked:
                                self.notes.append('late assignment %s.%s line %d: %s' %
                                                  (c.name, mname, n.lineno, _txt(n)))
        for a in mutable:
            key = (name, a)
            if key in SHARED_READONLY and state[a][0] == ALIAS and state[a][1].startswith('no per-instance'):
                self.check_readonly(name, a)
                self.shared.append(('%s.%s' % key, 'class-level %s shared by all instances by design; only read in '
                                    'the anchored files' % type(getattr(rt, a)).__name__))
                continue
            if key not in SOURCE_FIELD:
                raise Unclassifiable('class-level mutable attribute %s.%s is not a field of the model' % key)
            kind, why = state[a]
            if kind == FRESH:
                self.check_copy_method(getattr(rt, a), '%s.%s' % key)
            self.rows.append((SOURCE_FIELD[key], kind, '%s.%s' % key, why))

    def check_readonly(self, cname, attr):
        """no store / mutating call through <x>.<attr> anywhere in the anchored files"""
        for fn in ANCHOR_FILES:
            for n in ast.walk(self.tree(fn)):
                if isinstance(n, ast.Attribute) and n.attr == attr and isinstance(n.ctx, (ast.Store, ast.Del)):
                    raise Unclassifiable('%s line %d stores %s' % (fn, n.lineno, attr))
                if isinstance(n, ast.Subscript) and isinstance(n.ctx, (ast.Store, ast.Del)) \
                        and isinstance(n.value, ast.Attribute) and n.value.attr == attr:
                    raise Unclassifiable('%s line %d stores into %s' % (fn, n.lineno, attr))
                if isinstance(n, ast.Call) and isinstance(n.func, ast.Attribute) and n.func.attr in MUTATORS \
                        and isinstance(n.func.value, ast.Attribute) and n.func.value.attr == attr:
                    raise Unclassifiable('%s line %d mutates %s' % (fn, n.lineno, attr))

    def check_copy_method(self, value, what):
        """a copy()/__copy__ defined in the repository for the class of a copied root must return a new object"""
        t = type(value)
        if not t.__module__.startswith('cherrypy'):
            return
        fn = os.path.join(*t.__module__.split('.')[1:]) + '.py'
        cd = self.classdef(fn, t.__name__)
        fs = self.funcs(cd)
        lvl = self.class_level(cd)
        f = fs.get('copy')
        if f is None and 'copy' in lvl:
            tgt = lvl['copy']
            if not (isinstance(tgt, ast.Name) and tgt.id in fs):
                raise Unclassifiable('%s: %s.copy = %s' % (what, t.__name__, _txt(tgt)))
            f = fs[tgt.id]
        if f is None:
            if any(b.__module__.startswith('cherrypy') and 'copy' in vars(b) for b in t.__mro__[1:]):
                raise Unclassifiable('%s: copy inherited from a repository base class of %s' % (what, t.__name__))
            self.notes.append('%s: %s inherits the builtin copy()' % (what, t.__name__))
            return
        ctx = {'clsnames': {t.__name__}, 'tracked': set(), 'is_root': lambda e: None,
               'locals': self.local_assigns(f), 'params': set(), 'state': {}}
        rets = [n for n in ast.walk(f) if isinstance(n, ast.Return)]
        if len(rets) != 1 or rets[0].value is None:
            raise Unclassifiable('%s: %s.copy has not exactly one return' % (what, t.__name__))
        if isinstance(rets[0].value, ast.Name) and rets[0].value.id == 'self':
            raise Unclassifiable('%s: %s.copy returns self' % (what, t.__name__))
        k = self.classify(rets[0].value, ctx)
        if k[0] == ALIAS:
            raise Unclassifiable('%s: %s.copy does not return a new object' % (what, t.__name__))

    # ---------------- special rows ----------------
    def derive_hooklists(self):
        """HookMap.__copy__: the per-point lists of the copy are copies too (depth 2)"""
        cd = self.classdef('_cprequest.py', 'HookMap')
        fs = self.funcs(cd)
        lvl = self.class_level(cd)
        if 'copy' in fs:
            f = fs['copy']
        elif isinstance(lvl.get('copy'), ast.Name) and lvl['copy'].id in fs:
            f = fs[lvl['copy'].id]
        else:
            self.rows.append((17, ALIAS, 'HookMap.copy', 'HookMap defines no copy(): dict.copy shares the lists'))
            return
        loops = [n for n in f.body if isinstance(n, ast.For)]
        rets = [n for n in f.body if isinstance(n, ast.Return)]
        if len(loops) != 1 or len(rets) != 1 or not isinstance(rets[0].value, ast.Name):
            raise Unclassifiable('HookMap.%s: shape not recognised' % f.name)
        new = rets[0].value.id
        loc = self.local_assigns(f)
        ctx = {'clsnames': {'HookMap'}, 'tracked': set(), 'is_root': lambda e: None, 'locals':
               {k: v for k, v in loc.items() if k == new}, 'params': set(), 'state': {}}
        k0 = self.classify(rets[0].value, ctx)
        if k0[0] == ALIAS:
            raise Unclassifiable('HookMap.%s returns an alias' % f.name)
        loop = loops[0]
        it = _txt(loop.iter)
        if it not in ('self.items()', 'list(self.items())', 'dict.items(self)'):
            raise Unclassifiable('HookMap.%s iterates %s' % (f.name, it))
        if not (isinstance(loop.target, ast.Tuple) and len(loop.target.elts) == 2
                and all(isinstance(x, ast.Name) for x in loop.target.elts)):
            raise Unclassifiable('HookMap.%s: loop target' % f.name)
        kname, vname = [x.id for x in loop.target.elts]
        stores = [n for n in loop.body if isinstance(n, ast.Assign) and len(n.targets) == 1
                  and isinstance(n.targets[0], ast.Subscript) and _dotted(n.targets[0].value) == new]
        if len(stores) != 1 or len(loop.body) != 1:
            raise Unclassifiable('HookMap.%s: loop body' % f.name)
        val = stores[0].value

        def is_elem(e):
            return vname if isinstance(e, ast.Name) and e.id == vname else None
        ctx2 = {'clsnames': set(), 'tracked': {vname}, 'is_root': is_elem, 'locals': {}, 'params': set(), 'state': {}}
        k = self.classify(val, ctx2)
        self.rows.append((17, k[0], 'HookMap.%s values' % f.name,
                          'HookMap.%s line %d: %s  [%s]' % (f.name, stores[0].lineno, _txt(stores[0]), k[1])))

    def derive_config(self):
        """every `request.config = ...` in _cpdispatch.py"""
        tree = self.tree('_cpdispatch.py')
        found = []

        def is_root(e):
            return 'cherrypy.config' if _dotted(e) == 'cherrypy.config' else None

        def visit(node, fstack):
            for ch in ast.iter_child_nodes(node):
                if isinstance(ch, ast.FunctionDef):
                    visit(ch, fstack + [ch])
                    continue
                if isinstance(ch, ast.Assign):
                    for t in ch.targets:
                        if isinstance(t, ast.Attribute) and t.attr == 'config' and _dotted(t.value) in (
                                'request', 'cherrypy.serving.request', 'cherrypy.request'):
                            f = fstack[-1]
                            lf = {}
                            for g in fstack:
                                for n in ast.walk(g):
                                    if isinstance(n, ast.FunctionDef) and n is not g:
                                        lf[n.name] = n
                            ctx = {'clsnames': set(), 'tracked': {'cherrypy.config'}, 'is_root': is_root,
                                   'locals': self.local_assigns(f), 'params': {a.arg for a in f.args.args},
                                   'localfuncs': lf, 'state': {}}
                            k = self.classify(ch.value, ctx)
                            found.append((k[0], '_cpdispatch.%s line %d: %s  [%s]' %
                                          (f.name, ch.lineno, _txt(ch), k[1])))
                visit(ch, fstack)
        visit(tree, [])
        if not found:
            raise Unclassifiable('_cpdispatch.py: no assignment to request.config found')
        w = found[0]
        for k in found[1:]:
            w = _worst(w, k)
        self.rows.append((8, w[0], 'request.config', '%s (%d assignment sites)' % (w[1], len(found))))

    def derive_serving(self):
        """get_serving: new Request/Response objects are loaded; release_serving clears; _Serving is a
        threading.local whose load/clear touch only self"""
        obs = []
        cd = self.classdef('_cptree.py', 'Application')
        fs = self.funcs(cd)
        gs, rs = fs.get('get_serving'), fs.get('release_serving')
        if gs is None or rs is None:
            raise Unclassifiable('Application.get_serving/release_serving not found')
        loads = [n for n in ast.walk(gs) if isinstance(n, ast.Call) and _dotted(n.func) == 'cherrypy.serving.load']
        if len(loads) != 1 or len(loads[0].args) != 2 or loads[0].keywords:
            raise Unclassifiable('get_serving: exactly one cherrypy.serving.load(req, resp) expected')
        if not any(isinstance(s, ast.Expr) and s.value is loads[0] for s in gs.body):
            raise Unclassifiable('get_serving: serving.load is conditional')
        ctx = {'clsnames': {'Application'}, 'tracked': set(), 'is_root': lambda e: None,
               'locals': self.local_assigns(gs), 'params': {a.arg for a in gs.args.args}, 'state': {}}
        for fid, arg, ctor in ((15, loads[0].args[0], 'self.request_class'), (16, loads[0].args[1],
                                                                            'self.response_class')):
            try:
                k = self.classify(arg, ctx)
                src = ctx['locals'].get(arg.id, [None])[0] if isinstance(arg, ast.Name) else arg
                if not (isinstance(src, ast.Call) and _dotted(src.func) == ctor):
                    k = (ALIAS, 'not a new %s(...) instance: %s' % (ctor, _txt(arg)))
            except Unclassifiable as e:
                k = (ALIAS, 'not a new instance per request: %s' % e)
            self.rows.append((fid, k[0], 'serving.' + FIELD_NAME[fid].split()[0],
                              'Application.get_serving line %d: %s  [%s]' % (loads[0].lineno, _txt(loads[0]), k[1])))
        # stores of get_serving: locals, req.<attr>, req.namespaces[...] only
        for n in ast.walk(gs):
            if isinstance(n, (ast.Attribute, ast.Subscript)) and isinstance(n.ctx, (ast.Store, ast.Del)):
                base = n
                while isinstance(base, (ast.Attribute, ast.Subscript)):
                    base = base.value
                if not (isinstance(base, ast.Name) and base.id in ctx['locals'] and base.id != 'self'):
                    raise Unclassifiable('get_serving line %d stores outside the new request: %s' %
                                         (n.lineno, _txt(n)))
            if isinstance(n, (ast.Global, ast.Nonlocal)):
                raise Unclassifiable('get_serving: global statement')
        clears = [s for s in rs.body if isinstance(s, ast.Expr) and isinstance(s.value, ast.Call)
                  and _dotted(s.value.func) == 'cherrypy.serving.clear']
        ok_clear = len(clears) == 1
        obs.append(('release_serving calls cherrypy.serving.clear() unconditionally', ok_clear,
                    '' if ok_clear else 'not found at the top level of release_serving'))
        # _Serving
        init = self.tree('__init__.py')
        cds = [n for n in init.body if isinstance(n, ast.ClassDef) and n.name == '_Serving']
        if len(cds) != 1:
            raise Unclassifiable('_Serving not found')
        sv = cds[0]
        alias = {}
        for n in init.body:
            if isinstance(n, ast.ImportFrom) and n.module == 'threading':
                for a in n.names:
                    alias[a.asname or a.name] = 'threading.' + a.name
            if isinstance(n, ast.Import):
                for a in n.names:
                    alias[a.asname or a.name] = a.name
        bases = []
        for b in sv.bases:
            d = _dotted(b) or '?'
            head, _, rest = d.partition('.')
            d = alias.get(head, head) + ('.' + rest if rest else '')
            bases.append(d)
        import threading as _th
        import cherrypy
        ok_local = 'threading.local' in bases and issubclass(cherrypy._Serving, _th.local) \
            and isinstance(cherrypy.serving, cherrypy._Serving)
        obs.append(('_Serving derives from threading.local (source bases %r; imported class checked too)' % bases,
                    ok_local, '' if ok_local else 'bases: %r' % bases))
        sfs = self.funcs(sv)
        for mname in ('load', 'clear'):
            f = sfs.get(mname)
            problems = []
            if f is None:
                problems.append('missing')
            else:
                for n in ast.walk(f):
                    if isinstance(n, (ast.Global, ast.Nonlocal)):
                        problems.append('global/nonlocal')
                    if isinstance(n, (ast.Attribute, ast.Subscript, ast.Name)) and isinstance(
                            getattr(n, 'ctx', None), (ast.Store, ast.Del)):
                        if not (isinstance(n, ast.Attribute) and isinstance(n.value, ast.Name)
                                and n.value.id == 'self' and n.attr != '__class__'):
                            problems.append('line %d stores %s' % (n.lineno, _txt(n)))
                    if isinstance(n, ast.Call):
                        if _txt(n) != 'self.__dict__.clear()':
                            problems.append('line %d calls %s' % (n.lineno, _txt(n)))
                if mname == 'load':
                    want = {('request', f.args.args[1].arg if len(f.args.args) > 1 else None),
                            ('response', f.args.args[2].arg if len(f.args.args) > 2 else None)}
                    got = {(self.self_attr(s.targets[0]), s.value.id) for s in f.body
                           if isinstance(s, ast.Assign) and len(s.targets) == 1 and isinstance(s.value, ast.Name)}
                    if not want <= got:
                        problems.append('does not assign self.request/self.response from its arguments')
                if mname == 'clear' and not any(_txt(s) == 'self.__dict__.clear()' for s in f.body):
                    problems.append('does not clear self.__dict__')
            obs.append(('_Serving.%s assigns only attributes of self' % mname, not problems, '; '.join(problems)))
        # _ThreadLocalProxy: every accessor goes through getattr(serving, self.__attrname__)
        import copy
        from ..translate import pynorm
        ninit = pynorm.normalise(copy.deepcopy(init))        # an extracted lookup helper is read in place
        px = [n for n in ninit.body if isinstance(n, ast.ClassDef) and n.name == '_ThreadLocalProxy']
        problems = []
        if len(px) != 1:
            problems.append('class not found')
        else:
            for mname, f in self.funcs(px[0]).items():
                if mname == '__init__':
                    continue
                if 'getattr(serving, self.__attrname__)' not in ast.unparse(f):
                    problems.append(mname + ' does not resolve through the thread-local serving')
        obs.append(('_ThreadLocalProxy resolves every access through the thread-local `serving`', not problems,
                    '; '.join(problems)))
        return obs

    def derive(self):
        for fn, name, inits in CLASSES:
            self.derive_class(fn, name, inits)
        self.derive_hooklists()
        self.derive_config()
        side = self.derive_serving()
        # the per-point lists are reachable through the hook map: an aliased map aliases them too
        for fid, kind, src, why in list(self.rows):
            if fid == 0 and kind == ALIAS:
                self.rows.append((17, ALIAS, src, 'reachable through the aliased request.hooks: ' + why))
        self.rows.sort(key=lambda r: (r[0], r[2]))
        return side

    def kinds(self):
        """field id -> worst kind over the rows mapped to it (absent = alias, as in the model)"""
        out = {}
        for fid, kind, _, _ in self.rows:
            if fid not in out or RANK[kind] > RANK[out[fid]]:
                out[fid] = kind
        return out

    def coq_text(self):
        def c(s):
            return s.replace('(*', '( *').replace('*)', '* )')
        rows = ['  (%d, %s)   (* %s -> %s: %s *)' % (fid, kind, c(src), FIELD_NAME[fid], c(why))
                for fid, kind, src, why in self.rows]
        return '\n'.join([
            'From Coq Require Import ZArith List Bool.', 'Import ListNotations.',
            'From CV Require Import Lib.Sx Model.M_isolation Proof.P_isolation Proof.P_isolation_thm.',
            'Open Scope Z_scope.',
            '(* generated by vcheck/props/c10.py from %s/cherrypy *)' % c(self.repo),
            'Definition isolation_fields : table := [', ';\n'.join(rows), '].',
            'Lemma tie_isolation_fields : forallb is_fresh_entry isolation_fields = true.',
            'Proof. vm_compute. reflexivity. Qed.',
            'Lemma tie_isolation_covers : covers isolation_fields = true.',
            'Proof. vm_compute. reflexivity. Qed.',
            '(* the property theorems instantiated with what the source says now *)',
            'Definition tie_frame := thm_frame isolation_fields tie_isolation_fields tie_isolation_covers.',
            'Definition tie_history := thm_history_independent isolation_fields tie_isolation_fields '
            'tie_isolation_covers.',
            'Definition tie_threads := thm_thread_local isolation_fields tie_isolation_fields tie_isolation_covers.',
            'Check tie_frame. Check tie_history. Check tie_threads.', ''])


# --------------------------------------------------------------------------------------------
# the site: two applications, paths with different tool / hook / processor / error_page sets

PLANS = {}      # token -> (request spec, barrier or None)
RESULTS = {}    # token -> record filled by the probe
HOOKRUNS = []   # (mark, token of the request it ran in)
SENT = 900000   # sentinel (class-level) marks are SENT + field id
HOOK_POINTS = ['before_finalize', 'on_end_resource', 'on_end_request']
BT = [3.0]      # barrier timeout (shortened after repeated timeouts: no hangs, bounded slowness)
TIMEOUTS = [0]


class Mark(object):
    """a callable carrying a mark: attached as a hook / processor / namespace handler"""

    def __init__(self, n):
        self.n = n

    def __call__(self, *a, **kw):
        try:
            import cherrypy
            HOOKRUNS.append((self.n, _qs_tok(cherrypy.serving.request.query_string)))
        except Exception:
            HOOKRUNS.append((self.n, None))


def _qs_tok(qs):
    for part in (qs or '').split('&'):
        if part.startswith('tok='):
            try:
                return int(part[4:])
            except ValueError:
                return None
    return None


def conf_hook_a():
    pass


def conf_hook_b():
    pass


def conf_hook_end_raises():
    # a failing on_end_request callback: Request.close() raises inside release_serving, which must still
    # clear the thread's serving slot
    raise RuntimeError('on_end_request callback fails')


def errpage_404(status, message, traceback, version):
    return 'custom 404 page: %s' % status


def errpage_default(status, message, traceback, version):
    return 'custom default page: %s' % status


def errpage_b(status, message, traceback, version):
    return 'B error page: %s' % status


def noop(*a, **kw):
    return None


def canon(v, depth=0):
    """address-free, process-independent canonical form"""
    import types
    if v is None or isinstance(v, (bool, int, str)):
        return v
    if isinstance(v, float):
        return 'float'
    if isinstance(v, bytes):
        return 'b:' + v.decode('latin-1')
    if isinstance(v, Mark):
        return 'mark:%d' % v.n
    if depth > 6:
        return '...'
    if isinstance(v, dict):
        return {'%s' % (k,): canon(x, depth + 1) for k, x in sorted(v.items(), key=lambda kv: repr(kv[0]))}
    if isinstance(v, (list, tuple)):
        return [canon(x, depth + 1) for x in v]
    if isinstance(v, (set, frozenset)):
        return sorted((canon(x, depth + 1) for x in v), key=repr)
    if isinstance(v, (types.FunctionType, types.BuiltinFunctionType)):
        return 'fn:%s.%s' % (getattr(v, '__module__', '?'), getattr(v, '__qualname__', '?'))
    if isinstance(v, types.MethodType):
        return 'meth:%s.%s' % (type(v.__self__).__name__, v.__func__.__name__)
    if isinstance(v, type):
        return 'cls:%s.%s' % (v.__module__, v.__qualname__)
    return 'obj:%s' % type(v).__name__


def hook_canon(h):
    return [canon(h.callback), h.priority, bool(h.failsafe), canon(h.kwargs)]


VOLATILE_HEADERS = {'Date', 'Expires', 'Last-Modified', 'Content-Length'}


def _tokfix(s, tok):
    return s.replace('%06d' % tok, 'TOKTOK') if isinstance(s, str) and tok is not None else s


def attrs_canon(d):
    """instance attributes: names, and the values of the plain ones (containers are snapshotted separately)"""
    out = {}
    for k, v in d.items():
        if v is None or isinstance(v, (bool, int, str)):
            out[k] = v
        elif isinstance(v, tuple) and all(isinstance(x, (bool, int, str)) for x in v):
            out[k] = list(v)
        else:
            out[k] = 'obj:%s' % type(v).__name__
    return out


def parts_of(body):
    """the multipart Part objects a handler can reach (named parts with a filename live in body.params)"""
    if body is None:
        return []
    from cherrypy._cpreqbody import Part
    ps = list(getattr(body, 'parts', None) or [])
    for k in sorted(getattr(body, 'params', None) or {}):
        v = body.params[k]
        for x in (v if isinstance(v, list) else [v]):
            if isinstance(x, Part):
                ps.append(x)
    return ps


def full_snapshot(req, resp, tok):
    """what a probe handler can see of its request: the first-request baseline is compared with this"""
    def fix(x):
        if isinstance(x, str):
            return _tokfix(x, tok)
        if isinstance(x, list):
            return [fix(y) for y in x]
        if isinstance(x, dict):
            return {fix(k): fix(y) for k, y in x.items()}
        return x
    body = req.body
    snap = {
        'config': canon({k: v for k, v in req.config.items()}) if req.config is not None else None,
        'hooks': {p: [hook_canon(h) for h in req.hooks[p]] for p in sorted(req.hooks)},
        'toolmaps': canon(req.toolmaps),
        'error_page': canon(req.error_page),
        'namespaces': canon(dict(req.namespaces)),
        'params': canon(dict(req.params)),
        'req_headers': canon(dict(dict.items(req.headers))),
        'req_header_list': canon(list(req.header_list)),
        'req_cookie': sorted(req.cookie.keys()),
        'resp_headers': canon({k: ('*' if k in VOLATILE_HEADERS else v) for k, v in dict.items(resp.headers)}),
        'resp_cookie': sorted(resp.cookie.keys()),
        'resp_header_list': canon(resp.header_list),
        'req_attrs': attrs_canon(vars(req)),
        'resp_attrs': attrs_canon(vars(resp)),
        'body_processors': canon(dict(body.processors)) if body is not None else None,
        'body_charsets': canon(list(body.attempt_charsets)) if body is not None else None,
        'body_attrs': attrs_canon(vars(body)) if body is not None else None,
        'parts': [[canon(dict(p.processors)), canon(list(p.attempt_charsets)), attrs_canon(vars(p))]
                  for p in parts_of(body)],
    }
    return fix(snap)


def _ints(keys, prefix):
    out = []
    for k in keys:
        if isinstance(k, str) and k.lower().startswith(prefix.lower()):
            try:
                out.append(int(k[len(prefix):]))
            except ValueError:
                pass
    return out


def marks_of_objects(o):
    """o: dict of the real containers -> {field id: sorted visible marks}; the abstraction the model talks about"""
    m = {}
    if 'hooks' in o:
        m[0] = _ints(o['hooks'].keys(), 'mark_')
        m[17] = [h.callback.n for p in o['hooks'] for h in o['hooks'][p] if isinstance(h.callback, Mark)]
    if 'error_page' in o:
        m[1] = [k - 100000 for k in o['error_page'] if isinstance(k, int) and k >= 100000]
    if 'namespaces' in o:
        m[2] = _ints(o['namespaces'].keys(), 'mark_')
    if 'toolmaps' in o:
        m[3] = _ints(o['toolmaps'].keys(), 'mark_')
    if 'params' in o:
        m[4] = _ints(o['params'].keys(), 'mark_')
    if 'req_headers' in o:
        m[5] = _ints(dict.keys(o['req_headers']), 'X-Mark-')
    if 'req_cookie' in o:
        m[6] = _ints(o['req_cookie'].keys(), 'mark_')
    if o.get('req_header_list') is not None:
        m[7] = _ints([k for k, _ in o['req_header_list']], 'X-Mark-')
    if o.get('config') is not None:
        m[8] = _ints(o['config'].keys(), 'mark.')
    if 'resp_headers' in o:
        m[9] = _ints(dict.keys(o['resp_headers']), 'X-Mark-')
    if 'resp_cookie' in o:
        m[10] = _ints(o['resp_cookie'].keys(), 'mark_')
    if o.get('resp_header_list') is not None:
        m[11] = _ints([k for k, _ in o['resp_header_list']], 'X-Mark-')
    if o.get('processors') is not None:
        m[12] = _ints(o['processors'].keys(), 'x-mark/')
    if o.get('charsets') is not None:
        m[13] = _ints(o['charsets'], 'mark-')
    if o.get('part_charsets') is not None:
        m[14] = _ints(o['part_charsets'], 'mark-')
        m[12] = sorted(set(m.get(12, []) + _ints(o['part_processors'].keys(), 'x-mark/')))
    if 'req_vars' in o:
        m[15] = _ints(o['req_vars'].keys(), 'mark_')
    if 'resp_vars' in o:
        m[16] = _ints(o['resp_vars'].keys(), 'mark_')
    return {f: sorted(v) for f, v in m.items()}


def request_objects(req, resp):
    body = req.body
    o = {'hooks': req.hooks, 'error_page': req.error_page, 'namespaces': req.namespaces, 'toolmaps': req.toolmaps,
         'params': req.params, 'req_headers': req.headers, 'req_cookie': req.cookie,
         'req_header_list': req.header_list, 'config': req.config, 'resp_headers': resp.headers,
         'resp_cookie': resp.cookie, 'resp_header_list': resp.header_list, 'req_vars': vars(req),
         'resp_vars': vars(resp)}
    if body is not None:
        o['processors'] = body.processors
        o['charsets'] = body.attempt_charsets
        parts = parts_of(body)
        if parts:
            o['part_charsets'] = parts[0].attempt_charsets
            o['part_processors'] = parts[0].processors
    return o


def root_objects():
    import cherrypy
    from cherrypy import _cprequest, _cpreqbody
    R, P, E = _cprequest.Request, _cprequest.Response, _cpreqbody.Entity
    return {'hooks': R.hooks, 'error_page': R.error_page, 'namespaces': R.namespaces, 'toolmaps': R.toolmaps,
            'params': R.params, 'req_headers': R.headers, 'req_cookie': R.cookie, 'req_header_list': R.header_list,
            'config': cherrypy.config, 'resp_headers': P.headers, 'resp_cookie': P.cookie,
            'resp_header_list': P.header_list, 'processors': E.processors, 'charsets': E.attempt_charsets,
            'part_charsets': _cpreqbody.Part.attempt_charsets, 'part_processors': {},
            'req_vars': vars(cherrypy._Serving.request), 'resp_vars': vars(cherrypy._Serving.response)}


MUT_FIELD = {'hook_attach': 17, 'hook_point': 0, 'error_page': 1, 'namespace': 2, 'toolmap': 3, 'param': 4,
             'req_header': 5, 'req_cookie': 6, 'req_header_list': 7, 'config': 8, 'resp_header': 9,
             'resp_cookie': 10, 'processor': 12, 'charset': 13, 'part_charset': 14, 'part_processor': 12,
             'req_attr': 15, 'resp_attr': 16}
MUT_KINDS = sorted(MUT_FIELD)


def apply_mut(o, kind, n, setvar=setattr):
    """perform one mutation on the containers in o (a request's own, or - for sentinels - the class-level roots)"""
    from cherrypy._cprequest import Hook
    if kind == 'hook_attach':
        o['hooks'][HOOK_POINTS[n % 3]].append(Hook(Mark(n), priority=10 + n % 80))
    elif kind == 'hook_point':
        o['hooks']['mark_%d' % n] = []
    elif kind == 'error_page':
        o['error_page'][100000 + n] = 'page-%d' % n
    elif kind == 'namespace':
        o['namespaces']['mark_%d' % n] = Mark(n)
    elif kind == 'toolmap':
        o['toolmaps']['mark_%d' % n] = {}
    elif kind == 'param':
        o['params']['mark_%d' % n] = 'v'
    elif kind == 'req_header':
        dict.__setitem__(o['req_headers'], 'X-Mark-%d' % n, 'v')
    elif kind == 'req_cookie':
        o['req_cookie']['mark_%d' % n] = 'v'
    elif kind == 'req_header_list':
        o['req_header_list'].append(('X-Mark-%d' % n, 'v'))
    elif kind == 'config':
        o['config']['mark.%d' % n] = 1
    elif kind == 'resp_header':
        dict.__setitem__(o['resp_headers'], 'X-Mark-%d' % n, 'v')
    elif kind == 'resp_cookie':
        o['resp_cookie']['mark_%d' % n] = 'v'
    elif kind == 'processor':
        o['processors']['x-mark/%d' % n] = noop
    elif kind == 'charset':
        o['charsets'].append('mark-%d' % n)
    elif kind == 'part_charset':
        o['part_charsets'].append('mark-%d' % n)
    elif kind == 'part_processor':
        o['part_processors']['x-mark/%d' % n] = noop
    elif kind == 'req_attr':
        o['req_vars']['mark_%d' % n] = n
    elif kind == 'resp_attr':
        o['resp_vars']['mark_%d' % n] = n
    else:
        raise ValueError(kind)


# which root a sentinel of field f is planted in (kind of mutation applied to the ROOT containers)
SENTINEL_MUT = {0: 'hook_point', 1: 'error_page', 2: 'namespace', 3: 'toolmap', 4: 'param', 5: 'req_header',
                6: 'req_cookie', 7: 'req_header_list', 8: 'config', 9: 'resp_header', 10: 'resp_cookie',
                12: 'processor', 13: 'charset', 14: 'part_charset', 15: 'req_attr', 16: 'resp_attr',
                17: 'hook_attach'}


def _wait(barrier, rec, name):
    if barrier is None:
        return
    try:
        barrier.wait(BT[0])
        rec['overlap'].append(name)
    except threading.BrokenBarrierError:
        TIMEOUTS[0] += 1
        if TIMEOUTS[0] >= 3:
            BT[0] = 0.3
        rec['overlap'].append(name + ':timeout')


def probe():
    """the body of every handler of the site"""
    import cherrypy
    req, resp = cherrypy.serving.request, cherrypy.serving.response
    tok = _qs_tok(req.query_string)
    spec, barrier, mutated = PLANS[tok]
    rec = RESULTS.setdefault(tok, {})
    rec['overlap'] = []
    try:
        rec['thread'] = threading.get_ident()
        rec['s0'] = full_snapshot(req, resp, tok)
        objs = request_objects(req, resp)
        rec['m0'] = marks_of_objects(objs)
        rec['ids'] = {k: id(v) for k, v in objs.items() if v is not None}
        rec['ids']['request'] = id(req)
        rec['ids']['response'] = id(resp)
        rec['ids']['body'] = id(req.body)
        applied = []
        for kind, n in spec['muts']:
            apply_mut(objs, kind, n)
            applied.append([kind, n])
        rec['applied'] = applied
        cherrypy.thread_data.c10_tok = tok
    finally:
        if mutated is not None:
            mutated.set()
    _wait(barrier, rec, 'mutated')
    try:
        objs = request_objects(cherrypy.serving.request, cherrypy.serving.response)
        rec['m1'] = marks_of_objects(objs)
        rec['echo'] = {
            'params': cherrypy.request.params.get('tok'),
            'body': cherrypy.request.params.get('btok', getattr(cherrypy.request, 'json', {}).get('btok')
                                               if isinstance(getattr(cherrypy.request, 'json', None), dict)
                                               else None),
            'header': cherrypy.request.headers.get('X-Tok'),
            'thread_data': getattr(cherrypy.thread_data, 'c10_tok', None),
            'same_request': cherrypy.serving.request is req and cherrypy.serving.response is resp,
            'query': _qs_tok(cherrypy.request.query_string),
        }
    finally:
        _wait(barrier, rec, 'observed')
    cherrypy.response.headers['X-Tok-Echo'] = '%06d' % int(cherrypy.request.params.get('tok', -1))
    if spec['fail'] == 'http404':
        raise cherrypy.HTTPError(404, 'probe says no')
    if spec['fail'] == 'exc':
        raise ValueError('probe fails')
    return ('tok=%06d btok=%s' % (int(cherrypy.request.params.get('tok', -1)),
                                  rec['echo']['body'])).encode('ascii')


class MwBase(object):
    tagname = '?'

    def __init__(self, nextapp, tag=None):
        self.nextapp = nextapp
        self.tag = tag

    def __call__(self, environ, start_response):
        def sr(status, headers, exc_info=None):
            return start_response(status, list(headers) + [('X-Mw', '%s:%s' % (self.tagname, self.tag))], exc_info)
        return self.nextapp(environ, sr)


class MwA(MwBase):
    tagname = 'A'


class MwB(MwBase):
    tagname = 'B'


PATHS = {'A': ['/', '/plain', '/hdr', '/enc', '/json', '/hook', '/err', '/ns', '/exp', '/multi', '/deco', '/deco2'],
         'B': ['/', '/x', '/err', '/stamp']}
SCRIPT = {'A': '', 'B': '/b'}
APP_OWNER = {'A': 100, 'B': 101}
# app-level marks: what the configuration of each application writes into its own per-application objects
APP_MARKS = {'A': {18: [9001], 19: [9002], 20: [9003], 21: [9004]}, 'B': {18: [9011], 19: [9012], 20: [9013],
                                                                           21: [9014]}}
APP_MARK_NAMES = {18: {'mwA': 9001, 'mwB': 9011}, 19: {'mwA': 9002, 'mwB': 9012},
                  20: {'/onlyA': 9003, '/onlyB': 9013}, 21: {'nsA': 9004, 'nsB': 9014}}


def build_app(which):
    import cherrypy
    from ..impl import wsgi

    def mk(name):
        def h(self, *a, **kw):
            return probe()
        h.__name__ = name
        h.exposed = True
        return h

    if which == 'A':
        ns = {n.strip('/') or 'index': mk(n.strip('/') or 'index') for n in PATHS['A']}
        deco = ns['deco']
        # the SAME handler object (with its own _cp_config) is also reachable at /deco2; only /deco has an application
        # section: what a request to /deco merges must not stick to the object and show up under /deco2 later
        ns['deco2'] = deco
        deco._cp_config = {'tools.response_headers.on': True,
                           'tools.response_headers.headers': [('X-Deco', 'yes')],
                           'hooks.on_end_resource': conf_hook_b}
        Root = type('RootA', (object,), ns)
        conf = {
            '/': {'response.headers.X-Site': 'A', 'request.show_tracebacks': False,
                  'wsgi.pipeline': [('mwA', MwA)], 'wsgi.mwA.tag': 'a'},
            '/hdr': {'tools.response_headers.on': True, 'tools.response_headers.headers': [('X-Extra', '1')]},
            '/deco': {'response.headers.X-Deco-Section': 'only-under-/deco'},
            '/enc': {'tools.encode.on': True, 'tools.encode.encoding': 'utf-8'},
            '/json': {'tools.json_in.on': True, 'tools.json_in.force': False},
            '/hook': {'hooks.before_finalize': conf_hook_a, 'hooks.on_end_request.1': conf_hook_b,
                      'hooks.on_end_request.2': conf_hook_end_raises},
            '/err': {'error_page.404': errpage_404, 'error_page.default': errpage_default},
            '/ns': {'request.methods_with_bodies': ('POST', 'PUT', 'PROPFIND'), 'request.body.maxbytes': 100000,
                    'response.headers.X-Ns': 'ns', 'request.show_mismatched_params': False},
            '/exp': {'tools.expires.on': True, 'tools.expires.secs': 60},
            '/multi': {'tools.response_headers.on': True, 'tools.response_headers.headers': [('X-Multi', 'm')],
                       'tools.encode.on': True, 'tools.log_headers.on': True, 'tools.json_in.on': True,
                       'tools.json_in.force': False, 'error_page.404': errpage_404,
                       'hooks.before_handler': conf_hook_a},
            '/onlyA': {'tools.expires.on': True},
        }
        app = wsgi.make_app(Root(), conf, script_name='')
        app.namespaces['nsA'] = noop
        return app
    ns = {n.strip('/') or 'index': mk(n.strip('/') or 'index') for n in PATHS['B']}
    Root = type('RootB', (object,), ns)
    tb = cherrypy._cptools.Toolbox('mytb')

    def stamp(value='?'):
        cherrypy.serving.response.headers['X-Stamp'] = value
    tb.stamp = cherrypy.Tool('before_finalize', stamp, priority=70)
    conf = {
        '/': {'response.headers.X-Site': 'B', 'request.show_tracebacks': False, 'error_page.default': errpage_b,
              'wsgi.pipeline': [('mwB', MwB)], 'wsgi.mwB.tag': 'b', 'tools.trailing_slash.on': False},
        '/x': {'tools.response_headers.on': True, 'tools.response_headers.headers': [('X-Bx', 'x')]},
        '/err': {'error_page.404': errpage_b},
        '/stamp': {'mytb.stamp.on': True, 'mytb.stamp.value': 'stamped'},
        '/onlyB': {'tools.expires.on': True},
    }
    # an instance-level dict: Application.toolboxes is a class-level dict shared by every application
    app = cherrypy.Application.__new__(cherrypy.Application)
    app.toolboxes = {'tools': cherrypy.tools, 'mytb': tb}
    cherrypy.Application.__init__(app, Root(), '/b', conf)
    app.namespaces['nsB'] = noop
    return app


def app_marks(app):
    """{field: visible app-level marks} of one application"""
    out = {18: [], 19: [], 20: [], 21: []}
    for name, _ in app.wsgiapp.pipeline:
        if name in APP_MARK_NAMES[18]:
            out[18].append(APP_MARK_NAMES[18][name])
    for name in app.wsgiapp.config:
        if name in APP_MARK_NAMES[19]:
            out[19].append(APP_MARK_NAMES[19][name])
    for name in app.config:
        if name in APP_MARK_NAMES[20]:
            out[20].append(APP_MARK_NAMES[20][name])
    for name in app.namespaces:
        if name in APP_MARK_NAMES[21]:
            out[21].append(APP_MARK_NAMES[21][name])
    return {f: sorted(v) for f, v in out.items()}


def app_snapshot(app):
    return {'pipeline': canon(list(app.wsgiapp.pipeline)), 'wsgi_config': canon(app.wsgiapp.config),
            'config': canon(app.config), 'namespaces': canon(dict(app.namespaces)),
            'toolboxes': sorted(app.toolboxes)}


def roots_snapshot():
    """deep canonical snapshot of every class-level root"""
    import cherrypy
    from cherrypy import _cprequest, _cpreqbody, _cpwsgi, _cptree
    R, P = _cprequest.Request, _cprequest.Response
    return {
        'Request.hooks': {p: [hook_canon(h) for h in R.hooks[p]] for p in sorted(R.hooks)},
        'Request.error_page': canon(R.error_page), 'Request.namespaces': canon(dict(R.namespaces)),
        'Request.toolmaps': canon(R.toolmaps), 'Request.params': canon(R.params),
        'Request.headers': canon(dict(dict.items(R.headers))), 'Request.cookie': sorted(R.cookie.keys()),
        'Request.header_list': canon(R.header_list),
        'Response.headers': canon(dict(dict.items(P.headers))), 'Response.cookie': sorted(P.cookie.keys()),
        'Response.header_list': canon(P.header_list),
        'Entity.processors': canon(_cpreqbody.Entity.processors),
        'Entity.attempt_charsets': canon(_cpreqbody.Entity.attempt_charsets),
        'Part.attempt_charsets': canon(_cpreqbody.Part.attempt_charsets),
        'Part.processors': canon(_cpreqbody.Part.processors),
        'RequestBody.processors': canon(_cpreqbody.RequestBody.processors),
        'RequestBody.attempt_charsets': canon(_cpreqbody.RequestBody.attempt_charsets),
        'CPWSGIApp.pipeline': canon(_cpwsgi.CPWSGIApp.pipeline), 'CPWSGIApp.config': canon(_cpwsgi.CPWSGIApp.config),
        'Application.config': canon(_cptree.Application.config),
        'Application.namespaces': canon(dict(_cptree.Application.namespaces)),
        'Application.toolboxes': sorted(_cptree.Application.toolboxes),
        'cherrypy.config': canon(dict(cherrypy.config)),
        '_Serving.request': attrs_canon(vars(cherrypy._Serving.request)),
        '_Serving.response': attrs_canon({k: v for k, v in vars(cherrypy._Serving.response).items() if k != 'time'}),
        '_Serving.request.error_page': canon(cherrypy._Serving.request.error_page),
        '_Serving.request.namespaces': canon(dict(cherrypy._Serving.request.namespaces)),
        '_Serving.response.headers': canon({k: v for k, v in dict.items(cherrypy._Serving.response.headers)
                                            if k != 'Date'}),
        'cherrypy.tools': sorted(k for k in vars(cherrypy.tools) if not k.startswith('_')),
    }


class RootsKeeper(object):
    """pristine copies of the class-level containers; restore() puts them back IN PLACE"""

    def __init__(self):
        import cherrypy
        from cherrypy import _cprequest, _cpreqbody, _cpwsgi, _cptree
        R, P = _cprequest.Request, _cprequest.Response
        self.dicts = [R.error_page, R.namespaces, R.toolmaps, R.params, R.headers, R.cookie, P.headers, P.cookie,
                      _cpreqbody.Entity.processors, _cpwsgi.CPWSGIApp.config, _cptree.Application.config,
                      _cptree.Application.namespaces, _cptree.Application.toolboxes, cherrypy.config,
                      vars(cherrypy._Serving.request), vars(cherrypy._Serving.response), R.hooks]
        self.lists = [R.header_list, P.header_list, _cpreqbody.Entity.attempt_charsets,
                      _cpreqbody.Part.attempt_charsets, _cpwsgi.CPWSGIApp.pipeline]
        self.hooks = R.hooks
        self.saved_d = [dict(dict.items(d)) for d in self.dicts]
        self.saved_l = [list(x) for x in self.lists]
        self.saved_h = {p: list(v) for p, v in dict.items(R.hooks)}

    def restore(self):
        for d, s in zip(self.dicts, self.saved_d):
            if dict(dict.items(d)) != s or len(d) != len(s):
                dict.clear(d)
                dict.update(d, s)
        for x, s in zip(self.lists, self.saved_l):
            if x != s:
                x[:] = s
        for p, s in self.saved_h.items():
            if dict.__getitem__(self.hooks, p) != s:
                dict.__getitem__(self.hooks, p)[:] = s


BODY_KINDS = ['none', 'form', 'json', 'multipart']
FAILS = [None, 'http404', 'exc', 'miss']


def wire(spec):
    """(method, target, headers, body) of a request spec"""
    tok = spec['tok']
    t6 = '%06d' % tok
    path = spec['path']
    if spec['fail'] == 'miss':
        path = path.rstrip('/') + '/nope/' + t6
    target = path + '?tok=' + t6 + '&q=1'
    headers = [('X-Tok', t6)]
    bk = spec['body']
    if bk == 'none':
        return 'GET', target, headers, b''
    if bk == 'form':
        body = ('btok=%s&z=1' % t6).encode()
        headers.append(('Content-Type', 'application/x-www-form-urlencoded'))
    elif bk == 'json':
        body = ('{"btok": "%s"}' % t6).encode()
        headers.append(('Content-Type', 'application/json'))
    else:
        b = 'xXx%sxXx' % t6
        body = ('--%s\r\nContent-Disposition: form-data; name="btok"\r\n\r\n%s\r\n'
                '--%s\r\nContent-Disposition: form-data; name="f"; filename="f.txt"\r\n'
                'Content-Type: text/plain\r\n\r\nfile-content\r\n--%s--\r\n' % (b, t6, b, b)).encode()
        headers.append(('Content-Type', 'multipart/form-data; boundary=' + b))
    headers.append(('Content-Length', str(len(body))))
    return 'POST', target, headers, body


def norm_response(res, tok):
    hs = []
    for k, v in res['headers']:
        if k.lower().startswith('x-mark-'):
            continue
        if k.lower() == 'set-cookie' and v.startswith('mark_'):
            continue
        hs.append([k, '*' if k.title() in VOLATILE_HEADERS else _tokfix(v, tok)])
    return {'status': res['status'], 'headers': sorted(hs), 'body': _tokfix(res['body'].decode('latin-1'), tok),
            'escaped': res['escaped'], 'problems': list(res['problems'])}


def base_key(spec):
    return '%s %s %s %s' % (spec['app'], spec['path'], spec['body'], spec['fail'])


def serve_one(apps, spec):
    """serve one request on the calling thread; returns the per-request record"""
    import cherrypy
    from ..impl import wsgi
    tok = spec['tok']
    method, target, headers, body = wire(spec)
    rec = RESULTS.setdefault(tok, {})
    try:
        res = wsgi.call(apps[spec['app']], method, target, headers, body, script_name=SCRIPT[spec['app']])
        rec['response'] = norm_response(res, tok)
    except BaseException as e:     # the driver itself never raises; a crash is an observation too
        rec['response'] = {'status': None, 'headers': [], 'body': '', 'escaped': 'driver: %r' % (e,), 'problems': []}
    rec['serving_after'] = sorted(vars(cherrypy.serving))
    return rec


def baseline_main():
    """helper process: the whole site is built once; then one fork per request key, so that every baseline is
    what the request observes as the only request the process ever served; app-level baselines are taken in a
    fork that builds that application alone.  stdin: JSON list of specs; stdout: JSON"""
    from ..impl import wsgi
    specs = json.load(sys.stdin)
    wsgi.quiet_cherrypy()

    def in_child(fn):
        r, w = os.pipe()
        pid = os.fork()
        if pid == 0:
            code = 0
            try:
                os.close(r)
                data = json.dumps(fn(), default=core._jsonable).encode()
                with os.fdopen(w, 'wb') as f:
                    f.write(data)
            except BaseException:
                import traceback
                traceback.print_exc()
                code = 1
            os._exit(code)
        os.close(w)
        with os.fdopen(r, 'rb') as f:
            data = f.read()
        os.waitpid(pid, 0)
        return json.loads(data) if data else None

    out = {'apps_alone': {}, 'requests': {}}
    for which in ('A', 'B'):
        out['apps_alone'][which] = in_child(lambda: (lambda a: {'snap': app_snapshot(a), 'marks': app_marks(a)})(
            build_app(which)))
    apps = {'A': build_app('A'), 'B': build_app('B')}
    for spec in specs:
        def one():
            PLANS[spec['tok']] = (spec, None, None)
            rec = serve_one(apps, spec)
            return {'s0': rec.get('s0'), 'response': rec['response'], 'm0': rec.get('m0'),
                    'serving_after': rec['serving_after']}
        out['requests'][base_key(spec)] = in_child(one)
    json.dump(out, sys.stdout, default=core._jsonable)


# --------------------------------------------------------------------------------------------
class Pool(object):
    """persistent worker threads (requests of successive rounds reuse them, as a server's pool does)"""

    def __init__(self, n):
        import queue
        self.qs = [queue.Queue() for _ in range(n)]
        self.threads = [threading.Thread(target=self._work, args=(q,), daemon=True, name='c10-worker-%d' % i)
                        for i, q in enumerate(self.qs)]
        for t in self.threads:
            t.start()

    @staticmethod
    def _work(q):
        while True:
            job = q.get()
            if job is None:
                return
            fn, done = job
            try:
                fn()
            except BaseException:      # recorded by serve_one; never kill the worker
                pass
            finally:
                done.set()

    def submit(self, i, fn):
        done = threading.Event()
        self.qs[i].put((fn, done))
        return done

    def stop(self):
        for q in self.qs:
            q.put(None)
        for t in self.threads:
            t.join(2)


def _diff(a, b, path=''):
    """paths at which two canonical snapshots differ"""
    if type(a) is not type(b):
        return [path or '.']
    if isinstance(a, dict):
        out = []
        for k in sorted(set(a) | set(b)):
            if k not in a or k not in b:
                out.append('%s/%s' % (path, k))
            else:
                out += _diff(a[k], b[k], '%s/%s' % (path, k))
        return out
    if isinstance(a, list):
        if len(a) != len(b):
            return [path or '.']
        out = []
        for i, (x, y) in enumerate(zip(a, b)):
            out += _diff(x, y, '%s[%d]' % (path, i))
        return out
    return [] if a == b else [path or '.']


class C10(core.Check):
    pid = 'C10'
    props_files = ('Props/C10.v',)
    refuted_files = ('Refuted/R_C10.v',)
    model_fn = ('run_C10', 'Model.M_isolation')
    xcheck_n = 40
    rule = ('request histories (2..50 requests) over a two-application site (15 paths with different tool / hook / '
            'processor / error_page / namespace / response-header configuration), GET and POST with form, JSON and '
            'multipart bodies, handlers that fail with 404 / an exception, paths that miss; every probe handler '
            'applies 0..6 mutations out of 18 kinds (hooks, hook points, processors, part processors, error pages, '
            'namespaces, toolmaps, params, request/response headers, cookies, header_list, top-level config keys, '
            'charsets, ad-hoc attributes on request and response); requests are assigned to 1..16 real threads in '
            'rounds that overlap inside the handlers (barrier or staggered starts); some histories plant sentinel '
            'entries in class-level roots; plus a systematic family (every mutation kind sequentially and '
            'concurrently).  A history is non-trivial when >= 2 requests ran the probe and a mutation was applied; '
            'distinct by (threads, requests, overlapping rounds, mutation kinds, body kinds, failure kinds)')
    assumptions = (
        'shallow copies by design: nested mutable VALUES inside config dicts / toolmaps settings (and the handler '
        'objects stored in namespaces, processors, hooks) are shared; handlers of the generator never mutate them',
        'threading.local, the GIL and the atomicity of dict/list operations are trusted (CPython)',
        'Application.toolboxes is a class-level dict shared by every application by design (no per-instance copy); '
        'the tie checks that the anchored code only reads it; the site of this check gives an application its own '
        'toolboxes dict instead of mutating the shared one',
        'operations performed outside a request (cherrypy.request resolves to the class-level default request there) '
        'are outside the quantifier; the model ignores them with an explicit marker output',
        'the model treats the initialisation of a request (get_serving, Request.__init__/run/_do_respond, '
        'Response.__init__, Entity.__init__) as one step OBegin; those functions read class-level roots and write '
        'only the new objects (tie), and no user code runs in between',
        'class-level attributes that are not collections (Request.dispatch - one Dispatcher instance -, the default '
        'Host objects, the ResponseBody descriptor, bound methods) are shared objects by design and are not rows of '
        'the table; AppResponse.headerNames is a class-level dict that the anchored code only reads (checked)',
        'the initialisation of request.config is read off cherrypy/_cpdispatch.py (Dispatcher / RoutesDispatcher), '
        'which is not among the anchored files',
    )

    # ---------------- G ----------------
    def deriver(self):
        d = getattr(self, '_deriver', None)
        if d is None:
            d = Deriver(core.REPO)
            d.side = d.derive()
            self._deriver = d
        return d

    def kinds(self):
        try:
            k = dict(self.deriver().kinds())
        except Exception:
            # the translator failed closed (reported by ties()); D still runs, with the table the theorems assume
            k = {}
        fallback = not k
        for f, _ in FIELDS:
            k.setdefault(f, (EMPTY if f in (3, 4, 5, 6, 7, 9, 10, 11, 15, 16) else FRESH) if fallback else ALIAS)
        return k

    def ties(self):
        d = self.deriver()
        obs = []
        ok, out = core.coq_check_text('Tie_C10', d.coq_text())
        bad = ['%s: %s' % (src, why) for _, kind, src, why in d.rows if kind == ALIAS]
        missing = [FIELD_NAME[f] for f, _ in FIELDS if f not in d.kinds()]
        detail = ''
        if not ok:
            detail = 'ALIAS ROWS: %s\nFIELDS WITHOUT A ROW: %s\n%s' % ('; '.join(bad) or '-', ', '.join(missing) or '-',
                                                                      out)
        obs.append(core.Obligation(
            'tie_isolation_fields+tie_isolation_covers(%d rows generated from the sources: forallb is_fresh_entry = true, '
            'covers = true; theorems instantiated with the generated table)' % len(d.rows), ok, detail))
        for name, good, det in d.side:
            obs.append(core.Obligation('tie_serving(%s)' % name, good, det))
        for src, why in d.shared:
            obs.append(core.Obligation('tie_shared_readonly(%s: %s)' % (src, why), True, ''))
        for n in d.notes:
            self.notes.append('tie: ' + n)
        self.notes.append('generated table: ' + '; '.join('%s=%s [%s]' % (FIELD_NAME[f], k, s)
                                                          for f, k, s, _ in d.rows))
        return obs

    # ---------------- set-up ----------------
    def setup(self):
        from ..impl import wsgi
        import cherrypy
        wsgi.quiet_cherrypy()
        before = roots_snapshot()
        self.apps = {'A': build_app('A'), 'B': build_app('B')}
        after = roots_snapshot()
        self.construction_diff = _diff(before, after)
        self.site = {w: {'snap': app_snapshot(a), 'marks': app_marks(a)} for w, a in self.apps.items()}
        self.keeper = RootsKeeper()
        self.pool = Pool(16)
        self.root_ids = None
        self._base = {'requests': {}, 'apps_alone': None}
        self._cherrypy = cherrypy

    def teardown(self):
        import logging
        import cherrypy
        try:
            self.pool.stop()
        except Exception:
            pass
        try:
            self.keeper.restore()
        except Exception:
            pass
        for app in getattr(self, 'apps', {}).values():
            try:
                cherrypy.engine.unsubscribe('graceful', app.log.reopen_files)
            except Exception:
                pass
            for lg in (app.log.error_log, app.log.access_log):
                logging.Logger.manager.loggerDict.pop(lg.name, None)

    def ensure_baselines(self, specs):
        need = {}
        for s in specs:
            k = base_key(s)
            if k not in self._base['requests'] and k not in need:
                need[k] = {'tok': 1, 'th': 0, 'app': s['app'], 'path': s['path'], 'body': s['body'],
                           'fail': s['fail'], 'muts': []}
        if not need and self._base['apps_alone'] is not None:
            return
        code = ('import sys; sys.path[:0] = [%r, %r]; from vcheck.props import c10; c10.baseline_main()'
                % (core.REPO, core.VERIF))
        env = dict(os.environ, PYTHONHASHSEED='0')
        p = subprocess.run([core.PY, '-c', code], input=json.dumps(list(need.values())), text=True,
                           stdout=subprocess.PIPE, stderr=subprocess.PIPE, env=env, timeout=600, cwd=core.VERIF)
        if p.returncode != 0:
            raise RuntimeError('baseline helper failed: ' + p.stderr[-2000:])
        got = json.loads(p.stdout)
        self._base['requests'].update(got['requests'])
        self._base['apps_alone'] = got['apps_alone']
        self.count('baselines (one fresh forked process per request key)', len(need))

    # ---------------- generation ----------------
    def gen_spec(self, rng, tok, th, heavy=True):
        app = rng.choice(['A', 'A', 'B'])
        path = rng.choice(PATHS[app])
        body = rng.choice(['none', 'none', 'form', 'json', 'multipart'])
        fail = rng.choice([None, None, None, None, 'http404', 'exc', 'miss'])
        kinds = [k for k in MUT_KINDS if not k.startswith('part_') or body == 'multipart']
        nm = rng.choice([0, 1, 1, 2, 3, 4, 6]) if heavy else rng.choice([0, 1])
        muts = [[rng.choice(kinds), tok * 100 + i] for i in range(nm)] if fail != 'miss' else []
        return {'tok': tok, 'th': th, 'app': app, 'path': path, 'body': body, 'fail': fail, 'muts': muts}

    def gen_case(self, rng, nreq=None, T=None):
        T = T or rng.choice([1, 2, 2, 3, 4, 4, 6, 8, 12, 16])
        nreq = nreq or rng.choice([2, 2, 3, 4, 5, 6, 8, 10, 14, 20, 30, 50])
        rounds = []
        tok = 1
        left = nreq
        while left > 0:
            k = min(left, rng.choice([1, 1, 2, 2, 3, T, T]), T)
            ths = rng.sample(range(T), k)
            reqs = []
            for th in ths:
                reqs.append(self.gen_spec(rng, tok, th))
                tok += 1
            rounds.append({'mode': rng.choice(['barrier', 'barrier', 'stagger']), 'reqs': reqs})
            left -= k
        sentinels = []
        if rng.random() < 0.15:
            sentinels = sorted(rng.sample(sorted(SENTINEL_MUT), rng.choice([1, 2, 4, len(SENTINEL_MUT)])))
        return {'threads': T, 'rounds': rounds, 'sentinels': sentinels}

    def systematic(self):
        """every mutation kind: (a) mutating request, then an observer on the same thread, then one on another
        thread; (b) the mutating request overlapping an observer"""
        out = []
        i = 0
        for kind in MUT_KINDS:
            for app, path in (('A', '/hook'), ('A', '/multi'), ('B', '/stamp')):
                body = 'multipart' if kind.startswith('part_') else ['none', 'form', 'json'][i % 3]
                i += 1

                def spec(tok, th, muts):
                    return {'tok': tok, 'th': th, 'app': app, 'path': path, 'body': body, 'fail': None,
                            'muts': [[kind, tok * 100 + j] for j in range(muts)]}
                out.append({'threads': 2, 'sentinels': [], 'rounds': [
                    {'mode': 'barrier', 'reqs': [spec(1, 0, 2)]}, {'mode': 'barrier', 'reqs': [spec(2, 0, 0)]},
                    {'mode': 'barrier', 'reqs': [spec(3, 1, 0)]},
                    {'mode': 'stagger', 'reqs': [spec(4, 0, 1), spec(5, 1, 0)]},
                    {'mode': 'barrier', 'reqs': [spec(6, 1, 1), spec(7, 0, 1)]}]})
        for f in sorted(SENTINEL_MUT):
            out.append({'threads': 2, 'sentinels': [f], 'rounds': [
                {'mode': 'barrier', 'reqs': [
                    {'tok': 1, 'th': 0, 'app': 'A', 'path': '/multi', 'body': 'multipart', 'fail': None, 'muts': []},
                    {'tok': 2, 'th': 1, 'app': 'B', 'path': '/x', 'body': 'form', 'fail': None, 'muts': []}]}]})
        return out

    def extra(self):
        """the answer to a request does not depend on the requests served before it, for two kinds of state the
        generated histories do not reach (every generated request carries its own token in the query string, and no
        generated path is served by a handler tool made with keyword arguments):
          (a) GET ?tag=a&tag=b ; POST the same query with a form body adding tag=c, whose handler also appends to the
              list it was given ; the same GET again, on this and on another thread - must be answered as the first;
          (b) a staticdir handler made with keyword arguments, reachable under two sections with different tool
              settings: /docs/b.html ; /docs/drafts/a.txt (section with tools.staticdir.match) ; /docs/b.html again.
        Oracle only."""
        import shutil
        import tempfile
        from ..impl import wsgi
        cherrypy = self._cherrypy
        out = []
        d = tempfile.mkdtemp(prefix='c10x')
        try:
            os.makedirs(os.path.join(d, 'drafts'))
            for rel, data in (('b.html', b'<b>b</b>'), ('drafts/a.txt', b'draft a')):
                with open(os.path.join(d, rel), 'wb') as f:
                    f.write(data)

            class Root:
                @cherrypy.expose
                def echo(self, **kw):
                    seen = repr(sorted((k, v) for k, v in cherrypy.request.params.items()))
                    for v in cherrypy.request.params.values():
                        if isinstance(v, list):
                            v.append('appended-by-handler')
                    return seen
                docs = cherrypy.tools.staticdir.handler(section='/docs', dir=d)
            app = wsgi.make_app(Root(), {'/': {'request.show_tracebacks': False},
                                         '/docs/drafts': {'tools.staticdir.match': r'\.txt$'}})

            def view(r):
                return [r['status'], r['body'][:200].decode('latin-1')]
            # (a)
            q = '/echo?tag=a&tag=b'
            first = view(wsgi.call(app, 'GET', q))
            form = b'tag=c'
            wsgi.call(app, 'POST', q, [('Content-Type', 'application/x-www-form-urlencoded'),
                                       ('Content-Length', str(len(form)))], form)
            again = view(wsgi.call(app, 'GET', q))
            box = []
            t = threading.Thread(target=lambda: box.append(view(wsgi.call(app, 'GET', q))))
            t.start()
            t.join(30)
            self.count('extra: repeated query key across requests')
            if again != first or box != [first]:
                out.append(core.Violation(
                    'params-leak-across-requests',
                    'GET %s answered %r as the first request; after a POST with the same query string and a form body '
                    '(handler appends to the list parameter) the same GET is answered %r (other thread: %r)'
                    % (q, first, again, box), case={'k': 'repeated-query-key'},
                    observed={'first': first, 'again': again, 'other_thread': box}))
            # (b)
            b0 = view(wsgi.call(app, 'GET', '/docs/b.html'))
            dr = view(wsgi.call(app, 'GET', '/docs/drafts/a.txt'))
            b1 = view(wsgi.call(app, 'GET', '/docs/b.html'))
            self.count('extra: handler tool with keyword arguments under two sections')
            if b1 != b0 or b0[0] != 200 or dr[0] != 200:
                out.append(core.Violation(
                    'tool-settings-leak-across-requests',
                    'GET /docs/b.html answered %r; after GET /docs/drafts/a.txt (%r; its section sets '
                    'tools.staticdir.match) the same request is answered %r' % (b0, dr, b1),
                    case={'k': 'handler-tool-kwargs'}, observed={'first': b0, 'drafts': dr, 'again': b1}))
            # (c) class-level settings of the header map (protocol, encodings, RFC 2047 switch) are shared by every
            # response of the process: a request of another protocol version must not rewrite them
            from cherrypy.lib import httputil
            before = {k: repr(v) for k, v in vars(httputil.HeaderMap).items()
                      if not k.startswith('__') and not callable(v) and not isinstance(v, (classmethod, staticmethod))}
            r10 = view(wsgi.call(app, 'GET', q, protocol='HTTP/1.0'))
            after = {k: repr(v) for k, v in vars(httputil.HeaderMap).items()
                     if not k.startswith('__') and not callable(v) and not isinstance(v, (classmethod, staticmethod))}
            self.count('extra: HTTP/1.0 request, class-level header map settings')
            if after != before:
                changed = sorted(k for k in set(before) | set(after) if before.get(k) != after.get(k))
                out.append(core.Violation(
                    'roots-changed:HeaderMap',
                    'an HTTP/1.0 request (answered %r) changed class-level attributes of httputil.HeaderMap: %s'
                    % (r10, ', '.join('%s %s -> %s' % (k, before.get(k), after.get(k)) for k in changed)),
                    case={'k': 'http10-request'}, observed={'before': before, 'after': after}))
                for k, v in vars(httputil.HeaderMap).copy().items():       # put the process back as it was
                    pass
                httputil.HeaderMap.protocol = (1, 1)
            import logging
            try:
                cherrypy.engine.unsubscribe('graceful', app.log.reopen_files)
            except Exception:
                pass
            for lg in (app.log.error_log, app.log.access_log):
                logging.Logger.manager.loggerDict.pop(lg.name, None)
        finally:
            shutil.rmtree(d, ignore_errors=True)
        return out

    def cases(self):
        n = 700 if self.tier == 'quick' else 6000
        out = self.systematic()
        out += [self.gen_case(self.rng) for _ in range(n)]
        if self.tier == 'thorough':
            out += [self.gen_case(self.rng, nreq=50, T=16) for _ in range(60)]
        self.ensure_baselines([r for c in out + self.corpus() for rnd in c['rounds'] for r in rnd['reqs']])
        return out

    def search_cases(self, around=None):
        for c in around or []:
            yield c
        for c in self.systematic():
            yield c
        for _ in range(300):
            yield self.gen_case(self.rng)

    # ---------------- model side ----------------
    def schedule(self, c):
        """the schedule the model runs and, per OObserve in order, what it corresponds to"""
        sched, labels = [], []
        for w in ('A', 'B'):
            o = APP_OWNER[w]
            sched.append([o, 0, 0, 0])
            for f, ms in sorted(APP_MARKS[w].items()):
                for m in ms:
                    sched.append([o, 1, f, m])
            sched.append([o, 2, 0, 0])
            labels.append(['app', w])
        for rnd in c['rounds']:
            for r in rnd['reqs']:
                sched.append([r['th'], 0, 0, 0])
                if r['fail'] != 'miss':
                    sched.append([r['th'], 2, 0, 0])
                    labels.append([r['tok'], 'm0'])
                    for kind, n in r['muts']:
                        sched.append([r['th'], 1, MUT_FIELD[kind], n])
            for r in rnd['reqs']:
                if r['fail'] != 'miss':
                    sched.append([r['th'], 2, 0, 0])
                    labels.append([r['tok'], 'm1'])
            for r in rnd['reqs']:
                sched.append([r['th'], 3, 0, 0])
        return sched, labels

    def encode(self, c):
        kinds = self.kinds()
        table = [[f, KCODE[kinds[f]]] for f in sorted(kinds)]
        roots = [[f, [SENT + f]] for f in c['sentinels']]
        return [table, roots, self.schedule(c)[0]]

    # ---------------- implementation side ----------------
    def impl(self, c):
        self.ensure_baselines([r for rnd in c['rounds'] for r in rnd['reqs']])
        self.keeper.restore()
        PLANS.clear()
        RESULTS.clear()
        del HOOKRUNS[:]
        ro = root_objects()
        for f in c['sentinels']:
            apply_mut(ro, SENTINEL_MUT[f], SENT + f)
        roots1 = roots_snapshot()
        root_ids = {k: id(v) for k, v in ro.items() if k != 'part_processors'}
        for p, lst in dict.items(ro['hooks']):
            root_ids['hooklist:' + p] = id(lst)
        hung = []
        for rnd in c['rounds']:
            probes = [r for r in rnd['reqs'] if r['fail'] != 'miss']
            barrier = threading.Barrier(len(probes)) if len(probes) > 1 else None
            jobs = []
            for r in rnd['reqs']:
                is_probe = r['fail'] != 'miss'
                ev = threading.Event() if (rnd['mode'] == 'stagger' and is_probe) else None
                PLANS[r['tok']] = (r, barrier if is_probe else None, ev)
                jobs.append((r, self.pool.submit(r['th'], lambda r=r: serve_one(self.apps, r))))
                if ev is not None:
                    ev.wait(BT[0] + 1)
            for r, d in jobs:
                if not d.wait(30):
                    hung.append(r['tok'])
        roots2 = roots_snapshot()
        root_marks = marks_of_objects(root_objects())
        main_serving = sorted(vars(self._cherrypy.serving))
        self.keeper.restore()
        reqs = {}
        for rnd in c['rounds']:
            for r in rnd['reqs']:
                rec = RESULTS.get(r['tok'], {})
                out = {k: rec.get(k) for k in ('applied', 'echo', 'overlap', 'response', 'serving_after',
                                               'thread', 'ids')}
                # the full snapshot is large: keep its difference from the first-request baseline (and the
                # snapshot itself only when there is one)
                base = self._base['requests'].get(base_key(r))
                out['s0_diff'] = None
                if rec.get('s0') is not None and base is not None and base.get('s0') is not None:
                    out['s0_diff'] = _diff(base['s0'], rec['s0'])[:8]
                    if out['s0_diff']:
                        out['s0'] = rec['s0']
                for k in ('m0', 'm1'):
                    out[k] = sorted([f, v] for f, v in rec[k].items()) if rec.get(k) is not None else None
                reqs[str(r['tok'])] = out
        return {'reqs': reqs, 'roots_diff': _diff(roots1, roots2), 'root_marks': sorted([f, v] for f, v in
                                                                                       root_marks.items()),
                'root_ids': root_ids, 'hookruns': [list(x) for x in HOOKRUNS], 'hung': hung,
                'main_serving': main_serving, 'site': self.site, 'construction_diff': self.construction_diff}

    def compare(self, c, mo, obs):
        try:
            outs, roots_after = mo
        except Exception:
            return 'model output malformed: %r' % (mo,)
        sched, labels = self.schedule(c)
        if len(outs) != len(labels):
            return 'model produced %d observations for %d expected' % (len(outs), len(labels))
        for (owner, flag, snap), (who, which) in zip(outs, labels):
            if flag != 1:
                return 'model: observation outside a request for %r' % ((who, which),)
            m = {f: sorted(ms) for f, ms in snap}
            if who == 'app':
                real = obs['site'][which]['marks']
                for f in (18, 19, 20, 21):
                    rm = real.get(f, real.get(str(f)))
                    if m[f] != sorted(rm):
                        return 'application %s, %s: model predicts marks %r, implementation has %r' % (
                            which, FIELD_NAME[f], m[f], rm)
                continue
            rec = obs['reqs'].get(str(who))
            if rec is None or rec.get(which) is None:
                return 'request %s: the probe did not record %s' % (who, which)
            for f, rm in rec[which]:
                if m[f] != sorted(rm):
                    return 'request %s %s, %s: model predicts marks %r, implementation shows %r' % (
                        who, which, FIELD_NAME[f], m[f], rm)
        mr = {f: sorted(ms) for f, ms in roots_after}
        for f, rm in obs['root_marks']:
            if mr[f] != sorted(rm):
                return 'class-level root of %s after the history: model %r, implementation %r' % (
                    FIELD_NAME[f], mr[f], rm)
        return None

    # ---------------- property oracle (implementation only) ----------------
    def oracle(self, c, obs):
        fails = []

        def fail(sig, what):
            if not any(s == sig for s, _ in fails):
                fails.append((sig, what))
        specs = [r for rnd in c['rounds'] for r in rnd['reqs']]
        try:
            self.ensure_baselines(specs)
        except Exception as e:
            fail('baseline-helper-failed', repr(e))
            return fails
        for path in obs['roots_diff']:
            fail('roots-changed:%s' % path.split('/')[1], 'class-level root changed by the history: %s' % path)
        for path in obs['construction_diff']:
            fail('roots-changed-by-construction:%s' % path.split('/')[1],
                 'class-level root changed by building the applications: %s' % path)
        alone = self._base['apps_alone']
        for w in ('A', 'B'):
            d = _diff(alone[w]['snap'], obs['site'][w]['snap'])
            if d:
                fail('application-not-isolated:%s' % d[0].split('/')[1],
                     'application %s differs from the same application built alone in a fresh process: %s' % (w, d[:4]))
        if obs['hung']:
            fail('request-hung', 'requests %r did not finish' % obs['hung'])
        if obs['main_serving']:
            fail('serving-leaked-to-main-thread', 'cherrypy.serving of the main thread holds %r' % obs['main_serving'])
        owner_of = {}
        for r in specs:
            for _, n in r['muts']:
                owner_of[n] = r['tok']
        for n, tok in obs['hookruns']:
            if n >= SENT:
                continue
            if owner_of.get(n) != tok:
                fail('foreign-hook-ran', 'a hook attached by request %r ran inside request %r' % (owner_of.get(n), tok))
        root_ids = {v: k for k, v in obs['root_ids'].items()}
        for rnd in c['rounds']:
            live = {}
            full = True
            for r in rnd['reqs']:
                tok = r['tok']
                rec = obs['reqs'].get(str(tok)) or {}
                base = self._base['requests'].get(base_key(r))
                if base is None:
                    fail('baseline-missing', base_key(r))
                    continue
                # the response the client got
                if rec.get('response') is None:
                    fail('no-response', 'request %d produced no response record' % tok)
                else:
                    d = _diff(base['response'], rec['response'])
                    if d:
                        fail('response-differs:%s' % d[0].split('/')[1].split('[')[0],
                             'request %d (%s): response differs from its first-request baseline at %s: %r vs %r'
                             % (tok, base_key(r), d[:3], rec['response'], base['response']))
                if rec.get('serving_after'):
                    fail('serving-not-cleared', 'after request %d its thread still has serving.%s'
                         % (tok, rec['serving_after']))
                if r['fail'] == 'miss':
                    continue
                if rec.get('s0_diff') is None or rec.get('m1') is None or rec.get('echo') is None:
                    fail('probe-did-not-run', 'request %d (%s): the probe handler did not complete (%r)'
                         % (tok, base_key(r), rec.get('response')))
                    full = False
                    continue
                if not c['sentinels']:
                    d = rec['s0_diff']
                    if d:
                        sec = d[0].split('/')[1].split('[')[0]
                        fail('baseline-differs:%s' % sec,
                             'request %d (%s): snapshot differs from its first-request baseline at %s'
                             % (tok, base_key(r), d[:5]))
                own = {}
                for kind, n in r['muts']:
                    own.setdefault(MUT_FIELD[kind], []).append(n)
                for which in ('m0', 'm1'):
                    for f, ms in rec[which]:
                        mine = set(own.get(f, [])) if which == 'm1' else set()
                        foreign = [m for m in ms if m not in mine and m < SENT]
                        if foreign:
                            fail('foreign-mark-visible:%s' % FIELD_NAME[f],
                                 'request %d sees in %s the marks %r set by request(s) %r (%s)' % (
                                     tok, FIELD_NAME[f], foreign, sorted({owner_of.get(m) for m in foreign}),
                                     'on entering the handler' if which == 'm0' else 'after the overlap'))
                        if which == 'm1' and not mine <= set(ms):
                            fail('own-mark-lost:%s' % FIELD_NAME[f], 'request %d lost its own marks in %s: %r of %r'
                                 % (tok, FIELD_NAME[f], sorted(ms), sorted(mine)))
                e = rec['echo']
                t6 = '%06d' % tok
                want_body = t6 if (r['body'] in ('form', 'multipart') or (
                    r['body'] == 'json' and r['path'] in ('/json', '/multi') and r['app'] == 'A')) else None
                for ch, got, want in (('params', e['params'], t6), ('header', e['header'], t6),
                                      ('thread_data', e['thread_data'], tok), ('query', e['query'], tok),
                                      ('same_request', e['same_request'], True), ('body', e['body'], want_body)):
                    if got != want:
                        fail('token-mismatch:%s' % ch, 'request %d: token echoed through %s is %r' % (tok, ch, got))
                for k, i in (rec.get('ids') or {}).items():
                    if i in root_ids and root_ids[i] not in ('part_processors',):
                        fail('alias-of-root:%s' % k, 'request %d: its %s IS the class-level object %s'
                             % (tok, k, root_ids[i]))
                if 'mutated:timeout' in rec['overlap'] or 'observed:timeout' in rec['overlap']:
                    full = False
                live[tok] = rec.get('ids') or {}
            if full and len(live) > 1:
                seen = {}
                for tok, ids in live.items():
                    for k, i in ids.items():
                        if i in seen and seen[i][0] != tok:
                            fail('shared-object:%s' % k, 'concurrently live requests %d and %d share one %s object'
                                 % (seen[i][0], tok, k))
                        seen[i] = (tok, k)
        return fails

    def nontrivial(self, c, obs):
        specs = [r for rnd in c['rounds'] for r in rnd['reqs']]
        ran = [r for r in specs if (obs['reqs'].get(str(r['tok'])) or {}).get('m1') is not None]
        applied = sum(len((obs['reqs'][str(r['tok'])] or {}).get('applied') or []) for r in ran)
        over = 0
        for rnd in c['rounds']:
            ps = [r for r in rnd['reqs'] if r['fail'] != 'miss']
            if len(ps) > 1 and all((obs['reqs'][str(r['tok'])].get('overlap') or []) == ['mutated', 'observed']
                                   for r in ps):
                over += 1
        self.count('requests', len(specs))
        self.count('requests that ran the probe', len(ran))
        self.count('mutations applied', applied)
        self.count('rounds', len(c['rounds']))
        self.count('rounds with >=2 requests overlapping inside their handlers', over)
        self.count('barrier timeouts', sum((obs['reqs'][str(r['tok'])].get('overlap') or []).count(x)
                                           for r in specs for x in ('mutated:timeout', 'observed:timeout')))
        self.count('threads=%d' % c['threads'])
        self.count('history length %s' % ('2-5' if len(specs) <= 5 else '6-15' if len(specs) <= 15 else '16-50'))
        for r in specs:
            self.count('body=%s' % r['body'])
            self.count('outcome=%s' % (r['fail'] or 'ok'))
            for k, _ in r['muts']:
                self.count('mutation=%s' % k)
        if c['sentinels']:
            self.count('histories with class-level sentinels')
        if len(ran) < 2 or not applied:
            return None
        return (c['threads'], len(specs), over, tuple(sorted({k for r in specs for k, _ in r['muts']})),
                tuple(sorted({r['body'] for r in specs})), tuple(sorted({str(r['fail']) for r in specs})),
                tuple(c['sentinels']))

    def shrink(self, c, still_fails0):
        import time
        if not hasattr(self, '_shrink_until'):
            self._shrink_until = time.time() + (90 if self.tier == 'quick' else 600)   # total budget of a run

        def still_fails(cc):
            if time.time() > self._shrink_until:
                return False
            return still_fails0(cc)

        c = json.loads(json.dumps(c))       # private copy: the request dicts are edited in place below

        def rebuild(rounds):
            return {'threads': c['threads'], 'sentinels': c['sentinels'],
                    'rounds': [r for r in rounds if r['reqs']]}
        rounds = core.shrink_list(c['rounds'], lambda rs: bool(rs) and still_fails(rebuild(rs)))
        c = rebuild(rounds)
        flat = [(i, r) for i, rnd in enumerate(c['rounds']) for r in rnd['reqs']]

        def from_flat(fl):
            rs = [{'mode': rnd['mode'], 'reqs': [r for i, r in fl if i == j]} for j, rnd in enumerate(c['rounds'])]
            return rebuild(rs)
        flat = core.shrink_list(flat, lambda fl: bool(fl) and still_fails(from_flat(fl)))
        c = from_flat(flat)
        for rnd in c['rounds']:
            for r in rnd['reqs']:
                def with_muts(ms, r=r):
                    old = r['muts']
                    r['muts'] = ms
                    try:
                        return still_fails(c)
                    finally:
                        r['muts'] = old
                r['muts'] = core.shrink_list(r['muts'], with_muts)
        if c['sentinels']:
            c['sentinels'] = core.shrink_list(c['sentinels'], lambda s: still_fails(dict(c, sentinels=s)))
        return c


CHECK = C10
