"""Shared machinery of C01 and C09: scenarios of a whole server session (application call, iteration,
close) with faults injected at chosen call sites of the REAL pipeline, the matching environment for
the Coq model (coq/Model/M_flowrun.v), journal projection and comparison, and the G ties
(skeletons regenerated from /repo by vcheck/translate/pyflow.py)."""
import os
import re
import sys

from .. import core, sx
from ..impl import wsgi
from ..translate import pyflow

HOP_LIMIT = 12
MARK = 'zqXmarkerQz'          # put into every injected exception message
HOOKPOINTS = ['on_start_resource', 'before_request_body', 'before_handler', 'before_finalize',
              'on_end_resource', 'on_end_request', 'before_error_response', 'after_error_response']
EXN = {'HTTPError': 1, 'HTTPRedirect': 2, 'InternalRedirect': 3, 'Exception': 4, 'StopIteration': 5,
       'KeyboardInterrupt': 6, 'SystemExit': 7, 'FromServer': 8}
EXN_R = {v: k for k, v in EXN.items()}


def _ctors(text, name):
    m = re.search(r'Inductive %s :=\n(.*?)\.\n' % name, text, flags=re.S)
    body = re.sub(r'\(\*.*?\*\)', '', m.group(1), flags=re.S)
    return [t.strip().split()[0].strip('(') for t in body.split('|') if t.strip()]


def codes():
    """numbering of actions / flags exactly as M_flowrun.v generates it from M_flow.v"""
    text = open(os.path.join(core.COQ, 'Model', 'M_flow.v')).read()
    hps = _ctors(text, 'hookpoint')
    acts = []
    for a in _ctors(text, 'action'):
        if a == 'RunHooks':
            acts += ['RunHooks %s' % h for h in hps]
        else:
            acts.append(a)
    flags = _ctors(text, 'flag')
    return ({a: i for i, a in enumerate(acts)}, {f: i for i, f in enumerate(flags)}, hps)


def all_codes():
    """name -> code tables for terms of the skeleton language (numbering read off M_flow.v, as M_flowrun.v has it)"""
    text = open(os.path.join(core.COQ, 'Model', 'M_flow.v')).read()
    acode, fcode, _ = codes()
    return {'action': acode, 'flag': fcode,
            'fname': {f: i for i, f in enumerate(_ctors(text, 'fname'))},
            'pat': {p: i for i, p in enumerate(_ctors(text, 'pat'))},
            'exn': {'X' + k: v for k, v in EXN.items()}}


FN_OF = {'request_run': ['F_request_run'], 'respond': ['F_respond'], 'do_respond': ['F_do_respond'],
         'handle_error': ['F_handle_error'], 'request_close': ['F_request_close', 'F_ir_request_close'],
         'get_serving': ['F_get_serving'], 'release_serving': ['F_release_serving'],
         'appresponse_init': ['F_appresponse_init'], 'appresponse_close': ['F_appresponse_close'],
         'appresponse_close_init': ['F_appresponse_close_init'], 'appresponse_run': ['F_appresponse_run'],
         'redirector_call': ['F_redirector_call'], 'trap': ['F_trap_init', 'F_trap_next'],
         'trapped_init': ['F_trapped_init'], 'trapped_next': ['F_trapped_next'], 'trapped_close': ['F_trapped_close']}


POINT_COQ = dict(zip(HOOKPOINTS, ['OnStartResource', 'BeforeRequestBody', 'BeforeHandler', 'BeforeFinalize',
                                  'OnEndResource', 'OnEndRequest', 'BeforeErrorResponse', 'AfterErrorResponse']))

# actions whose execution the harness observes on the real code (journal projection)
OBSERVED = ['ProcessHeaders', 'GetResource', 'Namespaces', 'ProcessQueryString', 'BodyProcess', 'Handler',
            'Finalize', 'SetResponseOfExc', 'ErrorResponse', 'LogAccess', 'StartResponse', 'StartResponseExc',
            'LoadServing', 'ClearServing', 'BareError', 'BareErrorTrap'] + ['RunHooks ' + p for p in POINT_COQ.values()]
# call sites where a fault can be injected from outside
INJECTABLE = ['ProcessHeaders', 'GetResource', 'Namespaces', 'ProcessQueryString', 'BodyProcess', 'Handler',
              'Finalize', 'SetResponseOfExc', 'ErrorResponse', 'LogAccess', 'StartResponse', 'StartResponseExc']


class ServerError(Exception):
    """what the server's start_response raises"""


class Injected(ValueError):
    pass


class Scenario(dict):
    pass


class Harness:
    """runs one scenario against the real code"""

    def __init__(self):
        self.installed = False

    # ---- exception factory -------------------------------------------------------------------
    def make_exc(self, kind, sc):
        import cherrypy
        if kind == 'HTTPError':
            return cherrypy.HTTPError(503 if sc['http5'] else 409, 'injected on purpose')   # its message is meant for the client
        if kind == 'HTTPRedirect':
            return cherrypy.HTTPRedirect('/elsewhere')
        if kind == 'InternalRedirect':
            target = sc['redirect_to']
            if target == 'cycleqs':
                # a cycle whose hops carry different query strings: /?n=1 -> /other?m=2 -> /?n=1 ...
                target = '/other?m=2' if cherrypy.serving.request.path_info == '/' else '/?n=1'
            return cherrypy.InternalRedirect(target)
        if kind == 'Exception':
            # (a lone surrogate in the message: text that cannot be encoded when it is put on a page)
            return Injected('boom ' + MARK + ('\ud800' if sc.get('surrogate') else ''))
        if kind == 'KeyboardInterrupt':
            return KeyboardInterrupt()
        if kind == 'SystemExit':
            return SystemExit(3)
        if kind == 'StopIteration':
            return StopIteration()
        if kind == 'FromServer':
            return ServerError('server ' + MARK)
        raise ValueError(kind)

    def kind_of(self, e):
        import cherrypy
        for cls, k in ((cherrypy.HTTPError, 'HTTPError'), (cherrypy.HTTPRedirect, 'HTTPRedirect'),
                       (cherrypy.InternalRedirect, 'InternalRedirect'), (KeyboardInterrupt, 'KeyboardInterrupt'),
                       (SystemExit, 'SystemExit'), (StopIteration, 'StopIteration'), (ServerError, 'FromServer')):
            if isinstance(e, cls):
                return k
        return 'Exception'

    # ---- instrumentation ---------------------------------------------------------------------
    def install(self):
        import cherrypy
        from cherrypy import _cprequest, _cperror, _cpreqbody, _cpwsgi
        from cherrypy.lib import reprconf
        if self.installed:
            return
        self.installed = True
        self.saved = []
        H = self

        def patch(obj, name, new):
            H.saved.append((obj, name, obj.__dict__.get(name, getattr(obj, name))))
            setattr(obj, name, new)

        def wrap_method(cls, name, action_of):
            orig = cls.__dict__[name]

            def w(self, *a, **k):
                act = action_of(self) if callable(action_of) else action_of
                if act is None:
                    return orig(self, *a, **k)
                n = H.counts.get(act, 0)
                H.hit(act)
                try:
                    return orig(self, *a, **k)
                except BaseException as e:
                    # the framework's own step failed (not an injected fault): an input of the model's environment
                    H.env_rules.append([act, n, H.kind_of(e)])
                    raise
            w.__name__ = name
            patch(cls, name, w)

        wrap_method(_cprequest.Request, 'process_headers', 'ProcessHeaders')
        wrap_method(_cprequest.Request, 'get_resource', 'GetResource')
        wrap_method(_cprequest.Request, 'process_query_string', 'ProcessQueryString')
        wrap_method(_cpreqbody.RequestBody, 'process', 'BodyProcess')
        wrap_method(_cprequest.Response, 'finalize', 'Finalize')
        wrap_method(reprconf.NamespaceSet, '__call__',
                    lambda ns: 'Namespaces' if H.active and ns is cherrypy.serving.request.namespaces else None)

        def which_set_response(exc):
            if not H.active:
                return None
            er = getattr(cherrypy.serving.request, 'error_response', None)
            return 'ErrorResponse' if getattr(er, '__self__', None) is exc else 'SetResponseOfExc'
        wrap_method(_cperror.HTTPError, 'set_response', which_set_response)
        wrap_method(_cperror.HTTPRedirect, 'set_response', which_set_response)
        wrap_method(type(cherrypy.log), 'access', lambda lg: 'LogAccess' if H.active else None)

        orig_run = _cprequest.HookMap.run

        def hook_run(hm, point):
            if not H.active:
                return orig_run(hm, point)
            # tagged with the request that OWNS the hook map (close() of a request that is no longer in the
            # serving slot - InternalRedirector's ir.request.close() - still runs that request's hooks)
            owner = next((i + 1 for i, q in enumerate(H.requests) if getattr(q, 'hooks', None) is hm), H.req_no())
            entry = ['RunHooks ' + POINT_COQ[point], owner, []]
            H.log.append(entry)
            H.cur_hook_entry = entry
            try:
                return orig_run(hm, point)
            except BaseException as e:
                H.hook_raised.append([POINT_COQ[point], entry[1], H.kind_of(e)])
                raise
        patch(_cprequest.HookMap, 'run', hook_run)

        orig_load, orig_clear = cherrypy.serving.load, cherrypy.serving.clear

        def load(req, resp):
            orig_load(req, resp)
            if H.active:
                H.requests.append(req)
                H.log.append(['LoadServing', H.req_no()])
                if len(H.requests) > HOP_LIMIT:
                    raise RuntimeError('harness: more than %d requests in one session (unbounded redirects)' % HOP_LIMIT)
                req.show_tracebacks = H.sc['showtb']
                req.throw_errors = False
        patch(type(cherrypy.serving), 'load', lambda s, req, resp: load(req, resp))

        def clear():
            if H.active:
                H.log.append(['ClearServing', H.req_no()])
            orig_clear()
        patch(type(cherrypy.serving), 'clear', lambda s: clear())

        # the class-default request that sits in the serving slot between requests: steady state = closed
        # (model: M_flow.init_ids)
        patch(type(cherrypy.serving).request, 'closed', True)

        orig_close = _cpwsgi.AppResponse.close

        def app_close(ar):
            if not H.active:
                return orig_close(ar)
            in_init = not hasattr(ar, 'write')          # close() called from __init__'s except clause
            streaming = bool(cherrypy.serving.response.stream)
            unset = not hasattr(ar, 'iter_response')
            H.closes += 1
            if streaming:
                H.streaming_closes.append(H.closes)
            try:
                return orig_close(ar)
            finally:
                if in_init and streaming:
                    k = H.counts.get('ReadIterResponse', 0)
                    H.counts['ReadIterResponse'] = k + 1
                    if unset:
                        H.env_rules.append(['ReadIterResponse', k, 'Exception'])
        patch(_cpwsgi.AppResponse, 'close', app_close)

        ob1 = _cprequest.bare_error

        def bare1(*a, **k):
            if H.active:
                H.log.append(['BareError', H.req_no()])
            return ob1(*a, **k)
        patch(_cprequest, 'bare_error', bare1)
        ob2 = _cperror.bare_error

        def bare2(*a, **k):
            if H.active:
                H.log.append(['BareErrorTrap', H.req_no()])
            return ob2(*a, **k)
        patch(_cperror, 'bare_error', bare2)

    def uninstall(self):
        if not self.installed:
            return
        for obj, name, old in reversed(self.saved):
            setattr(obj, name, old)
        self.installed = False

    active = False

    def req_no(self):
        import cherrypy
        r = cherrypy.serving.request
        for i, q in enumerate(self.requests):
            if q is r:
                return i + 1
        return 0

    def hit(self, action):
        """an injectable call site is reached: log, count, maybe raise"""
        if not self.active:
            return
        n = self.counts.get(action, 0)
        self.counts[action] = n + 1
        self.log.append([action, self.req_no()])
        for a, k, kind in self.sc['faults']:
            if a == action and k == n:
                self.raised.append([action, kind])
                raise self.make_exc(kind, self.sc)

    # ---- the site ----------------------------------------------------------------------------
    def build_app(self, sc):
        import cherrypy
        from cherrypy import _cprequest
        H = self

        class Root:
            @cherrypy.expose
            def index(self, **kw):
                return H.handler()

            @cherrypy.expose
            def other(self, **kw):
                return H.handler()

        hooks = _cprequest.HookMap(_cprequest.hookpoints)
        for point, lst in sc['hooks'].items():
            for hid, prio, failsafe, beh in lst:
                def cb(hid=hid, beh=beh, point=point):
                    H.cur_hook_entry[2].append(hid)
                    if beh:
                        raise H.make_exc(beh, sc)
                if hid % 4 == 3:
                    # the way the hooks.* config namespace (and user code) adds a hook: a Hook made from the bare
                    # callback, appended to the point's list without going through attach()
                    cb.failsafe = failsafe
                    cb.priority = prio
                    hooks[point].append(_cprequest.Hook(cb))
                elif hid % 2:
                    # metadata declared on the callback itself
                    cb.failsafe = failsafe
                    cb.priority = prio
                    hooks.attach(point, cb)
                else:
                    # explicit arguments of attach() win over (misleading) attributes of the callback
                    cb.failsafe = not failsafe
                    cb.priority = 50 if prio != 50 else 20
                    hooks.attach(point, cb, failsafe=failsafe, priority=prio)

        class Req(_cprequest.Request):
            pass
        Req.hooks = hooks
        # show_tracebacks is set on the request object at load (the property's hypothesis is about the attribute)
        # and in the config, so that the request namespace does not flip it back; tools.encode (on by default)
        # is off so that the ResponseBody descriptor's refusal of str bodies is reachable
        conf = {'/': {'response.stream': bool(sc['stream']), 'request.show_tracebacks': bool(sc['showtb']),
                      'tools.encode.on': False}}
        if sc.get('error_page_fails'):
            def bad_page(**kw):
                raise Injected('error page ' + MARK)
            conf['/']['error_page.default'] = bad_page
        app = wsgi.make_app(Root(), conf)
        app.request_class = Req
        return app

    def handler(self):
        sc = self.sc
        self.hit('Handler')
        beh = sc['body']
        n = sc['chunks']
        H = self
        if n % 2:
            # a header value given as bytes, with control characters (finalize must clean it like any other)
            import cherrypy
            cherrypy.serving.response.headers['X-Tag'] = b'abc\r\nSet-Cookie: injected=1'
        if sc['stream']:
            def gen():
                for i in range(n):
                    if sc['midstream'] is not None and i == sc['midstream'][0]:
                        H.mid_at = H.next_calls - 1
                        raise H.make_exc(sc['midstream'][1], sc)
                    yield b'chunk%d' % i
                if sc['midstream'] is not None and sc['midstream'][0] >= n:
                    H.mid_at = H.next_calls - 1
                    raise H.make_exc(sc['midstream'][1], sc)
            return gen()
        if beh == 'bytes':
            return b'hello world'
        if beh == 'list':
            return [b'a', b'b']
        if beh == 'none':
            return None
        if beh == 'str':
            return 'text is not allowed'
        if beh == 'int':
            return 42
        return b'x'

    # ---- one server session --------------------------------------------------------------------
    def run(self, sc):
        import cherrypy
        self.install()
        self.sc = sc
        self.counts, self.log, self.raised, self.requests = {}, [], [], []
        self.hook_raised = []        # (point, request, kind of the exception the hook point propagated)
        self.next_calls, self.mid_at = 0, None
        self.closes, self.streaming_closes = 0, []
        self.env_rules = []          # failures of framework-internal steps, observed (inputs of the model's environment)
        self.cur_hook_entry = ['none', 0, []]
        app = self.build_app(sc)
        env, inp, _ = wsgi.build_environ(sc['method'], '/?n=1' if sc['redirect_to'] == 'cycleqs' else '/',
                                         [('Content-Length', '0')] if sc['method'] == 'POST' else [],
                                         b'', 'HTTP/1.1')
        res = {'start_calls': [], 'chunks': [], 'escaped': None, 'nexts': 0, 'closes': 0, 'status_line': None,
               'headers': [], 'problems': []}
        H = self

        def start_response(status, headers, exc_info=None):
            act = 'StartResponseExc' if exc_info else 'StartResponse'
            n = H.counts.get(act, 0)
            H.hit(act)
            if exc_info and res['chunks_sent']:
                # PEP 3333: output has been sent already, the server re-raises the application's exception
                H.env_rules.append([act, n, 'FromServer'])
                res['reraised'] = exc_info[1]
                raise exc_info[1]
            res['start_calls'].append(bool(exc_info))      # completed calls only
            res['status_line'], res['headers'] = status, list(headers)
            # PEP 3333: names and values are native strings without control characters
            for k, v in headers:
                if not (isinstance(k, str) and isinstance(v, str)):
                    res['problems'].append('non-str header %r' % ((k, v),))
                elif any(ord(ch) < 32 or ord(ch) == 127 for ch in k + v):
                    res['problems'].append('ctl-in-header %r' % ((k, v),))
            return lambda d: None
        res['chunks_sent'] = False
        self.active = True
        it = None
        try:
            try:
                it = app(env, start_response)
            except BaseException as e:
                res['escaped'] = ['call', type(e).__name__]
            if it is not None:
                try:
                    iterator = iter(it)
                    k = 0
                    while True:
                        if sc['abandon'] is not None and k >= sc['abandon']:
                            break
                        H.next_calls += 1
                        try:
                            chunk = next(iterator)
                        except StopIteration:
                            break
                        res['nexts'] += 1
                        k += 1
                        if not isinstance(chunk, bytes):
                            res['problems'].append('non-bytes chunk')
                        elif chunk:
                            res['chunks'].append(chunk)
                            res['chunks_sent'] = True
                except BaseException as e:
                    res['escaped'] = ['next', 'ServerError' if e is res.get('reraised') else type(e).__name__]
                finally:
                    for _ in range(1 + sc['extra_close']):
                        try:
                            if hasattr(it, 'close'):
                                it.close()
                            res['closes'] += 1
                        except BaseException as e:
                            res['escaped'] = ['close', type(e).__name__]
                            break
        finally:
            self.active = False
            try:
                cherrypy.serving.clear()
            except Exception:
                pass
            self._drop_app(app)
        body = b''.join(res['chunks'])
        sl = res['status_line']
        status = int(sl[:3]) if isinstance(sl, str) and re.match(r'^\d{3} ', sl) else None
        if sl is not None and status is None:
            res['problems'].append('illegal status line %r' % (sl,))
        for k, v in res['headers']:
            if not (isinstance(k, str) and isinstance(v, str)):
                res['problems'].append('non-str header')
            else:
                try:
                    k.encode('latin-1'), v.encode('latin-1')
                except UnicodeEncodeError:
                    res['problems'].append('non-latin-1 header')
        text = body.decode('latin-1')
        self.last_body = text
        taint = (MARK in text) or ('Traceback (most recent call last)' in text) or ('File "' in text)
        reqs = len(self.requests)
        return {'streaming_closes': self.streaming_closes, 'env_rules': self.env_rules, 'hook_raised': self.hook_raised, 'mid_at': self.mid_at, 'journal': self.log, 'status': status, 'taint': bool(taint), 'start_calls': res['start_calls'],
                'escaped': res['escaped'], 'nexts': res['nexts'], 'problems': res['problems'],
                'raised': self.raised, 'requests': reqs, 'body_len': len(body)}

    def _drop_app(self, app):
        import cherrypy
        import logging
        try:
            cherrypy.engine.unsubscribe('before_request', None)
        except Exception:
            pass
        for name in list(logging.Logger.manager.loggerDict):
            if name.endswith('.%d' % id(app)):
                logging.Logger.manager.loggerDict.pop(name, None)


class FlowCheck(core.Check):
    """common part of C01 / C09"""
    model_fn = ('run_session', 'Model.M_flowrun')    # kernel re-evaluation (vm_compute) of a few sampled sessions
    xcheck_n = 8

    def setup(self):
        self.h = Harness()
        self.acode, self.fcode, _ = codes()
        self._obs = {}
        wsgi.quiet_cherrypy()
        import logging
        self._last_resort, logging.lastResort = logging.lastResort, None     # handler-less loggers stay silent

    def teardown(self):
        self.h.uninstall()
        import logging
        logging.lastResort = self._last_resort

    # ---- G: regenerate the skeletons from the sources; re-establish the theorems for them; compare with the
    #         hand-written reference skeletons -------------------------------------------------------------
    def ties(self):
        self.prog_sx = []
        text, unknown = pyflow.generate(core.REPO)
        gen_obs, gen_ok = self.regenerated_theorems(text)
        lines = [text, 'From CV Require Import Model.M_pipeline.']
        for name, _, _ in pyflow.FUNCTIONS:
            lines.append('Lemma tie_%s : G_%s = sk_%s.\nProof. reflexivity. Qed.' % (name, name, name))
        obs = []
        ok, out = core.coq_check_text('Tie_flow_%s' % self.pid, '\n'.join(lines) + '\n')
        results = {}
        if ok:
            results = {name: (True, '') for name, _, _ in pyflow.FUNCTIONS}
        else:
            for name, rel, q in pyflow.FUNCTIONS:
                one = [text, 'From CV Require Import Model.M_pipeline.',
                       'Lemma tie_%s : G_%s = sk_%s.\nProof. reflexivity. Qed.' % (name, name, name)]
                results[name] = core.coq_check_text('Tie_flow_%s_%s' % (self.pid, name), '\n'.join(one) + '\n')
        for name, rel, q in pyflow.FUNCTIONS:
            ok1, out1 = results[name]
            if ok1:
                obs.append(core.Obligation('tie_%s: skeleton of %s regenerated from %s equals M_pipeline.sk_%s'
                                           % (name, q, rel, name), True))
            elif gen_ok:
                # the source no longer matches the hand-written reference, but every theorem has just been
                # re-established for the regenerated program, and the correspondence below runs the semantics on
                # the regenerated program: the reference is out of date, the property is still shown to hold
                obs.append(core.Obligation(
                    'skeleton of %s (%s) differs from the hand-written reference sk_%s: superseded - theorems '
                    're-established for the regenerated program (gen_flow_checks), correspondence run on it'
                    % (q, rel, name), True, out1[-600:]))
                self.notes.append('reference skeleton sk_%s is out of date w.r.t. %s:%s' % (name, rel, q))
            else:
                obs.append(core.Obligation('tie_%s: skeleton of %s regenerated from %s equals M_pipeline.sk_%s'
                                           % (name, q, rel, name), False, out1))
        obs += gen_obs
        self.notes.append('translator: %d statements mapped to the generic may-raise action Other'
                          % sum(len(v) for v in unknown.values()))
        return obs

    GEN_THEOREMS = {
        'C01': ['gthm_no_escape', 'gthm_one_response', 'gthm_unexpected_5xx', 'gthm_no_leak'],
        'C09': ['gthm_end_resource_once', 'gthm_hook_bounds', 'gthm_hook_tables', 'gthm_end_request_not_in_run',
                'gthm_end_request_at_most_once', 'gthm_end_request_exactly_once_if_closed', 'gthm_served_closed',
                'gthm_end_request_exactly_once'],
    }

    def regenerated_theorems(self, text):
        """the property theorems re-established, by the kernel, for the skeletons regenerated from /repo: the
        regenerated program must pass the boolean check flow_checks (symbolic execution of a whole server
        session, counting analyses, close() idiom) whose soundness is proved once and for all in P_flow_gen.v"""
        names = [n for n, _, _ in pyflow.FUNCTIONS]
        fn_of = {'request_run': 'F_request_run', 'respond': 'F_respond', 'do_respond': 'F_do_respond',
                 'handle_error': 'F_handle_error', 'request_close': 'F_request_close',
                 'get_serving': 'F_get_serving', 'release_serving': 'F_release_serving',
                 'appresponse_init': 'F_appresponse_init', 'appresponse_close': 'F_appresponse_close',
                 'appresponse_close_init': 'F_appresponse_close_init', 'appresponse_run': 'F_appresponse_run',
                 'redirector_call': 'F_redirector_call', 'trapped_init': 'F_trapped_init',
                 'trapped_next': 'F_trapped_next', 'trapped_close': 'F_trapped_close'}
        arms = ['  | %s => G_%s' % (fn_of[n], n) for n in names if n in fn_of]
        arms += ['  | F_ir_request_close => G_request_close', '  | F_trap_init | F_trap_next => G_trap']
        # the same program as data, for the extracted model: kernel-checked to be enc_prog of the Coq term
        allc = all_codes()
        by_code = {}
        for name, term in pyflow.generate_terms(core.REPO):
            sxv = pyflow.term_to_sx(term, allc)
            for f in FN_OF[name]:
                by_code[allc['fname'][f]] = sxv
        prog_sx = [[k, by_code[k]] for k in sorted(by_code)]
        lines = [text, 'From CV Require Import Lib.Sx Model.M_pipeline Model.M_aflow Model.M_flowrun Proof.P_flow_thm '
                 'Proof.P_flow_gen Proof.P_flow_enc.',
                 'Definition Gprog (f : fname) : stmt :=\n  match f with\n%s\n  end.' % '\n'.join(arms),
                 'Lemma gen_flow_checks : flow_checks Gprog pparam sess_fuel = true.',
                 'Proof. vm_cast_no_check (eq_refl true). Qed.',
                 'Open Scope Z_scope.',
                 'Lemma enc_ok : enc_prog Gprog = %s.' % sx.to_coq(sx.norm(prog_sx)),
                 'Proof. vm_compute. reflexivity. Qed.']
        for t in self.GEN_THEOREMS[self.pid]:
            # (a theorem of the section that needs no check keeps only the parameters it uses)
            lines.append('Definition gen_%s := ltac:(first [exact (%s Gprog pparam sess_fuel gen_flow_checks) '
                         '| exact (%s Gprog pparam)]).' % (t, t, t))
            lines.append('Print Assumptions gen_%s.' % t)
        ok, out = core.coq_check_text('Gen_flow_%s' % self.pid, '\n'.join(lines) + '\n', timeout=900)
        closed = out.count('Closed under the global context')
        n = len(self.GEN_THEOREMS[self.pid])
        good = ok and closed == n
        res = [core.Obligation('gen_flow_checks: the skeletons regenerated from %s pass flow_checks (kernel, vm)' % core.REPO,
                               good, '' if good else out),
               core.Obligation('enc_ok: the program handed to the extracted model is enc_prog of the regenerated Coq '
                               'terms (and dec_prog (enc_prog p) = p, P_flow_enc)', good, '' if good else 'see gen_flow_checks')]
        for t in self.GEN_THEOREMS[self.pid]:
            res.append(core.Obligation('gen_%s: theorem re-established for the regenerated skeletons' % t, good,
                                       '' if good else 'see gen_flow_checks'))
        if good:
            self.prog_sx = prog_sx
        elif 'enc_ok' not in out:
            # flow_checks failed but the encoding may still be right: run the correspondence on the regenerated
            # program anyway (the oracle decides what the change breaks)
            lines2 = [l for l in lines if not l.startswith(('Lemma gen_flow_checks', 'Proof. vm_cast'))][:8]
            ok2, _ = core.coq_check_text('Enc_flow_%s' % self.pid, '\n'.join(lines2) + '\n', timeout=300)
            if ok2:
                self.prog_sx = prog_sx
        return res, good

    # ---- scenarios ------------------------------------------------------------------------------
    def gen_scenario(self, rng, nfaults=None, hooks=True):
        sc = Scenario()
        sc['showtb'] = rng.random() < .4
        sc['method'] = rng.choice(['GET', 'GET', 'HEAD', 'POST'])
        sc['stream'] = rng.random() < .3
        sc['body'] = rng.choice(['bytes', 'bytes', 'list', 'none', 'str', 'int'])
        sc['chunks'] = rng.choice([0, 1, 3])
        sc['midstream'] = None
        if sc['stream'] and rng.random() < .4:
            sc['midstream'] = [rng.randrange(0, sc['chunks'] + 1),
                               rng.choice(['Exception', 'HTTPError', 'HTTPRedirect', 'InternalRedirect', 'KeyboardInterrupt'])]
        sc['abandon'] = rng.choice([None, None, None, 0, 1]) if sc['stream'] else None
        sc['extra_close'] = rng.choice([0, 0, 1, 2])
        sc['http5'] = rng.random() < .3
        sc['redirect_to'] = rng.choice(['/', '/other', 'cycleqs'])
        sc['error_page_fails'] = rng.random() < .08
        sc['surrogate'] = rng.random() < .1
        faults = []
        if nfaults is None:
            nfaults = rng.choice([0, 1, 1, 1, 2, 2, 3])
        for _ in range(nfaults):
            a = rng.choice(INJECTABLE)
            kinds = ['Exception', 'HTTPError', 'HTTPRedirect', 'InternalRedirect', 'KeyboardInterrupt', 'SystemExit']
            if a in ('StartResponse', 'StartResponseExc'):
                kinds = ['FromServer']
            occ = rng.choice([0, 0, 0, 1])
            if not any(f[0] == a and f[1] == occ for f in faults):
                faults.append([a, occ, rng.choice(kinds)])
        sc['faults'] = faults
        hk = {}
        if hooks:
            for p in HOOKPOINTS:
                if rng.random() < .35:
                    lst = []
                    for i in range(rng.randrange(1, 5)):
                        beh = rng.choice([None, None, None, 'Exception', 'HTTPError', 'HTTPRedirect', 'InternalRedirect'])
                        if rng.random() < .03:
                            beh = rng.choice(['KeyboardInterrupt', 'SystemExit'])
                        lst.append([len(hk) * 10 + i + 1, rng.choice([0, 10, 50, 50, 70, 100]), rng.random() < .4, beh])
                    hk[p] = lst
        sc['hooks'] = hk
        return sc

    # ---- model side -----------------------------------------------------------------------------
    def observe(self, sc):
        # the observation is cached ON the scenario object (never by id(): ids are recycled)
        if not isinstance(sc, Scenario):
            return self.h.run(sc)
        if getattr(sc, '_obs', None) is None:
            sc._obs = self.h.run(sc)
        return sc._obs

    def encode(self, sc):
        obs = self.observe(sc)
        A, F = self.acode, self.fcode
        rules = [[A[a], k, EXN[kind]] for a, k, kind in sc['faults']]
        # the body iterator: its length and mid-stream failure are inputs of the scenario
        n_next = obs['nexts']
        ms = sc['midstream']
        if obs['mid_at'] is not None:
            # the handler's generator raised at this next() call (observed: whether the generator is the body
            # that gets iterated depends on the whole run)
            rules.append([A['NextChunk'], obs['mid_at'], EXN[ms[1]]])
        # after the last chunk the iterator is exhausted; an abandoning server stops asking
        rules.append([A['NextChunk'], n_next, EXN['StopIteration']])
        if sc['abandon'] is not None:
            rules.append([A['ServerNext'], sc['abandon'], EXN['StopIteration']])
        rules.append([A['ServerCloseAgain'], sc['extra_close'], EXN['StopIteration']])
        for a, k, kind in obs['env_rules']:
            rules.append([A[a], k, EXN[kind]])
        # what the page handler returns: a str is refused by the ResponseBody descriptor (the assignment
        # `response.body = self.handler()` fails); a non-iterable makes the following finalize() fail
        if not sc['stream'] and sc['body'] == 'str':
            for k in range(8):
                rules.append([A['Handler'], k, EXN['Exception']])
        if not sc['stream'] and sc['body'] == 'int':
            for k in self.finalize_after_handler(obs):
                rules.append([A['Finalize'], k, EXN['Exception']])
        trues = ['FHandlerSet', 'FStatusIsBytes', 'FHeaderKeyIsBytes', 'FHeaderValIsBytes']
        if sc['method'] == 'POST':
            trues.append('FProcessBody')
        if sc['method'] == 'HEAD':
            trues.append('FMethodHead')
        if sc['http5']:
            trues.append('FHTTPError5xx')
        hooks = []
        for p, lst in sc['hooks'].items():
            hooks.append([self.acode['RunHooks ' + POINT_COQ[p]] - self.acode['RunHooks OnStartResource'],
                          [[hid, prio, failsafe, EXN.get(beh, 0)] for hid, prio, failsafe, beh in lst]])
        # `new_uri in redirections`: the session starts at '/', every redirect goes to sc['redirect_to']
        vfrom = 1 if sc['redirect_to'] == '/' else 2
        return [sc['showtb'], rules, [F[f] for f in trues], hooks, vfrom, obs['streaming_closes'],
                getattr(self, 'prog_sx', [])]

    def finalize_after_handler(self, obs):
        """occurrence numbers of the finalize() calls that see the page handler's own (non-iterable) return
        value: the first finalize of a request after its handler returned, unless an error/redirect page
        replaced the body in between"""
        out, nfin, pending = [], 0, {}
        for e in obs['journal']:
            a, r = e[0], e[1]
            if a == 'Handler':
                pending[r] = True
            elif a in ('SetResponseOfExc', 'ErrorResponse'):
                pending[r] = False
            elif a == 'Finalize':
                if pending.get(r):
                    out.append(nfin)
                    pending[r] = False
                nfin += 1
        return out

    def impl(self, sc):
        return self.observe(sc)

    # ---- comparison -------------------------------------------------------------------------------
    def project_model(self, mo):
        inv = {v: k for k, v in self.acode.items()}
        keep = set(OBSERVED)
        out = []
        for e in mo[1]:
            name = inv[e[1]]
            if name in keep:
                out.append([name] + ([e[2]] if name.startswith('RunHooks') else []))
        return out

    def project_impl(self, obs):
        out = []
        for e in obs['journal']:
            out.append([e[0]] + ([e[2]] if e[0].startswith('RunHooks') else []))
        return out

    def compare(self, sc, mo, obs):
        if isinstance(mo, str):
            return 'model failed: ' + mo
        if mo[0] == -2:
            return 'model ran out of fuel'
        mj, ij = self.project_model(mo), self.project_impl(obs)
        if mj != ij:
            k = next((i for i, (a, b) in enumerate(zip(mj, ij)) if a != b), min(len(mj), len(ij)))
            return 'journals differ at step %d: model %r impl %r' % (k, mj[k:k + 3], ij[k:k + 3])
        m_sr = [bool(x) for x in mo[4]]
        if m_sr != obs['start_calls']:
            return 'start_response calls: model %r impl %r' % (m_sr, obs['start_calls'])
        m_status = mo[2]
        i_status = (obs['status'] // 100) if obs['status'] else 0
        if m_status != i_status:
            return 'status class: model %r impl %r' % (m_status, obs['status'])
        m_esc = EXN_R.get(mo[0])
        i_esc = obs['escaped'][1] if obs['escaped'] else None
        i_esc = {'ServerError': 'FromServer', 'Injected': 'Exception'}.get(i_esc, i_esc)
        if m_esc != i_esc:
            return 'escaping exception: model %r impl %r' % (m_esc, obs['escaped'])
        if obs['body_len'] > 0 and obs['status'] and bool(mo[3]) != obs['taint'] and not sc.get('error_page_fails'):
            return 'traceback/exception text in the body: model %r impl %r' % (bool(mo[3]), obs['taint'])
        return None

    def shrink(self, sc, still_fails):
        sc = Scenario(sc)
        for key, val in (('extra_close', 0), ('abandon', None), ('midstream', None), ('error_page_fails', False)):
            if sc[key] != val:
                t = Scenario(sc)
                t[key] = val
                if still_fails(t):
                    sc = t
        sc['faults'] = core.shrink_list(sc['faults'], lambda f: still_fails(Scenario(sc, faults=f)))
        for p in list(sc['hooks']):
            t = Scenario(sc, hooks={k: v for k, v in sc['hooks'].items() if k != p})
            if still_fails(t):
                sc = t
        for p in list(sc['hooks']):
            lst = core.shrink_list(sc['hooks'][p], lambda l: still_fails(Scenario(sc, hooks=dict(sc['hooks'], **{p: l}))))
            sc['hooks'][p] = lst
        return sc
