"""C09 - hooks run in priority order, failsafe hooks always run, end hooks run once."""
from .. import core
from . import flowcommon as fc

BASE = {'Exception', 'HTTPError', 'HTTPRedirect', 'InternalRedirect'}


def reference_point(hooks):
    """what the property text says must run at one point, and whether the point raises.
    hooks: [[id, prio, failsafe, beh]] in attachment order"""
    order = sorted(range(len(hooks)), key=lambda i: (hooks[i][1], i))      # ascending priority, ties in attachment order
    ran, failed = [], False
    for i in order:
        hid, prio, failsafe, beh = hooks[i]
        if failed and not failsafe:
            continue
        ran.append(hid)
        if beh in ('KeyboardInterrupt', 'SystemExit'):
            return ran, True                                              # outside the property's quantifier: aborts
        if beh:
            failed = True
    return ran, failed


class C09(fc.FlowCheck):
    pid = 'C09'
    props_files = ('Props/C09.v',)
    rule = ('server sessions (call, iteration, close xN) against the real pipeline with probe hooks at the 8 hook points '
            '(0..4 hooks each, priorities with ties, failsafe or not, each ok | raising Exception/HTTPError/HTTPRedirect/'
            'InternalRedirect) crossed with faults injected at 12 call sites, handler shapes, streaming completed/raising/'
            'abandoned; non-trivial = at least one hook ran and (a fault or a failing hook occurred); distinct by '
            '(points with hooks, fault sites, outcome kinds)')
    assumptions = ('the WSGI server calls close() at least once on the returned iterable',
                   'a hook raising KeyboardInterrupt/SystemExit is outside the quantifier of the failsafe clause')

    def cases(self):
        n = 2500 if self.tier == 'quick' else 40000
        out = [self.gen_scenario(self.rng) for _ in range(n)]
        if self.tier == 'thorough':
            out += list(self.single_point_enumeration())
        return out

    def single_point_enumeration(self):
        """all hook lists of <= 3 hooks over 2 priorities x failsafe x {ok, Exception, HTTPError} at one point"""
        import itertools
        opts = [(p, f, b) for p in (10, 50) for f in (False, True) for b in (None, 'Exception', 'HTTPError')]
        for point in ('before_handler', 'on_end_resource', 'on_end_request', 'before_finalize'):
            for n in (1, 2, 3):
                for combo in itertools.product(opts, repeat=n):
                    sc = self.gen_scenario(self.rng, nfaults=0, hooks=False)
                    sc.update(stream=False, midstream=None, abandon=None, extra_close=0, error_page_fails=False,
                              method='GET', body='bytes')
                    sc['hooks'] = {point: [[i + 1, p, f, b] for i, (p, f, b) in enumerate(combo)]}
                    yield sc

    def extra(self):
        """the application may switch the default error response off (`request.error_response = None`, which
        handle_error supports): that must not change which hook points are visited, nor their order - the journal of
        a failing request under that setting is compared with the journal under the default.  Oracle only (the model
        keeps error_response set, as C01's hypothesis demands)."""
        import cherrypy
        from ..impl import wsgi
        points = ['on_start_resource', 'before_request_body', 'before_handler', 'before_finalize', 'on_end_resource',
                  'on_end_request', 'before_error_response', 'after_error_response']
        out = []
        journals = {}
        for setting in ('default', 'none'):
            journal = []

            class Root:
                @cherrypy.expose
                def boom(self):
                    raise ValueError('unexpected')

                @cherrypy.expose
                def fine(self):
                    return b'ok'
            conf = {'request.show_tracebacks': False}
            for pt in points:
                for tag, failsafe in (('a', False), ('b', True)):
                    def cb(pt=pt, tag=tag):
                        journal.append([pt, tag])
                    cb.failsafe = failsafe
                    conf['hooks.%s.%s' % (pt, tag)] = cb
            if setting == 'none':
                conf['request.error_response'] = None
            app = wsgi.make_app(Root(), {'/': conf})
            try:
                for path in ('/boom', '/fine'):
                    journal.append(['request', path])
                    wsgi.call(app, 'GET', path)
            finally:
                import logging
                try:
                    cherrypy.engine.unsubscribe('graceful', app.log.reopen_files)
                except Exception:
                    pass
                for lg in (app.log.error_log, app.log.access_log):
                    logging.Logger.manager.loggerDict.pop(lg.name, None)
            journals[setting] = journal
        self.count('extra: hook journal with request.error_response = None')
        if journals['none'] != journals['default']:
            missing = [e for e in journals['default'] if e not in journals['none']]
            out.append(core.Violation(
                'hook-points:error_response-off',
                'with request.error_response = None the hook journal of a failing request differs from the one under '
                'the default error response; entries missing: %r' % (missing[:6],),
                case={'k': 'error_response-none'}, observed=journals))
        return out + list(super().extra() or [])

    def search_cases(self, around=None):
        for c in around or []:
            yield c
        for _ in range(6000):
            yield self.gen_scenario(self.rng)

    def oracle(self, sc, obs):
        fails = []
        # clause 1 + 2: per hook point execution
        for e in obs['journal']:
            if not e[0].startswith('RunHooks'):
                continue
            point = {v: k for k, v in fc.POINT_COQ.items()}[e[0].split()[1]]
            exp, _ = reference_point(sc['hooks'].get(point, []))
            if e[2] != exp:
                fails.append(('hook-order:%s' % point,
                              'hooks run at %s: %r, the property demands %r (attached %r)'
                              % (point, e[2], exp, sc['hooks'].get(point))))
        # clause 3: end hooks exactly once per request object
        base_abort = any(k in ('KeyboardInterrupt', 'SystemExit') for _, _, k in sc['faults']) or \
            any(h[3] in ('KeyboardInterrupt', 'SystemExit') for l in sc['hooks'].values() for h in l) or \
            (sc['midstream'] and sc['midstream'][1] in ('KeyboardInterrupt', 'SystemExit'))
        for r in range(1, obs['requests'] + 1):
            n_res = sum(1 for e in obs['journal'] if e[0] == 'RunHooks OnEndResource' and e[1] == r)
            n_req = sum(1 for e in obs['journal'] if e[0] == 'RunHooks OnEndRequest' and e[1] == r)
            entered = any(e[0] == 'ProcessHeaders' and e[1] == r for e in obs['journal'])
            if entered and n_res != 1:
                fails.append(('on_end_resource:%d-times' % n_res,
                              'on_end_resource ran %d times for request %d' % (n_res, r)))
            if n_req > 1 or (n_req == 0 and not base_abort and obs['escaped'] is None):
                fails.append(('on_end_request:%d-times' % n_req,
                              'on_end_request ran %d times for request %d' % (n_req, r)))
        # documented order within one request
        order = ['OnStartResource', 'BeforeRequestBody', 'BeforeHandler', 'BeforeFinalize', 'OnEndResource',
                 'BeforeErrorResponse', 'AfterErrorResponse', 'OnEndRequest']
        for r in range(1, obs['requests'] + 1):
            seq = [e[0].split()[1] for e in obs['journal'] if e[0].startswith('RunHooks') and e[1] == r]
            main = [p for p in seq if p in order[:5]]
            idx = [order.index(p) for p in main]
            # before_finalize may repeat (HTTPError path); otherwise non-decreasing
            if any(b < a for a, b in zip(idx, idx[1:])):
                fails.append(('hook-point-order', 'hook points visited out of the documented order: %r' % seq))
            if 'OnEndRequest' in seq and seq.index('OnEndRequest') != len(seq) - 1:
                fails.append(('hook-point-order', 'on_end_request is not the last hook point: %r' % seq))
        return fails

    def nontrivial(self, sc, obs):
        ran = [e for e in obs['journal'] if e[0].startswith('RunHooks') and e[2]]
        failing = bool(sc['faults']) or any(h[3] for l in sc['hooks'].values() for h in l) or sc['midstream']
        if not ran or not failing:
            return None
        return (tuple(sorted(sc['hooks'])), tuple(sorted(f[0] for f in sc['faults'])), obs['status'],
                bool(obs['escaped']), sc['stream'], sc['abandon'])


CHECK = C09
