"""C01 - every request yields exactly one well-formed response; errors are contained."""
from .. import core
from . import flowcommon as fc


class C01(fc.FlowCheck):
    pid = 'C01'
    props_files = ('Props/C01.v',)
    refuted_files = ('Refuted/R_C01.v',)
    rule = ('server sessions against the real pipeline: handler shapes (bytes/list/None/str/int/generator, raising '
            'HTTPError/HTTPRedirect/InternalRedirect incl. a loop/arbitrary Exception, raising mid-stream) x a failing '
            'callback at each of the 8 hook points / error page callable / 12 framework call sites (dispatcher, namespace '
            'handler, header/query/body processing, finalize, set_response, error_response, access log, start_response) x '
            'show_tracebacks on/off x GET/HEAD/POST; non-trivial = some failure was injected and reached; distinct by '
            '(fault sites and kinds, failing hook points, handler shape, method, stream, showtb)')
    assumptions = ('throw_errors is off; request.error_response keeps a callable (default HTTPError(500).set_response)',
                   'engine listeners (acquire_thread/before_request/after_request) do not raise',
                   'a callback raising StopIteration is treated as raising an arbitrary Exception')

    def cases(self):
        n = 2500 if self.tier == 'quick' else 40000
        out = []
        for _ in range(n):
            sc = self.gen_scenario(self.rng)
            out.append(sc)
        out += list(self.single_fault_enumeration())
        return out

    def single_fault_enumeration(self):
        """every injectable site x exception kind x showtb, one fault each (the fault space of the property)"""
        kinds = ['Exception', 'HTTPError', 'HTTPRedirect', 'InternalRedirect', 'KeyboardInterrupt', 'SystemExit']
        for a in fc.INJECTABLE:
            for k in (['FromServer'] if a.startswith('StartResponse') else kinds):
                for showtb in (False, True):
                    for method in ('GET', 'HEAD') if self.tier == 'quick' else ('GET', 'HEAD', 'POST'):
                        if a == 'BodyProcess' and method != 'POST':
                            method = 'POST'
                        sc = self.gen_scenario(self.rng, nfaults=0, hooks=False)
                        sc.update(showtb=showtb, method=method, stream=False, midstream=None, abandon=None,
                                  extra_close=0, error_page_fails=False, body='bytes', faults=[[a, 0, k]])
                        yield sc
        for point in fc.HOOKPOINTS:
            for k in kinds[:4]:
                for showtb in (False, True):
                    sc = self.gen_scenario(self.rng, nfaults=0, hooks=False)
                    sc.update(showtb=showtb, method='GET', stream=False, midstream=None, abandon=None,
                              extra_close=0, error_page_fails=False, body='bytes',
                              hooks={point: [[1, 50, False, k]]})
                    yield sc

    def search_cases(self, around=None):
        for c in around or []:
            yield c
        for _ in range(6000):
            yield self.gen_scenario(self.rng)

    def oracle(self, sc, obs):
        fails = []
        esc = obs['escaped']
        if esc and esc[1] not in ('KeyboardInterrupt', 'SystemExit', 'ServerError'):
            fails.append(('escape:%s:%s' % (esc[0], esc[1]), 'exception %s escaped to the server from %s' % (esc[1], esc[0])))
        for p in obs['problems']:
            fails.append(('malformed:%s' % p.split()[0], p))
        plain = [x for x in obs['start_calls'] if not x]
        if len(plain) > 1:
            fails.append(('start_response-twice', 'start_response called %d times without exc_info' % len(plain)))
        if obs['requests'] > fc.HOP_LIMIT:
            fails.append(('redirect-loop-unbounded', 'a cycle of internal redirects was not cut: %d requests were '
                          'created in one session' % obs['requests']))
        if not esc and not obs['start_calls']:
            fails.append(('no-response', 'start_response was never called'))
        if obs['status'] is not None and not (100 <= obs['status'] <= 599):
            fails.append(('illegal-status', 'status %r' % obs['status']))
        # unexpected failure => 5xx.  A hook point counts with the exception it propagates (run_hooks lets the
        # LAST exception of the failsafe run win: an HTTPError raised by a later failsafe hook on purpose
        # supersedes the earlier failure - designed behaviour, not demanded otherwise here).
        unexpected = [r for r in obs['raised'] if r[1] == 'Exception' and r[0] not in ('LogAccess',)]
        hook_unexp = any(k == 'Exception' and p != 'OnEndRequest' and r == obs['requests']
                         for p, r, k in obs['hook_raised'])
        redirected = any(e[0] == 'SetResponseOfExc' for e in obs['journal']) and obs['status'] and 300 <= obs['status'] < 400
        last_req = obs['requests']
        unexpected_last = any(self._site_req(obs, r[0]) == last_req for r in unexpected) or hook_unexp
        # the handler's own unusable return value is an unexpected failure only where it is actually used: a str at the
        # body assignment (unless an injected fault pre-empted the handler), a non-iterable at the finalize() that
        # follows the handler (unless an injected fault pre-empted that finalize and an error page replaced the body)
        bad_body = not sc['stream'] and self._handler_ran_in(obs, last_req) and (
            (sc['body'] == 'str' and not any(f[0] == 'Handler' for f in sc['faults'])) or
            (sc['body'] == 'int' and any(not any(f[0] == 'Finalize' and f[1] == k for f in sc['faults'])
                                         for k in self.finalize_after_handler(obs)
                                         if self._finalize_req(obs, k) == last_req)))
        if (unexpected_last or bad_body) \
                and not esc and obs['status'] and obs['status'] < 500 and not redirected and obs['requests'] <= 1:
            fails.append(('unexpected-not-5xx', 'an unexpected failure was answered with %r' % obs['status']))
        # no leak
        if not sc['showtb'] and obs['taint'] and obs['status'] and obs['status'] >= 500:
            # where did the trapper run?
            j = [e[0] for e in obs['journal']]
            if 'BareErrorTrap' in j and 'ClearServing' in j and j.index('ClearServing') < len(j) - 1 - j[::-1].index('BareErrorTrap'):
                fails.append(('leak:trap-outside-request', 'traceback shown although show_tracebacks is off: the '
                              'trapper handled a failure after the request was released'))
            elif sc.get('error_page_fails'):
                fails.append(('leak:error-page-failure-text', 'the failing error page callable\'s exception text is in the body'))
            elif any(h[3] == 'HTTPError' for l in sc['hooks'].values() for h in l) or \
                    any(f[2] == 'HTTPError' for f in sc['faults']):
                pass   # the message of an HTTPError raised on purpose is meant for the client
            else:
                fails.append(('leak:other', 'traceback/exception text in the body although show_tracebacks is off'))
        return fails

    def extra(self):
        """the first requests of an application arrive on two threads at once (the WSGI pipeline is assembled lazily
        by the first call): whichever thread assembles it, every request must go through the whole pipeline -
        an InternalRedirect, a failing handler must be answered, never escape"""
        import threading
        import cherrypy
        from ..impl import wsgi
        out = []
        for second in ('/ir', '/boom', '/ok'):
            started, release = threading.Event(), threading.Event()
            built = []

            class Slow(object):
                def __init__(self, nextapp, **kw):
                    self.nextapp = nextapp
                    built.append(1)
                    if len(built) == 1:          # only the very first construction is slow
                        started.set()
                        release.wait(120)

                def __call__(self, environ, start_response):
                    return self.nextapp(environ, start_response)

            class Root(object):
                @cherrypy.expose
                def index(self):
                    return b'index'

                @cherrypy.expose
                def ok(self):
                    return b'ok'

                @cherrypy.expose
                def ir(self):
                    raise cherrypy.InternalRedirect('/ok')

                @cherrypy.expose
                def boom(self):
                    raise ValueError('boom')
            app = wsgi.make_app(Root(), {'/': {'wsgi.pipeline': [('slow', Slow)], 'request.show_tracebacks': False}})
            res = {}
            t1 = threading.Thread(target=lambda: res.__setitem__('first', wsgi.call(app, 'GET', '/')), daemon=True)
            t1.start()
            started.wait(120)
            t2 = threading.Thread(target=lambda: res.__setitem__('second', wsgi.call(app, 'GET', second)), daemon=True)
            t2.start()
            t2.join(120)
            release.set()
            t1.join(120)
            self.count('concurrent first requests (lazy pipeline assembly)')
            want = {'/ir': 200, '/boom': 500, '/ok': 200}[second]
            for who, w in (('first', 200), ('second', want)):
                r = res.get(who)
                if r is None or r['escaped'] or r['status'] != w or r['problems']:
                    out.append(core.Violation(
                        'pipeline-assembly-race', 'two first requests overlapped (GET / and GET %s): the %s one gave %s'
                        % (second, who, None if r is None else {'status': r['status'], 'escaped': r['escaped'],
                                                                 'problems': r['problems']}),
                        case={'k': 'first-requests-overlap', 'second': second},
                        observed={k: (None if v is None else {'status': v['status'], 'escaped': v['escaped']})
                                  for k, v in res.items()}))
                    break
            if out:
                break
        return out + self.config_only_show_tracebacks()

    def config_only_show_tracebacks(self):
        """show_tracebacks switched off in the application's config only (not on the request object, as the generated
        scenarios do), in a section one of whose other entries makes its namespace handler fail at request time
        (`error_page.4xx`: int('4xx') raises): the `request` namespace is registered, and applied, before `error_page`,
        `tools` and user namespaces, so the 500 must already be the terse one.  Oracle only."""
        import cherrypy
        from ..impl import wsgi
        out = []

        class Root:
            @cherrypy.expose
            def index(self):
                return b'ok'

        def failing(k, v):
            raise RuntimeError('namespace handler fails: secret=%s' % v)
        for conf in ({'request.show_tracebacks': False, 'error_page.4xx': 'custom-page'},
                     {'request.show_tracebacks': False, 'audit.level': 'hunter2'}):
            app = wsgi.make_app(Root(), {'/': conf})
            if 'audit.level' in conf:
                class Req(app.request_class):
                    namespaces = app.request_class.namespaces.copy()
                Req.namespaces['audit'] = failing
                app.request_class = Req
            try:
                r = wsgi.call(app, 'GET', '/')
            finally:
                import logging
                try:
                    cherrypy.engine.unsubscribe('graceful', app.log.reopen_files)
                except Exception:
                    pass
                for lg in (app.log.error_log, app.log.access_log):
                    logging.Logger.manager.loggerDict.pop(lg.name, None)
            self.count('extra: show_tracebacks off in config only, failing namespace handler')
            text = r['body'].decode('latin-1')
            leaks = [w for w in ('Traceback (most recent call last)', 'ValueError', 'RuntimeError', 'hunter2', 'File "')
                     if w in text]
            if r['escaped'] or r['status'] != 500 or leaks:
                out.append(core.Violation(
                    'leak:config-only-show_tracebacks',
                    'section %r: a namespace handler fails while the config is applied; answered %s%s, the page contains '
                    '%r although request.show_tracebacks is off in the same section'
                    % (sorted(conf), r['status'], ' (escaped %s)' % r['escaped'] if r['escaped'] else '', leaks),
                    case={'k': 'config-only-show-tracebacks', 'conf': sorted(conf)},
                    observed={'status': r['status'], 'leaks': leaks, 'body': text[:300]}))
                break
        return out

    def _hook_ran(self, obs, hid):
        return any(e[0].startswith('RunHooks') and hid in e[2] for e in obs['journal'])

    def _site_req(self, obs, action):
        for e in obs['journal']:
            if e[0] == action:
                return e[1]
        return 0

    def _finalize_req(self, obs, k):
        n = 0
        for e in obs['journal']:
            if e[0] == 'Finalize':
                if n == k:
                    return e[1]
                n += 1
        return 0

    def _handler_ran_in(self, obs, r):
        return any(e[0] == 'Handler' and e[1] == r for e in obs['journal'])

    def nontrivial(self, sc, obs):
        failing = bool(obs['raised']) or any(h[3] for l in sc['hooks'].values() for h in l) or sc['midstream'] \
            or sc['body'] in ('str', 'int')
        if not failing:
            return None
        return (tuple(sorted((f[0], f[2]) for f in sc['faults'])),
                tuple(sorted(p for p, l in sc['hooks'].items() if any(h[3] for h in l))),
                sc['body'], sc['method'], sc['stream'], sc['showtb'])


CHECK = C01
