"""C06 - response framing is self-consistent for every handler and tool mix.

One CherryPy application, one handler; the per-request configuration (tools, response.stream, error page)
is swapped into app.config before every call, so the whole lattice

    handler body shape x status action x subset of tools x method history x request headers x error page

runs through a single Application object.  Every request is observed at the WSGI boundary
(vcheck.impl.wsgi): status, Content-Length header(s), Content-Type, summed chunk lengths.

The model (coq/Model/M_framing.v) receives, per request, the *descriptors* of the handler and of every
enabled tool - what each does to body and Content-Length (Keep / Regroup / RewriteDrop f / RewriteSetExact f /
SetCL by the handler ...) and whether it raises - computed here by a small reference of the tools'
decisions (negotiation, validators, range arithmetic are C15/C16/C17's business; the bytes of gzip, codecs
and pages are opaque functions given by their graphs).  The model owns everything the property is about:
hook order, Request.respond/handle_error/run's exception flow, set_response/_be_ie_unfriendly,
finalize, the HEAD rule, what the cache stores and restores; it predicts (status, Content-Length, bytes).
"""
import ast
import hashlib
import html
import io
import json
import os
import zlib
from xml.sax import saxutils

from .. import core, sx
from ..impl import wsgi

WORKDIR = os.path.join(core.WORK, 'C06')
BOUNDARY = 'BOUNDARYc06c06c06'
MTIME = 1200000000
PAY = b'hello, framing world'                       # 20 bytes
CHUNKS = [b'ab', b'', b'cde', b'f' * 7]
TEXT = 'h\xe9llo € w\xf6rld'
TEXTS = ['h\xe9llo ', '€', ' w\xf6rld']
JSONV = {'a': [1, 'h\xe9'], 'b': None}
FILEDATA = b'0123456789 static text file\n' * 3          # 84 bytes

SHAPES = ['bytes', 'empty', 'list', 'gen', 'nested', 'file', 'none', 'text', 'textgen', 'json',
          'servefile', 'staticfile', 'staticdir']
STATIC = ('servefile', 'staticfile', 'staticdir')
ACTS = ['ok', 'st201', 'st204', 'st205', 'st304', 'st101', 'redir301', 'redir302', 'redir303', 'redir307',
        'redir304', 'err400', 'err402', 'err403', 'err404', 'err410', 'err416', 'err500', 'err503', 'exc']
TOOLS = ['json_out', 'encode', 'caching', 'expires', 'flatten', 'etags', 'gzip', 'stream']
PAGES = ['short', 'mid', 'long', 'gen', 'junk', 'tpl', 'empty']
TOOL_ID = {'json_out': 0, 'staticfile': 1, 'staticdir': 2, 'encode': 3, 'caching': 4, 'expires': 5, 'flatten': 6,
           'etags': 7, 'gzip': 8, 'tee': 9}
# (hook point, priority): the reference needs the order to know what a tool sees; the MODEL has its own table,
# tied to cherrypy/_cptools.py by tie_tool_points
ORDER = {'json_out': (0, 30), 'staticfile': (0, 50), 'staticdir': (0, 50), 'encode': (0, 70), 'caching': (0, 90),
         'expires': (2, 50), 'flatten': (2, 50), 'etags': (2, 75), 'gzip': (2, 80), 'tee': (2, 100)}
METH = {'GET': 0, 'HEAD': 1, 'POST': 2}
IE = {400: 512, 403: 256, 404: 512, 405: 256, 406: 512, 408: 512, 409: 512, 410: 256, 500: 512, 501: 512, 505: 512}
REDIR_MSG = {300: 'This resource can be found at ', 301: 'This resource has permanently moved to ',
             302: 'This resource resides temporarily at ', 303: 'This resource can be found at ',
             307: 'This resource has moved temporarily to ', 308: 'This resource has been moved to '}
NOBODY = (204, 205, 304)

CUR = {}
_gz = {}


def gz_ref(data):
    """reference length-and-bytes of encoding.compress(body, 5): 10 header bytes, raw deflate, CRC32, ISIZE"""
    o = _gz.get(data)
    if o is None:
        z = zlib.compressobj(5, zlib.DEFLATED, -zlib.MAX_WBITS, zlib.DEF_MEM_LEVEL, 0)
        o = b'\x1f\x8b\x08\x00\x00\x00\x00\x00\x00\xff' + z.compress(data) + z.flush() + b'\0' * 8
        if len(_gz) > 5000:
            _gz.clear()
        _gz[data] = o
    return o


def page_chunks(kind):
    """what the configured error_page.default callable returns, as (chunks, bad)"""
    if kind == 'short':
        return [b'E' * 5], 0
    if kind == 'mid':
        return [b'E' * 300], 0
    if kind == 'long':
        return [b'E' * 700], 0
    if kind == 'gen':
        return [b'E\xc3\xa9', b'page'], 0          # a generator of str: 'E\xe9', 'page' (UTF8StreamEncoder)
    if kind == 'junk':
        return [], 2                                # a generator yielding an int: cannot be joined
    if kind == 'empty':
        return [], 0
    raise KeyError(kind)


def error_page_fn(kind):
    def page(**kwargs):
        if kind == 'gen':
            return (x for x in ['E\xe9', 'page'])
        if kind == 'junk':
            return (x for x in [5])
        return b''.join(page_chunks(kind)[0])
    return page


PAGE_FNS = {k: error_page_fn(k) for k in PAGES if k != 'tpl'}


def ranges_ref(h, n):
    """httputil.get_ranges restricted to the Range values this check sends"""
    if h is None:
        return None
    out = []
    for spec in h.split('=', 1)[1].split(','):
        a, _, b = spec.partition('-')
        if a:
            start = int(a)
            stop = int(b) if b else n - 1
            if start >= n:
                continue
            out.append((start, min(stop + 1, n)))
        else:
            suf = min(int(b), n)
            if suf == 0:
                continue
            out.append((n - suf, n))
    return out


class Plan:
    """Reference of the tools' decisions for one request of a case; emits the descriptors for the model."""

    def __init__(self, chk, case, req):
        self.chk, self.c, self.req = chk, case, req
        self.m = req['m']
        self.h = req.get('hdr', {})
        t = case['tools']
        self.on = {k: (k in t) for k in TOOLS}
        self.stream = self.on['stream']
        self.page = case['page']
        # reference state: what a tool can see when it runs
        self.status = 200
        self.ct = 'text/html'
        self.body = []            # byte chunks, as they would be if the body were drained now
        self.bad = 0
        self.truthy = False       # bool(response.body)
        self.ind = set()          # headers tools.expires looks for
        self.etag = None
        self.pages = {}           # status -> (chunks, bad)
        self.gz_inputs = []

    # ----- pages -----
    def tpl(self, code, message):
        import cherrypy
        from cherrypy import _cperror
        import http.client
        reason = http.client.responses.get(code, '')
        kw = {'status': '%s %s' % (code, reason), 'message': message, 'traceback': '', 'version': cherrypy.__version__}
        kw = {k: html.escape(v, quote=False) for k, v in kw.items()}
        return (_cperror._HTTPErrorTemplate % kw).encode('utf-8')

    def error_page(self, code, message):
        """the page set_response will install for this status (recorded for the model)"""
        if self.page == 'tpl':
            pg = ([self.tpl(code, message)], 0)
        else:
            pg = page_chunks(self.page)
        self.pages[code] = pg
        return pg

    def redirect_page(self, code):
        url = 'http://localhost:8080/target'
        msg = (REDIR_MSG[code] + '<a href=%s>%s</a>.') % (saxutils.quoteattr(url), html.escape(url, quote=False))
        pg = ([msg.encode('utf-8')], 0)
        self.pages[code] = pg
        return pg

    def default_message(self, code):
        from cherrypy.lib import httputil
        return httputil.response_codes[code][1]

    # ----- what the state looks like after an exit was handled by set_response -----
    def after_exit(self, ex):
        kind, code = ex
        self.status = code
        if kind == 'err':
            pg, bad = self.pages[code]
            body = list(pg)
            s = IE.get(code, 0)
            if s and not bad:
                content = b''.join(body)
                if content and len(content) < s + 1:
                    content += b' ' * (s + 1 - len(content))
                body = [content] if content else []
                self.truthy = bool(content)
            else:
                self.truthy = True if self.page in ('gen', 'junk') else bool(b''.join(body))
            self.body, self.bad = body, bad
            if self.page == 'tpl':
                self.ct = 'text/html;charset=utf-8'
            self.ind &= {'age'}
            self.etag = None
        elif code in REDIR_MSG:
            self.body, self.bad = list(self.pages[code][0]), 0
            self.truthy = True
            self.ct = 'text/html;charset=utf-8'
        else:
            self.body, self.bad, self.truthy = [], 0, False
            self.ct = ''
            self.ind -= {'expires', 'lastmod'}

    # ----- static -----
    def serve_file(self, as_tool):
        """(txs, exit) of static.serve_file on the work file"""
        data = self.c['filedata']
        n = len(data)
        self.ind.add('lastmod')
        if self.h.get('ims') == 'match' and (200 <= self.status <= 299 or self.status == 304):
            if self.m in ('GET', 'HEAD'):
                return [], ('redir', 304)
            self.error_page(412, self.default_message(412))
            return [], ('err', 412)
        self.ct = 'text/plain'
        r = ranges_ref(self.h.get('range'), n)
        if r == []:
            self.error_page(416, 'Invalid Range (first-byte-pos greater than Content-Length)')
            return [], ('err', 416)
        if r:
            if len(r) == 1:
                a, b = r[0]
                out = [data[a:b]] if b > a else []
                self.status = 206
                self.body, self.truthy = out, True
                if as_tool:
                    return [[7, 206], [3, out]], None
                return [[7, 206], [15, out, [3, 0]]], None
            parts = [b'\r\n']
            for a, b in r:
                parts += [('--' + BOUNDARY).encode(), b'\r\nContent-type: text/plain',
                          ('\r\nContent-range: bytes %s-%s/%s\r\n\r\n' % (a, b - 1, n)).encode(), data[a:b], b'\r\n']
            parts += [('--' + BOUNDARY + '--').encode(), b'\r\n']
            self.status = 206
            self.ct = 'multipart/byteranges; boundary=' + BOUNDARY
            self.body, self.truthy = parts, True
            if as_tool:
                return [[7, 206], [16, parts]], None
            return [[7, 206], [2, parts, [3, 0]]], None
        out = [data] if data else []
        self.body, self.truthy = out, True           # a file object is truthy even when the file is empty
        if as_tool:
            return [[3, out]], None
        return [[15, out, [3, 0]]], None

    # ----- the page handler, wrapped by json_out and encode when they are on -----
    def handler(self):
        c = self.c
        shape, act = c['shape'], c['act']
        if shape in ('staticfile', 'staticdir'):
            shape, act = 'bytes', 'ok'               # the tool declined (POST): the plain handler answers
        txs = []
        code = None
        if act.startswith('st'):
            code = int(act[2:])
            txs.append([7, code])
            self.status = code
        # the inner handler's value: chunks (bytes) or strs, whether it is a generator, how many items it has
        bad, gen, strs, chunks = 0, False, None, None
        if shape == 'bytes':
            chunks = [PAY]
        elif shape in ('empty', 'none'):
            chunks = []
        elif shape == 'list':
            chunks = list(CHUNKS)
        elif shape == 'gen':
            chunks, gen = list(CHUNKS), True
        elif shape == 'nested':
            chunks, gen, bad = [b'n1n2', b'flat', b'n3'], True, 1
        elif shape == 'file':
            chunks, gen = [FILEDATA], True
        elif shape == 'text':
            strs = [TEXT]
        elif shape == 'textgen':
            strs, gen = list(TEXTS), True
        elif shape == 'servefile':
            t, ex = self.serve_file(False)
            txs += t
            if ex:
                return txs, ex
            chunks, gen = [x for x in self.body if x], True
        if c.get('own_cl') and chunks is not None:
            txs.append([6, sum(map(len, chunks))])
        elif c.get('own_cl') and strs is not None:
            txs.append([6, sum(len(x.encode('utf-8')) for x in strs)])
        if act.startswith('redir'):
            code = int(act[5:])
            if code in REDIR_MSG:
                self.redirect_page(code)
            return txs, ('redir', code)
        if act.startswith('err'):
            code = int(act[3:])
            self.error_page(code, 'M')
            return txs, ('err', code)
        if act == 'exc':
            return txs, ('crash', 0)
        # json_out (innermost wrapper): a generator of JSON text
        if self.on['json_out']:
            gen = True
            if shape in ('json', 'text', 'none'):
                v = JSONV if shape == 'json' else TEXT if shape == 'text' else None
                chunks, strs, bad = [json.dumps(v).encode('utf-8')], None, 0
            else:
                chunks, strs, bad = [], None, 3       # bytes are not JSON serialisable: raises when iterated
        # encode (outer wrapper): acts when the Content-Type is text/*
        if self.on['encode'] and self.ct.startswith('text/'):
            if not self.stream:
                if bad == 3:
                    return txs, ('crash', 0)          # list(self.body) runs the raising generator
                txs.append([14])                      # del response.headers['Content-Length']
                gen = False                           # the body is a list from here on
            ac = self.h.get('ac')
            cands = {None: ['utf-8'], 'utf-16': ['utf-16', 'iso-8859-1'], 'us-ascii': ['us-ascii', 'iso-8859-1'],
                     'latin-then-utf8': ['iso-8859-1', 'utf-8']}[ac]
            chosen, enc = None, None
            for cs in cands:
                try:
                    enc = [x.encode(cs) for x in (strs or [])]
                    chosen = cs
                    break
                except UnicodeError:
                    if self.stream:
                        chosen, enc, bad = cs, [], 3  # the lazy encoder raises while the body is sent
                        break
            if chosen is None:
                hdr = {'utf-16': 'utf-16', 'us-ascii': 'us-ascii', 'latin-then-utf8': 'iso-8859-1, utf-8;q=0.5'}[ac]
                self.error_page(406, 'Your client sent this Accept-Charset header: %s. We tried these charsets: %s.'
                                % (hdr, ', '.join(sorted(cands))))
                return txs, ('err', 406)
            if strs is not None:
                chunks, strs = enc, None
            self.ct = self.ct.split(';')[0] + ';charset=' + chosen
            if self.stream:
                gen = True
        if strs is not None:
            if shape == 'text':
                return txs, ('crash', 0)              # ResponseBody.__set__: handlers MUST return bytes
            chunks, bad = [], 2                       # a generator of str: cannot be joined
        txs.append([4, chunks, bad])
        self.body, self.bad = chunks, bad
        # bool(response.body): a generator is true; a list is true when it has items; b'' and None become []
        self.truthy = True if gen else (bool(chunks) if shape != 'bytes' else True)
        return txs, None

    # ----- before_finalize tools -----
    def expires(self):
        return [[10]] if self.ind else [[0]]

    def flatten(self):
        self.truthy = True
        if self.bad == 1:
            self.bad = 0
        return [[1, [1]]]

    def etags(self, second):
        """tools.etags with autotags=True"""
        if second or self.etag_done:
            return [[0]], None
        self.etag_done = True
        txs = [[0]]
        if 'etag' in self.ind:
            pass
        elif self.status == 200:
            txs = [[9]]
            if self.bad:
                return txs, None                      # the model crashes in Collapse
            joined = b''.join(self.body)
            self.etag = '"%s"' % hashlib.md5(joined).hexdigest()
            self.body = [joined] if joined else []
            self.truthy = bool(joined)
            self.ind.add('etag')
        ex = None
        if self.h.get('im'):
            ex = ('err', 412)
            msg = 'If-Match failed: ETag %r did not match %r' % (self.etag, ['"nomatch"'])
        elif self.h.get('inm'):
            if self.m in ('GET', 'HEAD'):
                ex = ('redir', 304)
            else:
                ex = ('err', 412)
                msg = 'If-None-Match failed: ETag %r matched %r' % (self.etag, ['*'])
        if ex:
            # the conditions are looked at when the status is 2xx *when the tool runs* (on a cache hit that is
            # the stored status): a conditional raise in the model
            txs = txs + [[19, self.enc_exit(ex)]]
            if 200 <= self.status <= 299:
                if ex[0] == 'err':
                    self.error_page(412, msg)
                return txs, ex
        return txs, None

    def gzip(self):
        """tools.gzip; everything it does is skipped when request.cached (UnlessCached in the model)"""
        if not self.truthy:
            return [[0]]
        ae = self.h.get('ae')
        if ae in (None, 'identity', 'gzip;q=0'):
            return [[0]]
        if ae == 'identity;q=0':
            self.error_page(406, 'identity, gzip')
            self.after_exit(('err', 406))
            return [[17, 406]]
        if self.ct.split(';')[0] not in ('text/html', 'text/plain'):
            return [[0]]
        # the opaque function, by its graph on the bodies that can be here
        cands = [self.body]
        table = []
        seen = set()
        for b in cands:
            data = b''.join(b)
            if len(data) in seen:
                continue
            seen.add(len(data))
            table.append([len(data), [gz_ref(data)]])
        if not self.bad:
            self.body = [gz_ref(b''.join(self.body))]
        self.truthy = True
        return [[11, table]]

    def run(self):
        """-> the request descriptor (method stream hooks handler pages) for the model"""
        c = self.c
        self.etag_done = False
        names = [t for t in ('json_out', 'encode', 'caching', 'expires', 'flatten', 'etags', 'gzip') if self.on[t]]
        if c['shape'] in ('staticfile', 'staticdir'):
            names.append(c['shape'])
        if self.on['caching']:
            names.append('tee')
        first = {n: ([[0]], None) for n in names}
        second = {n: [[0]] for n in names}
        order = sorted(names, key=lambda n: ORDER[n])        # stable: ties keep the attach order
        exit_ = None
        handled = False
        htx, hexit = [], None
        # ---- first pass
        for n in [x for x in order if ORDER[x][0] == 0]:
            if n == 'json_out':
                self.ct = 'application/json'
            elif n in ('staticfile', 'staticdir'):
                if self.m in ('GET', 'HEAD'):
                    t, ex = self.serve_file(True)
                    first[n] = (t or [[0]], ex)
                    handled = True
                    if ex:
                        exit_ = ex
                        break
            elif n == 'caching':
                first[n] = ([[12, None]], None)
        if exit_ is None:
            if not handled:
                htx, hexit = self.handler()
                exit_ = hexit
        passes = [False] if exit_ is None else []
        if exit_ is not None and exit_[0] != 'crash':
            self.after_exit(exit_)
            passes = [True]
        elif exit_ is not None:
            passes = []
        # ---- before_finalize: first pass; after an exit the second pass
        while passes:
            sec = passes.pop(0)
            for n in [x for x in order if ORDER[x][0] == 2]:
                ex = None
                if n == 'expires':
                    t = self.expires()
                elif n == 'flatten':
                    t = self.flatten()
                elif n == 'etags':
                    t, ex = self.etags(sec)
                elif n == 'gzip':
                    t = self.gzip()
                elif n == 'tee':
                    t = [[13]]
                if sec:
                    second[n] = t
                else:
                    first[n] = (t, None if n == 'etags' else ex)
                if ex and not sec:
                    self.after_exit(ex)
                    passes = [True]
                    break
        # hooks never reached in the first pass of a miss are reached on a cache hit (handler skipped, the
        # stored response restored): gzip does nothing then, etags/expires/flatten keep, tee is not attached
        # a hit runs validate_since on the STORED Last-Modified (response.status is still unset: 200) before it
        # restores status and body - the cached 304.  A stored variant of this case carries Last-Modified
        # exactly when this request's own flow ends with it (same handler, tools and request headers).
        if 'caching' in first and self.h.get('ims') and 'lastmod' in self.ind and self.m in ('GET', 'HEAD'):
            first['caching'] = ([[12, [2, 304]]], None)
        hooks = []
        for n in names:
            t, ex = first[n]
            hooks.append([TOOL_ID[n], t, self.enc_exit(ex), second[n], None])
        handler = [99, htx, self.enc_exit(hexit), [], None]
        pages = [[code, pg, bad] for code, (pg, bad) in sorted(self.pages.items())]
        # handle_error's page
        if 500 not in self.pages:
            if self.page == 'tpl':
                pages.append([500, [self.tpl(500, self.default_message(500))], 0])
        if self.page != 'tpl':
            pg, bad = page_chunks(self.page)
            pages.append([0, pg, bad])
        return [METH[self.m], self.stream, hooks, handler, pages]

    @staticmethod
    def enc_exit(ex):
        if ex is None:
            return None
        kind, code = ex
        return {'err': [1, code], 'redir': [2, code], 'crash': [3]}[kind]


class C06(core.Check):
    pid = 'C06'
    props_files = ('Props/C06.v',)
    refuted_files = ()
    model_fn = ('run_C06', 'Model.M_framing')
    xcheck_n = 30
    rule = ('bounded lattice: handler body shape {bytes, empty, chunk list, generator, nested generators, file object, '
            'None, text, text generator, JSON value, serve_file, tools.staticfile, tools.staticdir} x status action '
            '{200, 201, 204, 205, 304, 101 set by the handler, HTTPRedirect 301/302/303/307/304, HTTPError '
            '400/402/403/404/410/416/500/503, unexpected exception} x every subset of {json_out, encode, caching, '
            'expires, flatten, etags(autotags), gzip, response.stream} x handler-set exact Content-Length x error page '
            '{5, 300, 700 bytes, str generator, unjoinable, empty, default template} x method histories over {GET, HEAD, '
            'POST} x Accept-Encoding / Accept-Charset / Range / If-Match / If-None-Match / If-Modified-Since; quick '
            'samples the lattice, thorough also enumerates shape x action x tool subset completely. A case is '
            'non-trivial when a tool is on, the status is not a plain 200 or a page is produced; distinct by '
            '(shape, action, tools, page, methods, header classes).')
    assumptions = (
        'the bytes produced by gzip, the codecs, JSON encoding and the page templates are opaque functions (C17/C12); '
        'only their lengths enter, computed by a reference on the Python side',
        'which branch a tool takes for given request headers (negotiation, validators, range arithmetic, cache '
        'freshness) is supplied by a reference of the tools\' decisions (C15/C16/C17 model them); D compares the '
        'resulting prediction with the real tools on every case',
        'a handler that sets Content-Length itself sets the exact length of the bytes it returns (user code setting '
        'a wrong length is outside the quantifier: finalize keeps it by design)',
        'combinations whose body cannot be sent at all while streaming (nested generators without flatten, str '
        'chunks without encode, a codec failing mid-stream) are not generated: they abort the response (C01), '
        'they do not frame it',
    )

    def __init__(self, tier, seed):
        super().__init__(tier, seed)
        self.app = None
        self.serial = 0
        self.notes += [
            'interpretation: the "no body and no Content-Length" rule for 1xx/204/205/304 and the HEAD = GET rule are '
            'demanded of non-streamed responses (the clause sits in the non-streamed sentence); for a streamed response '
            'only "a Content-Length, if present, equals the bytes produced" is demanded (HEAD: zero bytes)',
            'interpretation: the corresponding GET of a HEAD is the GET of the same case sent with the same request '
            'headers (with tools.caching possibly answered from the cache)',
        ]

    # ------------------------------------------------------------------ G
    def ties(self):
        return list(self.ties_())

    def ties_(self):
        """regenerated from the CURRENT sources with ast on every run and checked by the kernel (vm_compute):
        (a) tool_effects - every top-level function/class of cherrypy/lib/*.py and _cperror.py that assigns
            response.body / self.body, and whether the same unit deletes or sets Content-Length; checked by the
            proven-sound checker forallb rewrites_body_implies_resets_length, and the rows the model relies on
            must be present unchanged;
        (b) Response.finalize: the stream branch touches neither body nor a present header, the no-body status
            set, the last branch sets len(collapse_body());
        (c) Request.run: `if self.method == 'HEAD': response.body = []` after the try block that calls respond;
        plus the hook points/priorities of the tools, _ie_friendly_error_sizes, the redirect statuses that get
        a page, bare_error's text."""
        def src(rel):
            return ast.parse(open(os.path.join(core.REPO, rel)).read())

        def coq_str(x):
            return '[' + ';'.join(str(ord(ch)) for ch in x) + ']'

        def coq_bool(b):
            return 'true' if b else 'false'

        def find(tree, name, cls=None):
            for node in tree.body:
                if cls and isinstance(node, ast.ClassDef) and node.name == cls:
                    return find(node, name)
                if not cls and isinstance(node, (ast.FunctionDef, ast.ClassDef)) and node.name == name:
                    return node
            raise LookupError('%s.%s' % (cls, name))

        BODY = {'response.body', 'self.body', 'cherrypy.response.body', 'cherrypy.serving.response.body'}
        FIXED = {'dict', 'len', 'self', 'str', 'cherrypy'}

        def canon(nodes):
            """source text of statements with local names numbered by first occurrence and log calls dropped:
            renamed locals, added log lines and comments do not change it"""
            import copy
            nodes = [copy.deepcopy(n) for n in nodes]
            names = {}

            class R(ast.NodeTransformer):
                def visit_Expr(self, node):
                    if isinstance(node.value, ast.Constant):
                        return None
                    if isinstance(node.value, ast.Call) and ast.unparse(node.value.func) in ('cherrypy.log', '_cherrypy.log'):
                        return None
                    return self.generic_visit(node)

                def visit_Name(self, node):
                    if node.id not in FIXED:
                        node.id = names.setdefault(node.id, 'n%d' % len(names))
                    return node
            out = []
            for n in nodes:
                n = R().visit(n)
                if n is not None:
                    out.append(ast.unparse(ast.fix_missing_locations(n)))
            return out

        def is_cl(node):
            return isinstance(node, ast.Subscript) and isinstance(node.slice, ast.Constant) and \
                node.slice.value == 'Content-Length'

        def targets(node):
            for t in node.targets:
                for x in (t.elts if isinstance(t, (ast.Tuple, ast.List)) else [t]):
                    yield x

        # (a)
        rows = []
        libdir = os.path.join(core.REPO, 'cherrypy', 'lib')
        files = ['cherrypy/_cperror.py'] + sorted('cherrypy/lib/' + f for f in os.listdir(libdir) if f.endswith('.py'))
        for rel in files:
            for unit in src(rel).body:
                if not isinstance(unit, (ast.FunctionDef, ast.ClassDef)):
                    continue
                assigns = deletes = sets = False
                for node in ast.walk(unit):
                    if isinstance(node, ast.Assign):
                        for t in targets(node):
                            if ast.unparse(t) in BODY:
                                assigns = True
                            if is_cl(t):
                                sets = True
                    elif isinstance(node, ast.Delete):
                        if any(is_cl(t) for t in node.targets):
                            deletes = True
                    elif isinstance(node, ast.Call) and isinstance(node.func, ast.Attribute) and node.func.attr == 'pop' \
                            and node.args and isinstance(node.args[0], ast.Constant) and node.args[0].value == 'Content-Length':
                        deletes = True
                if assigns:
                    rows.append(('%s:%s' % (rel, unit.name), assigns, deletes, sets))
        gen_rows = '[' + ';\n  '.join('(%s, (%s, (%s, %s)))' % (coq_str(n), coq_bool(a), coq_bool(d), coq_bool(x))
                                      for n, a, d, x in rows) + ']'
        self.notes.append('tool_effects regenerated: ' + '; '.join(
            '%s %s' % (n, 'deletes+sets' if d and x else 'deletes' if d else 'sets' if x else 'no-reset') for n, a, d, x in rows))

        # (b) Response.finalize
        from ..translate import pynorm
        req = pynorm.normalise(src('cherrypy/_cprequest.py'))   # helpers inlined, single-use locals folded
        fin = find(req, 'finalize', 'Response')
        chain = next((n for n in fin.body if isinstance(n, ast.If) and ast.unparse(n.test) == 'self.stream'), None)
        if chain is None or len(chain.orelse) != 1 or not isinstance(chain.orelse[0], ast.If):
            raise LookupError('finalize: if self.stream / elif / else')
        nb = chain.orelse[0]
        t = nb.test
        if not (isinstance(t, ast.BoolOp) and isinstance(t.op, ast.Or) and len(t.values) == 2):
            raise LookupError('finalize: no-body test')
        lt, member = t.values
        if not (isinstance(lt, ast.Compare) and ast.unparse(lt.left) == 'code' and isinstance(lt.ops[0], ast.Lt)
                and isinstance(member, ast.Compare) and ast.unparse(member.left) == 'code'
                and isinstance(member.ops[0], ast.In)):
            raise LookupError('finalize: no-body test shape')
        below = ast.literal_eval(lt.comparators[0])
        codes = sorted(ast.literal_eval(member.comparators[0]))
        stream_ok = canon(chain.body) == ["if dict.get(n0, 'Content-Length') is None:\n    dict.pop(n0, 'Content-Length', None)"]
        nb_ok = canon(nb.body) == ["dict.pop(n0, 'Content-Length', None)", 'self._flush_body()', "self.body = b''"]
        else_ok = canon(nb.orelse) == ["if dict.get(n0, 'Content-Length') is None:\n"
                                       "    dict.__setitem__(n0, 'Content-Length', len(self.collapse_body()))"]
        col = find(req, 'collapse_body', 'Response')
        col_ok = canon(col.body) == ["n0 = b''.join(self.body)", 'self.body = n0', 'return n0']
        # nothing after the chain touches body or Content-Length
        after = fin.body[fin.body.index(chain) + 1:]
        after_ok = not any(isinstance(n, ast.Assign) and any(ast.unparse(x) in BODY for x in targets(n))
                           for a in after for n in ast.walk(a)) and \
            not any(isinstance(n, ast.Constant) and n.value == 'Content-Length' for a in after for n in ast.walk(a))

        # (c) the HEAD rule of Request.run
        run = find(req, 'run', 'Request')
        stmts = [n for n in run.body if not (isinstance(n, ast.Expr) and isinstance(n.value, ast.Constant))]
        try_i = next((i for i, n in enumerate(stmts) if isinstance(n, ast.Try) and
                      any(isinstance(c, ast.Call) and ast.unparse(c.func) == 'self.respond' for c in ast.walk(n))), None)
        head_i = next((i for i, n in enumerate(stmts) if isinstance(n, ast.If) and
                       ast.unparse(n.test) == "self.method == 'HEAD'"), None)
        if try_i is None:
            raise LookupError('Request.run: try block calling self.respond')
        head_ok = head_i is not None and head_i > try_i and \
            canon(stmts[head_i].body) == ['n0.body = []'] and not stmts[head_i].orelse
        # no other place strips the body by method
        other_head = sum(1 for n in ast.walk(req) if isinstance(n, ast.Constant) and n.value == 'HEAD')
        dor = find(req, '_do_respond', 'Request')
        fin_calls = [ast.unparse(n) for n in ast.walk(dor) if isinstance(n, ast.Call) and ast.unparse(n.func) == 'response.finalize']

        # hook points and priorities
        tl = src('cherrypy/_cptools.py')
        tool_init = find(tl, '__init__', 'Tool')
        dflt = ast.literal_eval(tool_init.args.defaults[-1])
        ht_init = find(tl, '__init__', 'HandlerTool')
        ht_point = next(ast.literal_eval(c.args[1]) for c in ast.walk(ht_init)
                        if isinstance(c, ast.Call) and ast.unparse(c.func) == 'Tool.__init__')
        regs = {}
        for n in tl.body:
            if isinstance(n, ast.Assign) and len(n.targets) == 1 and isinstance(n.targets[0], ast.Attribute) and \
                    ast.unparse(n.targets[0].value) == '_d' and isinstance(n.value, ast.Call):
                call = n.value
                kind = ast.unparse(call.func)
                prio = next((ast.literal_eval(k.value) for k in call.keywords if k.arg == 'priority'), dflt)
                if kind in ('Tool', 'CachingTool'):
                    regs[n.targets[0].attr] = (ast.literal_eval(call.args[0]), prio)
                elif kind == 'HandlerTool':
                    regs[n.targets[0].attr] = (ht_point, dflt)
        ct = find(tl, 'CachingTool')
        wprio = next(ast.literal_eval(n.value) for n in ct.body if isinstance(n, ast.Assign) and
                     ast.unparse(n.targets[0]) == '_wrapper.priority')
        regs['caching'] = (regs['caching'][0], wprio)
        att = next(c for c in ast.walk(ct) if isinstance(c, ast.Call) and ast.unparse(c.func) == 'request.hooks.attach'
                   and ast.unparse(c.args[1]) == '_caching.tee_output')
        regs['tee'] = (ast.literal_eval(att.args[0]), next(ast.literal_eval(k.value) for k in att.keywords if k.arg == 'priority'))
        points = {'before_handler': 0, 'before_finalize': 2}
        gen_tools = '[' + '; '.join('(%d, (%d, %d))' % (TOOL_ID[n], points[regs[n][0]], regs[n][1])
                                    for n in sorted(TOOL_ID, key=TOOL_ID.get)) + ']'

        # error pages
        err = src('cherrypy/_cperror.py')
        ie = next(ast.literal_eval(n.value) for n in err.body if isinstance(n, ast.Assign) and
                  ast.unparse(n.targets[0]) == '_ie_friendly_error_sizes')
        gen_ie = '[' + '; '.join('(%d, %d)' % kv for kv in sorted(ie.items())) + ']'
        sr = find(err, 'set_response', 'HTTPRedirect')
        first_if = next(n for n in sr.body if isinstance(n, ast.If))
        with_page = sorted(ast.literal_eval(first_if.test.comparators[0]))
        be = find(err, 'bare_error')
        bare = next(ast.literal_eval(n.value) for n in be.body if isinstance(n, ast.Assign) and ast.unparse(n.targets[0]) == 'body')
        ieu = find(err, '_be_ie_unfriendly')
        ieu_txt = '\n'.join(canon(ieu.body))
        ieu_ok = all(x in ieu_txt for x in ('n1 += 1', 'n4 = n0.collapse_body()', 'n5 = len(n4)', 'if n5 and n5 < n1:',
                                            "n4 = n4 + b' ' * (n1 - n5)", 'n0.body = n4',
                                            "n0.headers['Content-Length'] = str(len(n4))"))

        text = '\n'.join([
            'From Coq Require Import ZArith List Bool.', 'From CV Require Import Lib.ListZ Model.M_framing.',
            'Import ListNotations.', 'Open Scope Z_scope.',
            'Definition gen_tool_effects : list effect_row :=\n  %s.' % gen_rows,
            'Lemma tie_tool_effects : forallb rewrites_body_implies_resets_length gen_tool_effects = true.',
            'Proof. vm_compute; reflexivity. Qed.',
            'Lemma tie_tool_effects_model : rows_present tool_effects gen_tool_effects = true.',
            'Proof. vm_compute; reflexivity. Qed.',
            'Lemma tie_nobody_set : %s = nobody_below /\\ %s = nobody_codes /\\ %s = true.'
            % (below, '[' + '; '.join(map(str, codes)) + ']', ' && '.join(map(coq_bool, (stream_ok, nb_ok, else_ok, col_ok, after_ok)))),
            'Proof. repeat split; vm_compute; reflexivity. Qed.',
            'Lemma tie_head : %s = true.' % ' && '.join(map(coq_bool, (head_ok, other_head == 1, len(fin_calls) == 1))),
            'Proof. vm_compute; reflexivity. Qed.',
            'Lemma tie_tool_points : %s = tool_table.' % gen_tools,
            'Proof. vm_compute; reflexivity. Qed.',
            'Lemma tie_error_pages : %s = ie_sizes /\\ %s = redirect_with_page /\\ %s = bare_body /\\ %s = true.'
            % (gen_ie, '[' + '; '.join(map(str, with_page)) + ']', coq_str((bare + b'\n').decode('latin-1')), coq_bool(ieu_ok)),
            'Proof. repeat split; vm_compute; reflexivity. Qed.', ''])
        ok, out = core.coq_check_text('Tie_C06', text)
        names = ['tie_tool_effects', 'tie_tool_effects_model', 'tie_nobody_set', 'tie_head', 'tie_tool_points', 'tie_error_pages']
        if ok:
            return [core.Obligation('tie:%s(regenerated from %s)' % (n, core.REPO), True) for n in names]
        # which lemma failed: compile them one by one
        obls = []
        head, lemmas = text.split('Lemma ', 1)[0], ['Lemma ' + x for x in text.split('Lemma ')[1:]]
        for n, lem in zip(names, lemmas):
            ok1, out1 = core.coq_check_text('Tie_C06_' + n, head + lem)
            obls.append(core.Obligation('tie:%s(regenerated from %s)' % (n, core.REPO), ok1, '' if ok1 else out1))
        return obls

    # ------------------------------------------------------------------ generation
    def valid(self, c):
        shape, act, tools = c['shape'], c['act'], set(c['tools'])
        static = shape in STATIC
        if shape in ('staticfile', 'staticdir') and act != 'ok':
            return False
        if 'json_out' in tools and shape not in ('json', 'text', 'none', 'bytes'):
            return False
        if shape == 'json' and 'json_out' not in tools:
            return False
        if c.get('own_cl') and shape not in ('bytes', 'list', 'gen', 'file'):
            # a text handler that announces the UTF-8 length: only where tools.encode (buffered) is in charge of it
            if not (shape in ('text', 'textgen') and 'encode' in tools and 'stream' not in tools):
                return False
        if c.get('own_cl') and 'json_out' in tools:
            return False
        normal = act == 'ok' or act.startswith('st')
        if 'stream' in tools and normal:
            # bodies that abort a streamed response instead of framing it
            if shape == 'nested' and 'flatten' not in tools:
                return False
            if shape == 'textgen' and 'encode' not in tools:
                return False
            if shape == 'bytes' and 'json_out' in tools:
                return False
            if shape in ('text', 'textgen') and 'encode' in tools and \
                    any(r.get('hdr', {}).get('ac') in ('us-ascii', 'latin-then-utf8') for r in c['reqs']):
                return False
        if 'stream' in tools and c['page'] == 'junk':
            return False
        for r in c['reqs']:
            h = r.get('hdr', {})
            if (h.get('range') or h.get('ims')) and not static:
                return False
            if h.get('ac') and 'encode' not in tools:
                return False
            if (h.get('im') or h.get('inm')) and 'etags' not in tools:
                return False
        return True

    def histories(self, rng, tools, static):
        if 'caching' in tools:
            return rng.choice([['GET', 'GET', 'HEAD'], ['HEAD', 'GET', 'GET'], ['GET', 'POST', 'GET'],
                               ['GET', 'HEAD'], ['POST', 'GET', 'HEAD']])
        return rng.choice([['GET', 'HEAD'], ['GET', 'HEAD'], ['POST'], ['HEAD', 'GET'], ['POST', 'GET', 'HEAD']])

    def gen_hdr(self, rng, tools, static):
        h = {}
        if 'gzip' in tools or rng.random() < .1:
            h['ae'] = rng.choice([None, 'gzip', 'gzip', 'identity;q=0', 'gzip;q=0', 'identity'])
        if 'encode' in tools:
            h['ac'] = rng.choice([None, None, 'utf-16', 'us-ascii', 'latin-then-utf8'])
        if 'etags' in tools and rng.random() < .5:
            h[rng.choice(['im', 'inm'])] = True
        if static:
            h['range'] = rng.choice([None, None, 'bytes=0-4', 'bytes=2-', 'bytes=0-1,3-4', 'bytes=999-', 'bytes=-5',
                                     'bytes=0-0', 'bytes=3-999'])
            if rng.random() < .15:
                h['ims'] = 'match'
        return {k: v for k, v in h.items() if v}

    def make_case(self, rng, shape, act, tools, own_cl=None, page=None, meths=None, hdr=None):
        static = shape in STATIC
        if hdr is None:
            hdr = self.gen_hdr(rng, tools, static)
        if meths is None:
            meths = self.histories(rng, tools, static)
        if page is None:
            page = rng.choice(PAGES)
        if own_cl is None:
            own_cl = (shape in ('bytes', 'list', 'gen', 'file') or
                      (shape in ('text', 'textgen') and 'encode' in tools and 'stream' not in tools)) \
                and 'json_out' not in tools and rng.random() < .4
        fd = FILEDATA if static and rng.random() < .9 else b''
        return {'shape': shape, 'act': act, 'tools': [t for t in TOOLS if t in tools], 'own_cl': bool(own_cl),
                # the handler sets Content-Length to None explicitly ("no length known": what serve_fileobj does for a
                # file object without fileno(), or user code asking for chunking) - the same as not setting it
                'cl_none': (not own_cl) and not static and rng.random() < .25,
                'page': page, 'filedata': fd if static else None,
                'reqs': self.mixed_history(rng, tools, hdr) or [{'m': m, 'hdr': dict(hdr)} for m in meths]}

    def mixed_history(self, rng, tools, hdr):
        """cache fill, then a hit that ends in an error / 304 (failing or matching precondition), then a plain hit:
        what the failing request does to its response must not stick to the cached entry"""
        if 'caching' not in tools or 'etags' not in tools or rng.random() < .5:
            return None
        plain = {k: v for k, v in hdr.items() if k not in ('im', 'inm')}
        cond = dict(plain, **{rng.choice(['im', 'im', 'inm']): True})
        self.count('history: fill / conditional hit / plain hit')
        return [{'m': 'GET', 'hdr': dict(plain)}, {'m': rng.choice(['GET', 'GET', 'HEAD']), 'hdr': cond},
                {'m': 'GET', 'hdr': dict(plain)}]

    def random_case(self, rng):
        for _ in range(200):
            shape = rng.choice(SHAPES)
            act = 'ok' if shape in ('staticfile', 'staticdir') else rng.choice(ACTS + ['ok', 'ok', 'st204'])
            k = rng.choice([0, 1, 1, 2, 2, 3, 3, 4, 5, 8])
            tools = set(rng.sample(TOOLS, min(k, len(TOOLS))))
            if shape == 'json':
                tools.add('json_out')
            c = self.make_case(rng, shape, act, tools)
            if self.valid(c):
                return c
        raise RuntimeError('generator cannot find a valid case')

    def extra(self):
        """HEAD against GET under the method dispatcher, for resources whose framing is decided by the GET method's own
        _cp_config (a Content-Type set through response.headers, tools.gzip, tools.json_out, tools.encode with a
        charset): HEAD has no method of its own and falls back to GET, so status, Content-Type, Content-Encoding and
        Content-Length must be those of the GET, with no body bytes.  Oracle only."""
        import cherrypy
        text = 'payload ' * 400

        class Typed:
            exposed = True

            @cherrypy.config(**{'response.headers.Content-Type': 'application/xml'})
            def GET(self):
                return b'<a>' + b'x' * 100 + b'</a>'

        class Zipped:
            exposed = True

            @cherrypy.config(**{'tools.gzip.on': True, 'tools.gzip.mime_types': ['text/*']})
            def GET(self):
                cherrypy.response.headers['Content-Type'] = 'text/plain'
                return text.encode()

        class Jsoned:
            exposed = True

            @cherrypy.config(**{'tools.json_out.on': True})
            def GET(self):
                return {'k': list(range(30))}

        class Encoded:
            exposed = True

            @cherrypy.config(**{'tools.encode.on': True, 'tools.encode.encoding': 'utf-16'})
            def GET(self):
                return u'caf\xe9 ' * 50

        class Root:
            pass
        root = Root()
        root.typed, root.zipped, root.jsoned, root.encoded = Typed(), Zipped(), Jsoned(), Encoded()
        app = wsgi.make_app(root, {'/': {'request.dispatch': cherrypy.dispatch.MethodDispatcher(),
                                         'tools.trailing_slash.on': False, 'request.show_tracebacks': False}})
        out = []
        try:
            for path in ('/typed', '/zipped', '/jsoned', '/encoded'):
                for hdrs in ([], [('Accept-Encoding', 'gzip')]):
                    g = wsgi.call(app, 'GET', path, hdrs)
                    h = wsgi.call(app, 'HEAD', path, hdrs)
                    self.count('method-dispatcher HEAD/GET pairs')
                    view = lambda r: [r['status'], wsgi.header(r, 'Content-Type'), wsgi.header(r, 'Content-Encoding'),
                                      wsgi.headers_all(r, 'Content-Length')]
                    gv, hv = view(g), view(h)
                    if g['escaped'] or h['escaped'] or g['problems'] or h['problems']:
                        continue
                    if hv != gv or len(h['body']) != 0 or gv[3] != [str(len(g['body']))]:
                        out.append(core.Violation(
                            'head-differs:method-dispatcher',
                            'MethodDispatcher, GET method with its own _cp_config: GET %s -> (status, Content-Type, '
                            'Content-Encoding, Content-Length) %r with %d body bytes; HEAD -> %r with %d body bytes'
                            % (path, gv, len(g['body']), hv, len(h['body'])),
                            case={'k': 'method-dispatcher-head', 'path': path, 'headers': hdrs},
                            observed={'get': gv, 'head': hv, 'get_bytes': len(g['body']), 'head_bytes': len(h['body'])}))
                        return out
            if not out:
                out += self.short_read_probe(app_factory=wsgi.make_app)
        finally:
            import logging
            try:
                cherrypy.engine.unsubscribe('graceful', app.log.reopen_files)
            except Exception:
                pass
            for lg in (app.log.error_log, app.log.access_log):
                logging.Logger.manager.loggerDict.pop(lg.name, None)
        return out

    def short_read_probe(self, app_factory):
        """static.serve_fileobj over a file object whose read(n) returns fewer than n bytes (a raw stream): whole-file and
        ranged GETs must announce exactly the bytes they deliver.  Oracle only."""
        import cherrypy
        import tempfile
        from cherrypy.lib import static
        data = bytes(range(256)) * 3
        fd, path = tempfile.mkstemp(prefix='c06short')
        os.write(fd, data)
        os.close(fd)

        class ShortFile(object):
            def __init__(self, path):
                self.f = open(path, 'rb', buffering=0)

            def read(self, n=-1):
                return self.f.read(7 if n is None or n < 0 or n > 7 else n)

            def __getattr__(self, name):
                return getattr(self.f, name)

        class Root:
            @cherrypy.expose
            def short(self):
                return static.serve_fileobj(ShortFile(path), content_type='application/octet-stream')
        app = app_factory(Root(), {'/': {'tools.trailing_slash.on': False, 'request.show_tracebacks': False}})
        out = []
        try:
            for rng in (None, 'bytes=10-59', 'bytes=-100', 'bytes=700-', 'bytes=0-0'):
                r = wsgi.call(app, 'GET', '/short', [] if rng is None else [('Range', rng)])
                cl = wsgi.headers_all(r, 'Content-Length')
                self.count('short-reading file object, Range %s' % rng)
                if r['escaped'] or r['problems'] or r['status'] not in (200, 206):
                    continue
                if cl != [str(len(r['body']))]:
                    out.append(core.Violation(
                        'length-mismatch:short-reads',
                        'serve_fileobj over a file object that returns short reads, Range %r: status %s, Content-Length '
                        '%r, %d body bytes delivered' % (rng, r['status'], cl, len(r['body'])),
                        case={'k': 'short-read-fileobj', 'range': rng},
                        observed={'status': r['status'], 'content_length': cl, 'bytes': len(r['body'])}))
                    break
        finally:
            import logging
            try:
                cherrypy.engine.unsubscribe('graceful', app.log.reopen_files)
            except Exception:
                pass
            for lg in (app.log.error_log, app.log.access_log):
                logging.Logger.manager.loggerDict.pop(lg.name, None)
            os.unlink(path)
        return out

    def cases(self):
        rng = self.rng
        n = 3000 if self.tier == 'quick' else 12000
        out = [self.random_case(rng) for _ in range(n)]
        if self.tier == 'thorough':
            out += list(self.lattice(rng))
        for i, c in enumerate(out):
            c['id'] = i
        return out

    def lattice(self, rng):
        """every shape x status action x subset of tools (headers, page, history drawn per point)"""
        import itertools
        for shape in SHAPES:
            acts = ['ok'] if shape in ('staticfile', 'staticdir') else ACTS
            for act in acts:
                for k in range(len(TOOLS) + 1):
                    for tools in itertools.combinations(TOOLS, k):
                        c = self.make_case(rng, shape, act, set(tools))
                        if self.valid(c):
                            yield c

    def search_cases(self, around=None):
        rng = self.rng
        for c in around or []:
            yield c
        for i in range(6000):
            c = self.random_case(rng)
            c['id'] = 100000 + i
            yield c

    # ------------------------------------------------------------------ model side
    def encode(self, c):
        return [Plan(self, c, r).run() for r in c['reqs']]

    # ------------------------------------------------------------------ implementation side
    def setup(self):
        import cherrypy
        from cherrypy.lib import static, caching
        os.makedirs(WORKDIR, exist_ok=True)
        self.files = {}
        for name, data in (('f.txt', FILEDATA), ('e.txt', b'')):
            p = os.path.join(WORKDIR, name)
            with open(p, 'wb') as f:
                f.write(data)
            os.utime(p, (MTIME, MTIME))
            self.files[data] = p
        from cherrypy.lib import httputil
        self.lastmod = httputil.HTTPDate(MTIME)

        def nested():
            def inner(xs):
                for x in xs:
                    yield x
            yield inner([b'n1', b'n2'])
            yield b'flat'
            yield inner([inner([b'n3'])])

        class Root:
            @cherrypy.expose
            def h(self, *a, **k):
                c = CUR['case']
                resp = cherrypy.serving.response
                shape, act = c['shape'], c['act']
                if shape in ('staticfile', 'staticdir'):
                    shape, act = 'bytes', 'ok'
                if act.startswith('st'):
                    resp.status = int(act[2:])
                if shape == 'bytes':
                    body, n = PAY, len(PAY)
                elif shape == 'empty':
                    body, n = b'', 0
                elif shape == 'none':
                    body, n = None, 0
                elif shape == 'list':
                    body, n = list(CHUNKS), sum(map(len, CHUNKS))
                elif shape == 'gen':
                    body, n = (x for x in CHUNKS), sum(map(len, CHUNKS))
                elif shape == 'nested':
                    body, n = nested(), None
                elif shape == 'file':
                    body, n = io.BytesIO(FILEDATA), len(FILEDATA)
                elif shape == 'text':
                    body, n = TEXT, len(TEXT.encode('utf-8'))
                elif shape == 'textgen':
                    body, n = (x for x in TEXTS), len(TEXT.encode('utf-8'))
                elif shape == 'json':
                    body, n = JSONV, None
                elif shape == 'servefile':
                    body, n = static.serve_file(CUR['path']), None
                if c.get('own_cl') and n is not None:
                    resp.headers['Content-Length'] = n
                elif c.get('cl_none'):
                    resp.headers['Content-Length'] = None
                if act.startswith('redir'):
                    raise cherrypy.HTTPRedirect('/target', int(act[5:]))
                if act.startswith('err'):
                    raise cherrypy.HTTPError(int(act[3:]), 'M')
                if act == 'exc':
                    raise KeyError('unexpected')
                return body

        self.app = wsgi.make_app(Root(), {'/': {'tools.trailing_slash.on': False}})
        self._static = static
        self._orig_boundary = static.make_boundary
        static.make_boundary = lambda: BOUNDARY
        if hasattr(cherrypy, '_cache'):
            del cherrypy._cache
        cherrypy._cache = caching.MemoryCache()
        cherrypy._cache.antistampede_timeout = 0.05
        cherrypy._cache.debug = False

    def teardown(self):
        import cherrypy
        if getattr(self, '_static', None) is not None:
            self._static.make_boundary = self._orig_boundary
        if hasattr(cherrypy, '_cache'):
            del cherrypy._cache
        app = self.app
        if app is not None:
            import logging
            try:
                cherrypy.engine.unsubscribe('graceful', app.log.reopen_files)
            except Exception:
                pass
            for lg in (app.log.error_log, app.log.access_log):
                logging.Logger.manager.loggerDict.pop(lg.name, None)
            self.app = None

    def config_for(self, c):
        conf = {'request.show_tracebacks': False, 'tools.trailing_slash.on': False}
        conf['tools.encode.on'] = False          # it is on in cherrypy.config.defaults
        for t in c['tools']:
            if t == 'stream':
                conf['response.stream'] = True
            else:
                conf['tools.%s.on' % t] = True
        if 'etags' in c['tools']:
            conf['tools.etags.autotags'] = True
        path = self.files[c['filedata']] if c['filedata'] is not None else None
        if c['shape'] == 'staticfile':
            conf['tools.staticfile.on'] = True
            conf['tools.staticfile.filename'] = path
        elif c['shape'] == 'staticdir':
            conf['tools.staticdir.on'] = True
            conf['tools.staticdir.dir'] = WORKDIR
        if c['page'] != 'tpl':
            conf['error_page.default'] = PAGE_FNS[c['page']]
        return conf, path

    def impl(self, c):
        import cherrypy
        if self.app is None:
            self.setup()
        conf, path = self.config_for(c)
        self.app.config['/h'] = conf
        CUR['case'] = c
        CUR['path'] = path
        self.serial += 1
        if self.serial % 200 == 0:
            cherrypy._cache.clear()
        target = '/h'
        if c['shape'] == 'staticdir':
            target = '/h/' + os.path.basename(path)
        target += '?c=%d_%d' % (c.get('id', 0), self.serial)
        out = []
        for r in c['reqs']:
            h = r.get('hdr', {})
            headers = []
            if h.get('ae'):
                headers.append(('Accept-Encoding', h['ae']))
            if h.get('ac'):
                headers.append(('Accept-Charset', {'latin-then-utf8': 'iso-8859-1, utf-8;q=0.5'}.get(h['ac'], h['ac'])))
            if h.get('range'):
                headers.append(('Range', h['range']))
            if h.get('im'):
                headers.append(('If-Match', '"nomatch"'))
            if h.get('inm'):
                headers.append(('If-None-Match', '*'))
            if h.get('ims'):
                headers.append(('If-Modified-Since', self.lastmod))
            if r['m'] == 'POST':
                headers.append(('Content-Length', '0'))
            res = wsgi.call(self.app, r['m'], target, headers)
            out.append({'status': res['status'], 'cl': wsgi.headers_all(res, 'Content-Length'),
                        'ct': wsgi.header(res, 'Content-Type'), 'n': len(res['body']), 'escaped': res['escaped'],
                        'problems': res['problems'], 'enc': wsgi.header(res, 'Content-Encoding')})
            self.count('method:%s' % r['m'])
            self.count('status:%s' % res['status'])
        self.count('shape:%s' % c['shape'])
        self.count('action:%s' % c['act'])
        self.count('tools:%d' % len(c['tools']))
        for t in c['tools']:
            self.count('tool:%s' % t)
        self.count('page:%s' % c['page'])
        return out

    def compare(self, c, mo, obs):
        if isinstance(mo, str):
            return 'model: ' + mo
        if len(mo) != len(obs):
            return 'model answered %d requests, implementation %d' % (len(mo), len(obs))
        for i, (m, o) in enumerate(zip(mo, obs)):
            status, cl, n, stream, tags = m
            for t in tags:
                self.count('model-branch:%d' % t)
            if o['escaped'] or o['problems']:
                self.count('aborted-response')
                return 'request %d: the response was aborted (%s %s); model predicted %s' % (
                    i, o['escaped'], o['problems'], m[:3])
            icl = None
            if o['cl']:
                try:
                    icl = int(o['cl'][0])
                except ValueError:
                    return 'request %d: Content-Length %r' % (i, o['cl'])
            mcl = cl[0] if cl else None
            if (status, mcl, n) != (o['status'], icl, o['n']):
                return 'request %d (%s): model (status, CL, bytes) = %r, implementation %r' % (
                    i, c['reqs'][i]['m'], (status, mcl, n), (o['status'], icl, o['n']))
        return None

    # ------------------------------------------------------------------ property oracle
    def oracle(self, c, obs):
        fails = []
        stream = 'stream' in c['tools']
        for i, (r, o) in enumerate(zip(c['reqs'], obs)):
            where = '%s %s/%s tools=%s' % (r['m'], c['shape'], c['act'], ','.join(c['tools']))
            if o['escaped'] or o['problems']:
                continue                              # aborted: no framing to judge (C01)
            st, n = o['status'], o['n']
            if len(o['cl']) > 1:
                fails.append(('duplicate-content-length', '%s: %d Content-Length headers' % (where, len(o['cl']))))
                continue
            cl = None
            if o['cl']:
                if not o['cl'][0].isdigit():
                    fails.append(('malformed-content-length', '%s: Content-Length %r' % (where, o['cl'][0])))
                    continue
                cl = int(o['cl'][0])
            if stream:
                if r['m'] == 'HEAD':
                    if n:
                        fails.append(('head-body', '%s: %d body bytes in answer to HEAD' % (where, n)))
                elif cl is not None and cl != n:
                    fails.append(('stream-length-mismatch',
                                  '%s: streamed response says Content-Length %d, produced %d bytes' % (where, cl, n)))
                continue
            if st is not None and (st < 200 or st in NOBODY):
                if n:
                    fails.append(('body-on-%d' % st, '%s: %d body bytes on a %d' % (where, n, st)))
                if cl is not None:
                    fails.append(('content-length-on-%d' % st, '%s: Content-Length %d on a %d' % (where, cl, st)))
                continue
            if r['m'] == 'HEAD':
                if n:
                    fails.append(('head-body', '%s: %d body bytes in answer to HEAD' % (where, n)))
                g = next((obs[j] for j, q in enumerate(c['reqs'])
                          if q['m'] == 'GET' and q.get('hdr', {}) == r.get('hdr', {})
                          and not obs[j]['escaped'] and not obs[j]['problems']), None)
                if g is not None:
                    if g['status'] != st:
                        fails.append(('head-status', '%s: HEAD %s, GET %s' % (where, st, g['status'])))
                    elif g['cl'] != o['cl']:
                        fails.append(('head-content-length',
                                      '%s: HEAD Content-Length %r, GET %r' % (where, o['cl'], g['cl'])))
                    elif g['ct'] != o['ct']:
                        fails.append(('head-content-type', '%s: HEAD Content-Type %r, GET %r' % (where, o['ct'], g['ct'])))
                if cl is None:
                    fails.append(('missing-content-length:HEAD', '%s: no Content-Length (status %s)' % (where, st)))
                continue
            if cl is None:
                fails.append(('missing-content-length',
                              '%s: no Content-Length on a non-streamed %s with %d body bytes' % (where, st, n)))
            elif cl != n:
                fails.append(('length-mismatch',
                              '%s: Content-Length %d, %d body bytes delivered (status %s)' % (where, cl, n, st)))
        return fails

    @staticmethod
    def sigtool(c):
        return '+'.join(c['tools']) or 'none'

    def nontrivial(self, c, obs):
        if not c['tools'] and c['act'] == 'ok' and c['shape'] == 'bytes':
            return None
        hk = tuple(sorted((k, str(v)) for k, v in c['reqs'][0].get('hdr', {}).items()))
        return (c['shape'], c['act'], tuple(c['tools']), c['page'], c['own_cl'], tuple(r['m'] for r in c['reqs']), hk)

    def shrink(self, c, still_fails):
        c = dict(c)

        def attempt(**kw):
            d = dict(c, **kw)
            if not self.valid(d):
                return False
            try:
                return still_fails(d)
            except Exception:
                return False
        for t in list(c['tools']):
            rest = [x for x in c['tools'] if x != t]
            if attempt(tools=rest):
                c['tools'] = rest
        if len(c['reqs']) > 1:
            for i in range(len(c['reqs']) - 1, -1, -1):
                rest = c['reqs'][:i] + c['reqs'][i + 1:]
                if rest and attempt(reqs=rest):
                    c['reqs'] = rest
        for k in list(c['reqs'][0].get('hdr', {})):
            reqs = [dict(r, hdr={a: b for a, b in r.get('hdr', {}).items() if a != k}) for r in c['reqs']]
            if attempt(reqs=reqs):
                c['reqs'] = reqs
        if c['own_cl'] and attempt(own_cl=False):
            c['own_cl'] = False
        if c['page'] != 'short' and attempt(page='short'):
            c['page'] = 'short'
        if c['act'] != 'ok' and attempt(act='ok'):
            c['act'] = 'ok'
        if c['shape'] != 'bytes' and attempt(shape='bytes', filedata=None):
            c['shape'], c['filedata'] = 'bytes', None
        return c


CHECK = C06
