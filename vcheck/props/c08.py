"""C08 - the effective request config is the most-specific-wins merge, scoped by path; tools run
exactly when the merged config turns them on; an INI file evaluates to the equivalent dict.

Four case families, all through the extracted model run_C08:
  scope : real object trees (classes built with exec, real @cherrypy.config / @cherrypy.popargs / tool
          decorators) x app config layers (dict and INI file) x global config x request paths; every
          assignment of a probe key carries the id of its scope as value, so the winner is visible;
          probe tools in cherrypy.tools and in a private Toolbox record whether they ran and with what;
  lit   : a Python literal value v: to_ast v vs the real ast.parse(repr v), build vs the real unrepr;
  ini   : a dict of sections written to an INI file under .work/C08 and loaded through the real machinery;
  expr  : expressions over the node classes _Builder handles (names, dotted names, calls, + * - unary -)."""
import ast
import builtins
import importlib
import itertools
import math
import os
import string

from .. import core, sx
from ..impl import wsgi
from . import c02 as _c02

KEYS = ['pk.a', 'pk.b']
TOOLS = [('tools', 'c08pa', 50, None), ('tools', 'c08pb', 20, 35), ('c08tb', 'ta', 60, None), ('c08tb', 'tb', 50, None)]
NSS = ['tools', 'c08tb']
TR = str.maketrans(string.punctuation, '_' * len(string.punctuation))
WORKDIR = os.path.join(core.WORK, 'C08')
CURRENT = [None]
SUB_SIG = 'unrepr-sub:complex-negative-imaginary-part'


def relevant(k):
    return k.startswith(('pk.', 'tools.c08', 'c08tb.')) or k in ('tools.staticdir.dir', 'tools.staticdir.section')


def tok(k, v):
    """value token: repr, except the derived tools.staticdir.section (a path string written by set_conf)"""
    return v if k == 'tools.staticdir.section' and isinstance(v, str) else repr(v)


def snapshot_conf(cfg):
    return {k: tok(k, v) for k, v in cfg.items() if relevant(k)}


def _hit(hid, args):
    import cherrypy
    W = CURRENT[0]
    owner = W.owner.get(hid)
    args = list(args)
    if args and owner is not None and isinstance(args[0], owner):
        args = args[1:]
    W.calls.append({'id': hid, 'args': [a if isinstance(a, str) else repr(a) for a in args],
                    'config': snapshot_conf(cherrypy.serving.request.config)})
    return b'ok'


class Probes:
    """the probe tools; installed in setup(), removed in teardown()"""

    def __init__(self):
        import cherrypy
        from cherrypy import _cptools
        self.by_cb = {}
        self.default_prio = {}
        self.tb = _cptools.Toolbox('c08tb')
        for ns, name, prio, cbprio in TOOLS:
            cb = self.make(ns, name)
            if cbprio is not None:
                cb.priority = cbprio
            tool = _cptools.Tool('before_handler', cb, priority=prio)
            setattr(cherrypy.tools if ns == 'tools' else self.tb, name, tool)
            self.by_cb[cb] = (ns, name)
            self.default_prio[(ns, name)] = getattr(cb, 'priority', prio)

    def make(self, ns, name):
        def probe(**kwargs):
            CURRENT[0].tool_runs.append([ns, name, {k: repr(v) for k, v in kwargs.items()}])
        probe.__name__ = 'probe_%s_%s' % (ns, name)
        return probe

    def remove(self):
        import cherrypy
        for ns, name, _, _ in TOOLS:
            if ns == 'tools' and hasattr(cherrypy.tools, name):
                delattr(cherrypy.tools, name)

    def toolbox(self, ns):
        import cherrypy
        return cherrypy.tools if ns == 'tools' else self.tb


class Snapshot:
    """a last config namespace: its __exit__ runs after every toolbox processed the merged config"""

    def __init__(self, probes):
        self.probes = probes

    def __enter__(self):
        return lambda k, v: None

    def __exit__(self, et, ev, tb):
        import cherrypy
        req = cherrypy.serving.request
        W = CURRENT[0]
        if et is not None or W is None:
            return
        tm = {}
        for ns in NSS:
            tm[ns] = {t: {a: repr(v) for a, v in d.items()} for t, d in req.toolmaps.get(ns, {}).items()
                      if ns != 'tools' or t.startswith('c08')}
        hooks = []
        for h in req.hooks.get('before_handler', []):
            who = self.probes.by_cb.get(h.callback)
            if who:
                hooks.append([who[0], who[1], repr(h.priority), {k: repr(v) for k, v in h.kwargs.items()}])
        W.snap = {'toolmaps': tm, 'hooks': hooks}


class Recorder:
    def __init__(self, inner):
        self.inner = inner

    def __call__(self, path_info):
        import cherrypy
        W = CURRENT[0]
        rec = W.disp = {'path_info': path_info, 'exc': None}
        try:
            self.inner(path_info)
        except BaseException as e:
            rec['exc'] = type(e).__name__
            raise
        req = cherrypy.serving.request
        h = req.handler
        rec['config'] = snapshot_conf(req.config)
        if isinstance(h, cherrypy.NotFound):
            rec['kind'] = 0
        elif isinstance(h, cherrypy.HTTPError):
            rec['kind'] = 2 if h.status == 405 else 9
        elif isinstance(h, cherrypy._cpdispatch.PageHandler):
            rec['kind'] = 1
        else:
            rec['kind'] = 8


class World8(_c02.World):
    """real classes for one tree spec (own builder), c02's materialisation with repr() value tokens"""

    def __init__(self, spec):
        self.tool_runs = []
        self.snap = None
        _c02.World.__init__(self, spec)

    def build(self, spec):
        cp = self.cherrypy
        oid = spec['id']
        fnreg = {}
        ns = {'cherrypy': cp, '_hit': _hit, '_fnreg': fnreg, '_tb': PROBES[0].tb if PROBES[0] else None}
        L = []
        disp = spec.get('disp')
        if spec.get('cex'):
            L.append('@cherrypy.expose')
        if disp and disp['k'] == 'popargs':
            L.append('@cherrypy.popargs(%s)' % ', '.join(repr(n) for n in disp['names']))
        L.append('class K%d(object):' % oid)
        L.append('    pass')
        if spec.get('conf') is not None:
            L.append('    _cp_config = %r' % (spec['conf'],))
        if spec.get('call'):
            L.append('    def __call__(*args, **kwargs):')
            L.append('        return _hit(%d, args)' % oid)
        fns = []
        for name, ch in spec['attrs']:
            if ch['t'] != 'fn':
                continue
            if ch.get('ex'):
                L.append('    @cherrypy.expose')
            td = ch.get('tooldec')
            if td:
                tb = 'cherrypy.tools' if td[0] == 'tools' else '_tb'
                L.append('    @%s.%s(**%r)' % (tb, td[1], td[2]))
            if ch.get('conf') is not None and ch.get('how') == 'dec':
                L.append('    @cherrypy.config(**%r)' % (ch['conf'],))
            L.append('    def %s(*args, **kwargs):' % name)
            L.append('        return _hit(%d, args)' % ch['id'])
            L.append('    _fnreg[%d] = %s' % (ch['id'], name))
            if ch.get('conf') is not None and ch.get('how') != 'dec':
                if td:
                    L.append('    %s._cp_config.update(%r)' % (name, ch['conf']))
                else:
                    L.append('    %s._cp_config = %r' % (name, ch['conf']))
            fns.append((name, ch))
        if disp and disp['k'] == 'pop':
            ret = disp.get('ret')
            L += ['    def _cp_dispatch(self, vpath):',
                  '        for _ in range(%d):' % disp['n'],
                  '            if vpath:',
                  '                vpath.pop(0)',
                  '        return %s' % ('None' if ret is None else 'self' if ret == '@self'
                                         else 'getattr(self, %r, None)' % ret)]
        exec(compile('\n'.join(L) + '\n', '<C08 K%d>' % oid, 'exec'), ns)
        cls = ns['K%d' % oid]
        inst = cls()
        self.register(oid, inst)
        self.register(-oid, cls)
        if spec.get('call'):
            self.owner[oid] = cls
        for name, ch in fns:
            self.register(ch['id'], fnreg[ch['id']])
            self.owner[ch['id']] = cls
        for name, ch in spec['attrs']:
            if ch['t'] != 'fn':
                setattr(inst, name, self.build(ch))
        return inst

    def mat(self, o, its, fuel, names, is_disp):
        self.n_nodes += 1
        if self.n_nodes > _c02.NODE_BUDGET:
            raise _c02.TooBig()
        flags = [bool(getattr(o, 'exposed', False)), hasattr(o, '__call__'), bool(o)]
        conf = []
        if hasattr(o, '_cp_config'):
            try:
                conf = [[str(k), repr(v)] for k, v in dict(o._cp_config).items()]
            except Exception:
                conf = []
        verbs = [m for m in dir(o) if m.isupper()]
        attrs = []
        if fuel > 0:
            sub = set(it[1:] for it in its)
            for n in names:
                v = getattr(o, n, None)
                if v is None:
                    continue
                if n == '_cp_dispatch':
                    attrs.append([n, self.mat_disp(v, its, fuel - 1, names)])
                else:
                    attrs.append([n, self.mat(v, sub, fuel - 1, names, False)])
        return [self.ident(o), flags, conf, verbs, attrs, []]


PROBES = [None]


# ---------------------------------------------------------------- literal values

class Unsupported(Exception):
    pass


def realise(tv):
    t = tv[0]
    if t == 'n':
        return None
    if t == 'b':
        return bool(tv[1])
    if t == 'i':
        return int(tv[1])
    if t == 'f':
        return float(tv[1])
    if t == 'c':
        return complex(float(tv[1]), float(tv[2]))
    if t == 's':
        return tv[1]
    if t == 'y':
        return bytes.fromhex(tv[1])
    if t == 'l':
        return [realise(x) for x in tv[1]]
    if t == 't':
        return tuple(realise(x) for x in tv[1])
    if t == 'd':
        return {realise(k): realise(v) for k, v in tv[1]}
    raise ValueError(tv)


def tagged(v):
    if v is None:
        return ['n']
    if type(v) is bool:
        return ['b', v]
    if type(v) is int:
        return ['i', v]
    if type(v) is float:
        return ['f', repr(v)]
    if type(v) is complex:
        return ['c', repr(v.real), repr(v.imag)]
    if type(v) is str:
        return ['s', v]
    if type(v) is bytes:
        return ['y', v.hex()]
    if type(v) is list:
        return ['l', [tagged(x) for x in v]]
    if type(v) is tuple:
        return ['t', [tagged(x) for x in v]]
    if type(v) is dict:
        return ['d', [[tagged(k), tagged(x)] for k, x in v.items()]]
    raise Unsupported(type(v).__name__)


def enc_fl(x):
    if not math.isfinite(x):
        raise Unsupported('non-finite float')
    a = abs(x)
    neg = math.copysign(1.0, x) < 0
    if a.is_integer() and a < 1e16:
        return [neg, [0, int(a)]]
    return [neg, [1, repr(a)]]


def enc_value(v, objs=None):
    """python object -> the model's value encoding; non-literals become opaque objects"""
    if v is None:
        return [0]
    t = type(v)
    if t is bool:
        return [1, v]
    if t is int:
        if abs(v) < 2 ** 60:
            return [2, v]
        limbs, a = [], abs(v)
        while a:
            limbs.append(a % 10 ** 9)
            a //= 10 ** 9
        return [2, -1 if v < 0 else 1, limbs]
    if t is float:
        return [3] + enc_fl(v)
    if t is complex:
        return [4] + enc_fl(v.real) + enc_fl(v.imag)
    if t is str:
        return [5, v]
    if t is bytes:
        return [6, list(v)]
    if t is list:
        return [7, [enc_value(x, objs) for x in v]]
    if t is tuple:
        return [8, [enc_value(x, objs) for x in v]]
    if t is dict:
        return [9, [[enc_value(k, objs), enc_value(x, objs)] for k, x in v.items()]]
    if objs is None:
        raise Unsupported(t.__name__)
    return [10, objs.ident(v)]


def has_build(cls):
    from cherrypy.lib import reprconf
    return hasattr(reprconf._Builder, 'build_' + cls)


def enc_ast(n, objs=None):
    """real ast node -> the model's pyast encoding"""
    if isinstance(n, ast.Constant):
        if n.value is Ellipsis:
            raise Unsupported('Ellipsis')
        return [0, enc_value(n.value, objs)]
    if isinstance(n, ast.List):
        return [1, [enc_ast(x, objs) for x in n.elts]]
    if isinstance(n, ast.Tuple):
        return [2, [enc_ast(x, objs) for x in n.elts]]
    if isinstance(n, ast.Dict):
        if any(k is None for k in n.keys):
            raise Unsupported('dict unpacking')
        return [3, [[enc_ast(k, objs), enc_ast(v, objs)] for k, v in zip(n.keys, n.values)]]
    if isinstance(n, ast.Name):
        return [4, n.id]
    if isinstance(n, ast.UnaryOp):
        return [5, 0 if isinstance(n.op, ast.USub) else 1, enc_ast(n.operand, objs)]
    if isinstance(n, ast.BinOp):
        op = 0 if isinstance(n.op, ast.Add) else 1 if isinstance(n.op, ast.Mult) else \
            2 if isinstance(n.op, ast.Sub) else 3
        return [6, op, enc_ast(n.left, objs), enc_ast(n.right, objs)]
    if isinstance(n, ast.Attribute):
        return [7, enc_ast(n.value, objs), n.attr]
    if isinstance(n, ast.Call):
        if any(isinstance(a, ast.Starred) for a in n.args) or any(k.arg is None for k in n.keywords):
            raise Unsupported('star args')
        return [8, enc_ast(n.func, objs), [enc_ast(a, objs) for a in n.args],
                [k.arg for k in n.keywords], [enc_ast(k.value, objs) for k in n.keywords]]
    cls = type(n).__name__
    if has_build(cls):
        raise Unsupported(cls)
    return [9]


def deep_eq(a, b):
    """Python == between objects of identical (nested) types"""
    if type(a) is not type(b):
        return False
    if isinstance(a, (list, tuple)):
        return len(a) == len(b) and all(deep_eq(x, y) for x, y in zip(a, b))
    if isinstance(a, dict):
        if len(a) != len(b):
            return False
        for (k1, v1), (k2, v2) in zip(a.items(), b.items()):
            if not deep_eq(k1, k2) or not deep_eq(v1, v2):
                return False
        return True
    return a == b


def classify_exc(e):
    msg = str(e.args[0]) if e.args else ''
    if isinstance(e, TypeError) and msg.startswith('unrepr does not recognize'):
        return 1
    if isinstance(e, TypeError) and msg.startswith('unrepr could not resolve the name'):
        return 2
    if isinstance(e, AttributeError):
        return 3
    if isinstance(e, TypeError):
        return 4
    return 5


class Objs:
    def __init__(self):
        self.tab = {}
        self.keep = []

    def ident(self, o):
        k = id(o)
        if k not in self.tab:
            self.tab[k] = len(self.tab) + 1
            self.keep.append(o)
        return self.tab[k]


class RefError(Exception):
    pass


class RefEval:
    """the harness's own evaluator of the supported expression forms; fills the model's lookup tables"""

    def __init__(self):
        self.objs = Objs()
        self.names, self.attrs, self.calls = [], [], []

    def resolve(self, name):
        try:
            return importlib.import_module(name)
        except ImportError:
            pass
        if hasattr(builtins, name):
            return getattr(builtins, name)
        raise RefError('name')

    def ev(self, n):
        if isinstance(n, ast.Constant):
            return n.value
        if isinstance(n, ast.List):
            return [self.ev(x) for x in n.elts]
        if isinstance(n, ast.Tuple):
            return tuple(self.ev(x) for x in n.elts)
        if isinstance(n, ast.Dict):
            try:
                return dict([(self.ev(k), self.ev(v)) for k, v in zip(n.keys, n.values)])
            except TypeError:
                raise RefError('type')
        if isinstance(n, ast.Name):
            if n.id in ('None', 'True', 'False'):
                return {'None': None, 'True': True, 'False': False}[n.id]
            v = self.resolve(n.id)
            self.names.append([n.id, enc_value(v, self.objs)])
            return v
        if isinstance(n, ast.UnaryOp):
            if not isinstance(n.op, ast.USub):
                raise RefError('nobuilder')
            x = self.ev(n.operand)
            try:
                return -x
            except TypeError:
                raise RefError('type')
        if isinstance(n, ast.BinOp):
            a = self.ev(n.left)
            if not isinstance(n.op, (ast.Add, ast.Mult, ast.Sub)):
                raise RefError('nobuilder')
            b = self.ev(n.right)
            try:
                return a + b if isinstance(n.op, ast.Add) else a * b if isinstance(n.op, ast.Mult) else a - b
            except TypeError:
                raise RefError('type')
        if isinstance(n, ast.Attribute):
            p = self.ev(n.value)
            if enc_value(p, self.objs)[0] != 10:
                raise RefError('unmodelled')
            try:
                v = getattr(p, n.attr)
            except AttributeError:
                raise RefError('attr')
            self.attrs.append([self.objs.ident(p), n.attr, enc_value(v, self.objs)])
            return v
        if isinstance(n, ast.Call):
            f = self.ev(n.func)
            args = [self.ev(a) for a in n.args]
            kw = [(k.arg, self.ev(k.value)) for k in n.keywords]
            if enc_value(f, self.objs)[0] != 10:
                raise RefError('unmodelled')
            row = [self.objs.ident(f), [enc_value(a, self.objs) for a in args],
                   [[k, enc_value(v, self.objs)] for k, v in kw]]
            try:
                r = f(*args, **dict(kw))
            except Exception:
                self.calls.append(row + [[]])
                raise RefError('call')
            self.calls.append(row + [[enc_value(r, self.objs)]])
            return r
        raise RefError('nobuilder')


def ini_text(sections):
    out = []
    for sec, d in sections.items():
        out.append('[%s]' % sec)
        for k, v in d.items():
            out.append('%s = %s' % (k, repr(v).replace('%', '%%')))
        out.append('')
    return '\n'.join(out) + '\n'


# ---------------------------------------------------------------- the check

ON_VALUES = [True, True, True, False, False, 1, 0, 'yes', '', None, [], [0]]
EXTRA_SEGS = ['zz', '7', 'index', 'default', 'x%2Fy', 'ab']
SPELL = {'a_b': ['a_b', 'a.b', 'a-b']}
FLOATS = [0.0, -0.0, 1.0, -1.0, 1.5, -2.5, 1e16, 1e22, -1e22, 1e-05, 2.5e-07, 123456789.125, 0.1, 3.0,
          9999999999999998.0, 1e15, 5e-324, 1.7976931348623157e308]
STRS = ['', 'a', 'ab c', "it's", '"q"', "both'\"", 'x%y', '%(a)s', '%%', '100%', 'a\\b', 'line\nbreak', 'tab\t',
        'ü', '\u20ac', '\U0001f600', '#c', '; x', ' lead', 'trail ', '[sec]', 'k = v', 'k: v', '\x00', '$x', '${y}']
EXPRS = ['1', '-3', '1.5', '2j', '"ab"', 'b"x"', '[1, 2]', '(1,)', '()', '{}', 'None', 'True', 'False', 'os',
         'os.path', 'os.path.sep', 'os.sep', 'os.nosuch', 'math.pi', 'nosuchname', 'int', 'len', 'sys.maxsize',
         'string.digits', 'cherrypy.lib.static', 'cherrypy.lib.nosuch', 'cherrypy.lib.static.serve_file',
         'os.path.join', '{1, 2}', 'x.y', '1 < 2', 'not True', '+1', '~1', '-"a"', '-None', '- -2', '-True',
         '1 + 2', '1 - 2', '2 * 3', '7 / 2', '2 ** 3', '"a" + "b"', '"a" + 1', '[1] + [2]', '(1,) + (2,)',
         '[1] + (2,)', '2 * "ab"', '"ab" * 2', '[0] * 3', '3 * (1, 2)', '"a" * "b"', '[1] * -1', 'None + 1',
         'True + 1', '1 + 2j', '1 - 2j', '-1 - 2j', '-0 - 2j', '1.5 + 0j', '0.0 + 1.5', '1.5 + 2.5', '1 + 0.0',
         'b"a" + b"b"', 'b"a" + "b"', '10 ** 20', '1 + nosuchname', 'nosuchname - 1', '1 - nosuchname',
         'os.nosuch - 1', '1 / os.nosuch', 'int("3")', 'int("x")', 'str(5)', 'dict(a=1)', 'dict(a=1, b=[2])',
         'tuple([1, 2])', 'list((1, 2))', 'len("abc")', 'abs(-2)', 'complex(1, -2)', 'float("1.5")',
         'os.path.join("a", "b")', 'int', 'dict()', 'sorted([3, 1])', 'max(1, 2)', 'int(x=1)', '{"a": os.sep}',
         '[os.sep, 1]', '{[1]: 2}', '{(1, [2]): 3}', '{1: 2, 1: 3}', '{"a": 1, "b": 2, "a": 3}', '{(1, 2): 3}',
         '{None: 1}', '{1.5: 2}', '{True: 1}', '{1: 2, 2.5: 3}', 'lambda: 1', '[x for x in y]', '1 if 2 else 3',
         'f"a"', 'a and b', '-(1 + 2)', '-[1]', '(1 + 2) * 3', '[[1] * 2] * 2', '"%s" % 1', '-1.5', '-0.0',
         '(-1.5-2j)', '(1e+16+1j)', '-2j', '(-0-2j)', '(-0+2j)', '(1-0j)',
         # huge repetitions: the interpreter raises MemoryError at once, the model declines (never builds them)
         'sys.maxsize * (1,)', '() * sys.maxsize', '"ab" * sys.maxsize', 'sys.maxsize * []', '[0] * 70000']


class C08(core.Check):
    pid = 'C08'
    props_files = ('Props/C08.v',)
    refuted_files = ('Refuted/R_C08.v',)
    model_fn = ('run_C08', 'Model.M_config')
    xcheck_n = 30
    rule = ('scope: object trees (depth <= 3; objects with class _cp_config, exposed/unexposed index / default / '
            'methods with _cp_config set by attribute, @cherrypy.config or a tool decorator, popargs and multi-pop '
            '_cp_dispatch, REST resources under MethodDispatcher) x 1-2 app config layers (dict / INI file) with '
            'sections for path prefixes, translated spellings, string-prefix siblings, trailing-slash and index '
            'variants x global config x paths (virtual segments, index, trailing slash, empty segments, %2F); '
            'every probe-key assignment carries its scope id; quick also enumerates all 2^7 scope subsets of a fixed '
            '3-level tree x 8 paths, thorough all 2^9 x 14 paths; lit: random nested literals; ini: random section '
            'dicts written to a file and loaded via Parser / Config / Application / app.merge / file object / '
            'cherrypy.config; expr: a fixed pool of expressions + random combinations.  Non-trivial = the winner of a '
            'probe key is not the only setter, or a tool is configured, or a value is not a plain constant')
    assumptions = ('config values are opaque to the merge (tokens = repr); bool(v) and "v is None" are inputs',
                   'the merge theorems take every dict of the request (global, _cp_config, sections) with each key once '
                   '(Forall uniq: they are Python dicts); the tool theorems are about a toolbox run that raised nothing',
                   'c08_unrepr_partial: dict literals whose keys are or contain bools / floats / complex numbers are '
                   'outside the theorem (cross-type numeric key equality is not modelled); those INI values are still '
                   'compared with the dict values by the oracle',
                   'configparser tokenisation and ast.parse are oracles (the harness compares to_ast with the real '
                   'parse of the real repr); "%" is written "%%" (interpolation is documented behaviour)',
                   'floats: a float is its sign and the repr token of its magnitude; arithmetic is modelled only '
                   'where an operand is a zero (all that evaluating a repr needs); NaN/inf are not literals',
                   'module import, builtins, getattr and calls are tables materialised from the interpreter',
                   'Config.environments expansion and the request/response/hooks/error_page namespaces are outside',
                   '_cp_dispatch / popargs are user code (oracle tables, as in C02)')

    # ------------------------------------------------------------ generation: scope
    def gen_conf(self, rng, sid, p=.4, tools=True):
        d = {}
        for k in KEYS:
            if rng.random() < p:
                d[k] = sid
        if tools and rng.random() < .4:
            ns, t, _, _ = rng.choice(TOOLS)
            for arg in rng.sample(['on', 'on', 'on', 'x', 'y', 'priority'], rng.choice([1, 2, 2, 3])):
                if arg == 'on':
                    v = rng.choice(ON_VALUES)
                elif arg == 'priority':
                    v = rng.choice([10, 70, None, 50, 0, 0])      # 0 is a legal priority (runs first), not 'unset'
                else:
                    v = rng.choice([sid, 1, None, 'v'])
                d['%s.%s.%s' % (ns, t, arg)] = v
        r = rng.random()
        if r < .03:
            d['tools.staticdir.dir'] = sid
        elif r < .04:
            d['tools.c08pa'] = sid
        elif r < .05:
            d['tools.c08nosuch.on'] = rng.choice([True, False])
        elif r < .055:
            d['c08tb.namespace.on'] = True
        return d or None

    def gen_fn(self, rng, ids, ex=None):
        i = next(ids)
        f = {'t': 'fn', 'id': i, 'ex': (rng.random() < .8) if ex is None else ex}
        c = self.gen_conf(rng, 'H%d' % i)
        if c is not None:
            f['conf'] = c
            f['how'] = rng.choice(['attr', 'dec'])
        if rng.random() < .1:
            ns, t, _, _ = rng.choice(TOOLS)
            f['tooldec'] = [ns, t, rng.choice([{}, {'x': 'H%d' % i}, {'priority': 30, 'y': 2}])]
            f['how'] = 'attr'
        return f

    def gen_obj(self, rng, ids, depth, maxdepth, mode):
        i = next(ids)
        o = {'t': 'obj', 'id': i, 'attrs': []}
        c = self.gen_conf(rng, 'C%d' % i)
        if c is not None:
            o['conf'] = c
        if mode:
            o['cex'] = rng.random() < .8
        elif rng.random() < .12:
            o['cex'] = o['call'] = True
        used = set()
        if mode:
            for v in ('GET', 'POST'):
                if rng.random() < .6:
                    o['attrs'].append([v, self.gen_fn(rng, ids, ex=False)])
        if rng.random() < .6:
            o['attrs'].append(['index', self.gen_fn(rng, ids)])
        if rng.random() < .4:
            o['attrs'].append(['default', self.gen_fn(rng, ids)])
        for name in ('a', 'b', 'a_b', 'm'):
            r = rng.random()
            if r < .3 and depth < maxdepth:
                o['attrs'].append([name, self.gen_obj(rng, ids, depth + 1, maxdepth, mode)])
            elif r < .5:
                o['attrs'].append([name, self.gen_fn(rng, ids)])
            used.add(name)
        if rng.random() < .15:
            if rng.random() < .6:
                o['disp'] = {'k': 'popargs', 'names': rng.choice([['year'], ['year', 'month']])}
            else:
                o['disp'] = {'k': 'pop', 'n': rng.choice([1, 2, 2]),
                             'ret': rng.choice(['@self', None] + [n for n, _ in o['attrs']])}
        return o

    def spell(self, rng, name):
        v = SPELL.get(name)
        return rng.choice(v) if v and rng.random() < .6 else name

    def gen_path(self, rng, tree):
        segs = []
        cur = tree
        while cur is not None and cur['t'] == 'obj' and cur['attrs'] and rng.random() < .8 and len(segs) < 4:
            name, ch = rng.choice(cur['attrs'])
            segs.append(self.spell(rng, name))
            cur = ch
        if cur is not None and cur['t'] == 'fn' and segs and segs[-1] == 'index' and rng.random() < .7:
            segs.pop()
        r = rng.random()
        for _ in range(0 if r < .5 else 1 if r < .8 else 2):
            segs.append(rng.choice(EXTRA_SEGS))
        p = '/' + '/'.join(segs)
        if len(segs) > 1 and rng.random() < .08:
            j = rng.randrange(1, len(segs))
            p = '/' + '/'.join(segs[:j]) + '//' + '/'.join(segs[j:])
        if segs and rng.random() < .3:
            p += '/'
        return _c02.collapse(p), _c02.quote_path(rng, p)

    def section_pool(self, rng, paths):
        cands = ['/']
        for p in paths:
            ss = [s for s in p.split('/') if s]
            for i in range(1, len(ss) + 1):
                pre = '/' + '/'.join(ss[:i])
                cands.append(pre)
                cands.append(pre)
                cands.append(pre.translate(TR).replace('_', '/', 1) if pre.translate(TR) != pre.replace('/', '_')
                             else pre + 'x')
                if rng.random() < .3:
                    cands.append(rng.choice([pre + 'x', pre[:-1], pre + '/', pre[1:], pre + '/index',
                                             pre + '/default', pre + '/zz']))
            cands.append(('/' + '/'.join(ss) + '/index').replace('//', '/'))
        cands.append('global')
        out = []
        for c in cands:
            if c and c not in out and ']' not in c and '\n' not in c:
                out.append(c)
        return out

    def gen_layer(self, rng, li, pool, how):
        secs = {}
        for c in pool:
            if rng.random() < .3:
                d = self.gen_conf(rng, 'S%d:%s' % (li, c), p=.5, tools=rng.random() < .5)
                if d:
                    secs[c] = d
        return {'how': how, 'sections': secs}

    def gen_group(self, rng, npaths):
        ids = itertools.count(1)
        mode = 1 if rng.random() < .2 else 0
        tree = self.gen_obj(rng, ids, 1, rng.choice([2, 3, 3]), mode)
        pts = [self.gen_path(rng, tree) for _ in range(npaths)]
        pool = self.section_pool(rng, [p for p, _ in pts])
        layers = [self.gen_layer(rng, 0, pool, rng.choice(['dict', 'dict', 'ini']))]
        if rng.random() < .35:
            layers.append(self.gen_layer(rng, 1, pool, rng.choice(['dict', 'ini'])))
        if layers[0]['how'] == 'dict' and len(layers[0]['sections']) >= 2 and rng.random() < .3:
            # two sections given as one shared dict object, then a second merge into one of them
            s1, s2 = rng.sample(sorted(layers[0]['sections']), 2)
            common = self.gen_conf(rng, 'X0:shared', p=.6, tools=rng.random() < .5) or {'pk.b': 'X0:shared'}
            layers[0]['sections'][s1] = dict(common)      # equal content => ONE dict object in app_for
            layers[0]['sections'][s2] = dict(common)
            layers[0]['share'] = True
            extra = self.gen_conf(rng, 'S1:%s' % s1, p=.9, tools=rng.random() < .5) or {'pk.a': 'S1x'}
            if len(layers) == 1:
                layers.append({'how': rng.choice(['dict', 'ini']), 'sections': {}})
            layers[1]['sections'].setdefault(s1, {}).update(extra)
            self.count('shared-section-dict')
        gconf = self.gen_conf(rng, 'G', p=.4) or {}
        gconf = {k: v for k, v in gconf.items() if k not in ('tools.c08pa',)}
        out = []
        for pi, target in pts:
            fc = []
            for _ in range(2):
                fp = rng.choice([pi, pi.rstrip('/') or '/', pi + '/', pi + '/zz', pi.lstrip('/'), '', '/',
                                 pi.replace('/', '//', 1)])
                fc.append([fp, rng.choice(KEYS)])
            out.append({'k': 'scope', 'mode': mode, 'method': rng.choice(['GET', 'POST', 'HEAD', 'PUT']) if mode else 'GET',
                        'path_info': pi, 'target': target, 'tree': tree, 'layers': layers, 'gconf': gconf, 'fc': fc})
        return out

    def exhaustive(self, big):
        """all subsets of the scopes of a fixed 3-level tree (root / a / b) x paths"""
        scopes = ['G', 'S:/', 'S:/a', 'S:/a/b', 'C:root', 'C:a', 'H:b'] + (['D:a', 'S:/a/bx'] if big else [])
        paths = ['/a/b', '/a/b/', '/a/zz', '/a', '/', '/zz', '/a/bx', '/a/b/zz']
        if big:
            paths += ['/a/', '/a//b', '/a/index', '/a/bx/b', '/ab', '/a/default']
        for bits in itertools.product([False, True], repeat=len(scopes)):
            on = {s for s, b in zip(scopes, bits) if b}

            def cf(s):
                return {'pk.a': s} if s in on else None
            b = {'t': 'fn', 'id': 5, 'ex': True}
            if 'H:b' in on:
                b.update(conf={'pk.a': 'H5'}, how='attr')
            adef = {'t': 'fn', 'id': 4, 'ex': True}
            if 'D:a' in on:
                adef.update(conf={'pk.a': 'H4'}, how='attr')
            a = {'t': 'obj', 'id': 3, 'attrs': [['b', b], ['default', adef], ['index', {'t': 'fn', 'id': 6, 'ex': True}]]}
            if 'C:a' in on:
                a['conf'] = {'pk.a': 'C3'}
            root = {'t': 'obj', 'id': 1, 'attrs': [['a', a], ['index', {'t': 'fn', 'id': 2, 'ex': True}]]}
            if 'C:root' in on:
                root['conf'] = {'pk.a': 'C1'}
            secs = {s[2:]: {'pk.a': 'S0:' + s[2:]} for s in on if s.startswith('S:')}
            layers = [{'how': 'dict', 'sections': secs}]
            gconf = {'pk.a': 'G'} if 'G' in on else {}
            for p in paths:
                yield {'k': 'scope', 'mode': 0, 'method': 'GET', 'path_info': _c02.collapse(p), 'target': p,
                       'tree': root, 'layers': layers, 'gconf': gconf, 'fc': [[p, 'pk.a']]}

    # ------------------------------------------------------------ generation: values
    def gen_scalar(self, rng):
        r = rng.random()
        if r < .08:
            return None
        if r < .16:
            return rng.random() < .5
        if r < .4:
            return rng.choice([0, 1, -1, 7, -42, 255, 10 ** 16, -10 ** 16, 10 ** 20, -(10 ** 25), 2 ** 63,
                               rng.randrange(-1000, 1000)])
        if r < .55:
            return rng.choice(FLOATS) if rng.random() < .7 else rng.uniform(-1e3, 1e3) * 10 ** rng.randrange(-12, 12)
        if r < .63:
            return complex(rng.choice(FLOATS[:12]), rng.choice(FLOATS[:12]))
        if r < .92:
            return rng.choice(STRS) if rng.random() < .7 else ''.join(
                rng.choice(string.printable + 'üλ€') for _ in range(rng.randrange(0, 8)))
        return rng.choice([b'', b'a', b'\x00\xff', b"q'\"", b'%d', b'line\n'])

    def gen_key(self, rng):
        r = rng.random()
        if r < .6:
            return rng.choice(STRS)
        if r < .8:
            return rng.randrange(-5, 50)
        if r < .88:
            return None
        if r < .95:
            return tuple(rng.choice([1, 'a', None, (2, 'b')]) for _ in range(rng.randrange(0, 3)))
        return rng.choice([1.5, True, b'k', -2.5])

    def gen_value(self, rng, depth=0):
        r = rng.random()
        if depth >= 3 or r < .55:
            return self.gen_scalar(rng)
        n = rng.choice([0, 1, 1, 2, 3])
        if r < .7:
            return [self.gen_value(rng, depth + 1) for _ in range(n)]
        if r < .85:
            return tuple(self.gen_value(rng, depth + 1) for _ in range(n))
        keys = [self.gen_key(rng) for _ in range(n)]
        d = {}
        for k in keys:
            if not any(k == k2 for k2 in d):
                d[k] = self.gen_value(rng, depth + 1)
        return d

    def gen_ini(self, rng, n):
        secs = {}
        how = rng.choice(['parser', 'fileobj', 'config', 'app', 'appmerge', 'global'])
        names = ['global'] if how == 'global' else rng.sample(['/', '/a', '/a/b', 'global', 'sec one', '/x.y', 'S'],
                                                              rng.choice([1, 2, 3]))
        for s in names:
            d = {}
            for _ in range(rng.choice([1, 2, 3, 4])):
                k = rng.choice(['pk.a', 'pk.b', 'pk.Mixed', 'pk.x y']) if how in ('global', 'app', 'appmerge') else \
                    rng.choice(['k1', 'k2', 'Key', 'pk.a', 'tools.c08pa.x', 'x y', 'a.b.c'])
                d[k] = tagged(self.gen_value(rng))
            secs[s] = d
        return {'k': 'ini', 'how': how, 'n': n, 'sections': secs}

    def gen_expr(self, rng):
        r = rng.random()
        if r < .6:
            return rng.choice(EXPRS)
        a, b = rng.choice(EXPRS), rng.choice(EXPRS)
        form = rng.choice(['(%s) + (%s)', '(%s) * (%s)', '(%s) - (%s)', '[%s, %s]', '(%s, %s)', '{"k": %s, "j": %s}',
                           '-(%s) + (%s)', 'dict(a=%s, b=%s)', '{(%s): %s}'])
        return form % (a, b)

    def cases(self):
        quick = self.tier == 'quick'
        rng = self.rng
        out = []
        for _ in range(330 if quick else 4000):
            out += self.gen_group(rng, 6)
        out += list(self.exhaustive(not quick))
        for _ in range(900 if quick else 20000):
            out.append({'k': 'lit', 'v': tagged(self.gen_value(rng))})
        for i in range(250 if quick else 3000):
            out.append(self.gen_ini(rng, i))
        for s in EXPRS:
            out.append({'k': 'expr', 'src': s})
        for _ in range(300 if quick else 5000):
            out.append({'k': 'expr', 'src': self.gen_expr(rng)})
        good = []
        for c in out:
            try:
                self.encode(c)
            except (_c02.TooBig, Unsupported, SyntaxError) as e:
                self.count('dropped:%s' % type(e).__name__)
                continue
            good.append(c)
        return good

    def search_cases(self, around=None):
        for c in around or []:
            yield c
        for _ in range(1500):
            for c in self.gen_group(self.rng, 6):
                try:
                    self.encode(c)
                except (_c02.TooBig, Unsupported):
                    continue
                yield c
        for _ in range(3000):
            yield {'k': 'lit', 'v': tagged(self.gen_value(self.rng))}

    # ------------------------------------------------------------ real objects
    _world = None
    _world_tree = None

    def world(self, c):
        if self._world is None or self._world_tree is not c['tree']:
            self._world = World8(c['tree'])
            self._world_tree = c['tree']
            self._world.app = None
        return self._world

    def ini_path(self, name):
        os.makedirs(WORKDIR, exist_ok=True)
        return os.path.join(WORKDIR, '%s.%d.conf' % (name, os.getpid()))

    def app_for(self, W, c):
        import cherrypy
        cur = W.app
        if cur is not None and cur[0] is c['layers'] and cur[2] == c['mode']:
            return cur[1]
        _c02.C02.drop_app(getattr(self, '_last_app', None))
        inner = cherrypy.dispatch.MethodDispatcher() if c['mode'] else cherrypy.dispatch.Dispatcher()

        class Req(cherrypy._cprequest.Request):
            dispatch = Recorder(inner)
        app = wsgi.make_app(W.root, None)
        app.request_class = Req
        app.toolboxes = {'tools': cherrypy.tools, 'c08tb': PROBES[0].tb, 'c08zz': Snapshot(PROBES[0])}
        for li, layer in enumerate(c['layers']):
            if layer['how'] == 'ini':
                p = self.ini_path('layer%d' % li)
                with open(p, 'w') as f:
                    f.write(ini_text(layer['sections']))
                try:
                    app.merge(p)
                finally:
                    cherrypy.engine.autoreload.files.discard(p)
                    os.unlink(p)
            elif layer.get('share'):
                # the caller reuses ONE dict object for sections with equal content (common = {...};
                # {'/a': common, '/b': common}): merge() must not let a later merge write through it
                objs = {}
                app.merge({k: objs.setdefault(repr(sorted(v.items(), key=repr)), dict(v))
                           for k, v in layer['sections'].items()})
            else:
                app.merge({k: dict(v) for k, v in layer['sections'].items()})
        W.app = (c['layers'], app, c['mode'])
        self._last_app = app
        self.count('applications built')
        return app

    @staticmethod
    def segs_of(p):
        return [s for s in p.split('/') if s]

    # ------------------------------------------------------------ model side
    def encode(self, c):
        cache = self.__dict__.setdefault('_enc', {})
        hit = cache.get(id(c))
        if hit is not None and hit[0] is c:
            return hit[1]
        e = getattr(self, 'encode_' + c['k'])(c)
        cache[id(c)] = (c, e)
        return e

    def case_values(self, c):
        vals = list(c['gconf'].values())
        for layer in c['layers']:
            for d in layer['sections'].values():
                vals += list(d.values())

        def walk(o):
            if o.get('conf'):
                vals.extend(o['conf'].values())
            if o.get('tooldec'):
                vals.append(True)
                vals.extend(o['tooldec'][2].values())
            for _, ch in o.get('attrs', []):
                walk(ch)
        walk(c['tree'])
        return vals

    def case_keys(self, c):
        keys = set(KEYS) | {'tools.staticdir.section'}
        keys |= set(c['gconf'])
        for layer in c['layers']:
            for d in layer['sections'].values():
                keys |= set(d)

        def walk(o):
            keys.update(o.get('conf') or {})
            td = o.get('tooldec')
            if td:
                keys.add('%s.%s.on' % (td[0], td[1]))
                keys.update('%s.%s.%s' % (td[0], td[1], a) for a in td[2])
            for _, ch in o.get('attrs', []):
                walk(ch)
        walk(c['tree'])
        return sorted(keys)

    def encode_scope(self, c):
        W = self.world(c)
        CURRENT[0] = W
        root, na = W.materialise(self.segs_of(c['path_info']), c['method'])
        layers = [[[s, [[k, repr(v)] for k, v in d.items()]] for s, d in l['sections'].items()] for l in c['layers']]
        import cherrypy
        saved = dict(cherrypy.config)
        try:
            if c['gconf']:
                cherrypy.config.update(dict(c['gconf']))
            gconf = [[k, tok(k, v)] for k, v in cherrypy.config.items() if relevant(k)]
        finally:
            dict.clear(cherrypy.config)
            dict.update(cherrypy.config, saved)
        keys = self.case_keys(c)
        falsy = sorted({repr(v) for v in self.case_values(c) if not v})
        nss = []
        for ns in NSS:
            tb = PROBES[0].toolbox(ns)
            names = {k.split('.')[1] for k in keys if k.startswith(ns + '.') and k.count('.') >= 1}
            nss.append([ns, sorted(n for n in names if hasattr(getattr(tb, n, None), '_setup'))])
        return [0, c['mode'], c['method'], c['path_info'], root, na, layers, gconf, keys, falsy, nss, c['fc']]

    def encode_lit(self, c):
        return [1, 1, enc_value(realise(c['v']))]

    def encode_ini(self, c):
        return [3, 1, [enc_value(realise(tv)) for d in c['sections'].values() for tv in d.values()]]

    def encode_expr(self, c):
        node = ast.parse(c['src'], mode='eval').body
        R = RefEval()
        try:
            R.ev(node)
        except RefError:
            pass
        except Exception:
            pass
        c_objs = self.__dict__.setdefault('_objs', {})
        c_objs[id(c)] = (c, R.objs)
        return [2, 1, enc_ast(node, R.objs), [R.names, R.attrs, R.calls]]

    # ------------------------------------------------------------ implementation side
    def setup(self):
        cp = wsgi.quiet_cherrypy()
        self._saved_global = dict(cp.config)
        cp.config.update({'tools.trailing_slash.on': False})
        PROBES[0] = Probes()
        os.makedirs(WORKDIR, exist_ok=True)

    def extra(self):
        """two requests for different sections overlap in time: what a handler reads from request.toolmaps / request.config
        AFTER another request went through its config stage must still be its own merged settings (every pairing of
        two sections with different arguments of one tool, both orders)"""
        import threading
        import cherrypy
        out = []

        def noop(**kw):
            pass
        cherrypy.tools.c08conc = cherrypy.Tool('before_handler', noop)
        try:
            confs = {'/a': {'tools.c08conc.on': True, 'tools.c08conc.tag': 'A', 'pk.conc': 'A'},
                     '/b': {'tools.c08conc.on': True, 'tools.c08conc.tag': 'B', 'tools.c08conc.more': 1, 'pk.conc': 'B'},
                     '/c': {'pk.conc': 'C'}}
            for first, second in (('a', 'b'), ('b', 'a'), ('a', 'c'), ('c', 'b')):
                gate_in, gate_go = threading.Event(), threading.Event()
                seen = {}

                def view():
                    tm = cherrypy.request.toolmaps.get('tools', {}).get('c08conc')
                    return {'toolmap': None if tm is None else {k: repr(v) for k, v in sorted(tm.items())},
                            'config': repr(cherrypy.request.config.get('pk.conc'))}

                def mk(name):
                    def h(self):
                        if name == first:
                            gate_in.set()
                            gate_go.wait(120)
                        seen[name] = view()
                        return name.encode()
                    h.exposed = True
                    return h
                Root = type('C08Conc', (object,), {n: mk(n) for n in 'abc'})
                app = wsgi.make_app(Root(), confs)
                t = threading.Thread(target=lambda: wsgi.call(app, 'GET', '/' + first), daemon=True)
                t.start()
                gate_in.wait(120)
                t2 = threading.Thread(target=lambda: wsgi.call(app, 'GET', '/' + second), daemon=True)
                t2.start()
                t2.join(120)
                gate_go.set()
                t.join(120)
                _c02.C02.drop_app(app)
                self.count('overlapping requests (toolmaps/config seen late)')
                for name in (first, second):
                    c = confs['/' + name]
                    exp_tm = {k.split('.', 2)[2]: repr(v) for k, v in sorted(c.items()) if k.startswith('tools.c08conc.')} or None
                    exp = {'toolmap': exp_tm, 'config': repr(c.get('pk.conc'))}
                    if seen.get(name) != exp:
                        out.append(core.Violation(
                            'overlap:settings-of-another-request',
                            'requests /%s and /%s overlapped; the handler of /%s read %r from request.toolmaps / '
                            'request.config, its own sections give %r' % (first, second, name, seen.get(name), exp),
                            case={'k': 'overlap', 'first': first, 'second': second}, observed=seen))
                        break
        finally:
            if hasattr(cherrypy.tools, 'c08conc'):
                delattr(cherrypy.tools, 'c08conc')
        return out[:1]

    def teardown(self):
        import cherrypy
        _c02.C02.drop_app(getattr(self, '_last_app', None))
        self._last_app = None
        if PROBES[0]:
            PROBES[0].remove()
            PROBES[0] = None
        dict.clear(cherrypy.config)
        dict.update(cherrypy.config, self._saved_global)
        for f in os.listdir(WORKDIR) if os.path.isdir(WORKDIR) else []:
            if f.endswith('.%d.conf' % os.getpid()):
                os.unlink(os.path.join(WORKDIR, f))

    def impl(self, c):
        self.count('family:%s' % c['k'])
        return getattr(self, 'impl_' + c['k'])(c)

    def impl_scope(self, c):
        import cherrypy
        W = self.world(c)
        CURRENT[0] = W
        W.calls, W.tool_runs, W.snap, W.disp = [], [], None, None
        app = self.app_for(W, c)
        saved = dict(cherrypy.config)
        try:
            if c['gconf']:
                cherrypy.config.update(dict(c['gconf']))
            hdrs = [] if c['method'] in ('GET', 'HEAD') else [('Content-Length', '0')]
            res = wsgi.call(app, c['method'], c['target'], hdrs)
            fcs = []
            for p, k in c['fc']:
                v = app.find_config(p, k, _MISSING)
                fcs.append(None if v is _MISSING else repr(v))
        finally:
            dict.clear(cherrypy.config)
            dict.update(cherrypy.config, saved)
            CURRENT[0] = None
        self.count('status:%s' % res['status'])
        self.count('mode:%s' % ('method' if c['mode'] else 'default'))
        self.count('segments:%d' % len(self.segs_of(c['path_info'])))
        return {'status': res['status'], 'dispatch': W.disp or {}, 'calls': W.calls, 'tool_runs': W.tool_runs,
                'snap': W.snap, 'fc': fcs, 'escaped': res['escaped']}

    def unrepr_obs(self, text):
        from cherrypy.lib import reprconf
        try:
            return {'ok': reprconf.unrepr(text)}
        except Exception as e:
            return {'err': classify_exc(e), 'exc': '%s: %s' % (type(e).__name__, e)}

    def impl_lit(self, c):
        v = realise(c['v'])
        text = repr(v)
        o = self.unrepr_obs(text)
        obs = {'repr': text, 'ast': enc_ast(ast.parse(text, mode='eval').body)}
        if 'ok' in o:
            obs['value'] = enc_value_safe(o['ok'])
            obs['equal'] = deep_eq(o['ok'], v)
        else:
            obs.update(err=o['err'], exc=o['exc'])
        return obs

    def impl_ini(self, c):
        import cherrypy
        from cherrypy.lib import reprconf
        want = {s: {k: realise(tv) for k, tv in d.items()} for s, d in c['sections'].items()}
        p = self.ini_path('ini')
        with open(p, 'w') as f:
            f.write(ini_text(want))
        how = c['how']
        saved = dict(cherrypy.config)
        got = None
        obs = {'how': how}
        app = None
        try:
            if how == 'parser':
                got = reprconf.Parser().dict_from_file(p)
            elif how == 'fileobj':
                with open(p) as f:
                    got = reprconf.Parser().dict_from_file(f)
            elif how == 'config':
                got = dict(reprconf.Config(p))
            elif how == 'app':
                app = cherrypy.Application(None, '', p)
                got = app.config
            elif how == 'appmerge':
                app = cherrypy.Application(None, '')
                app.merge({s: {k: 'overridden' for k in d} for s, d in want.items()})
                app.merge(p)
                got = app.config
            else:
                cherrypy.config.update(p)
                got = {'global': {k: cherrypy.config[k] for k in want['global'] if k in cherrypy.config}}
        except Exception as e:
            obs['exc'] = '%s: %s' % (type(e).__name__, e)
            obs['exc_args'] = [repr(a) for a in e.args]
        finally:
            dict.clear(cherrypy.config)
            dict.update(cherrypy.config, saved)
            cherrypy.engine.autoreload.files.discard(p)
            _c02.C02.drop_app(app)
            os.unlink(p)
        if got is not None:
            vals, eq = [], []
            for s, d in want.items():
                for k, v in d.items():
                    if s in got and k in got[s]:
                        vals.append(enc_value_safe(got[s][k]))
                        eq.append(deep_eq(got[s][k], v))
                    else:
                        vals.append('missing')
                        eq.append(False)
            obs['values'] = vals
            obs['equal'] = eq
            obs['extra'] = sorted('%s/%s' % (s, k) for s, d in got.items() for k in d
                                  if k not in want.get(s, {}))
        return obs

    def impl_expr(self, c):
        self.encode(c)
        objs = self._objs[id(c)][1]
        o = self.unrepr_obs(c['src'])
        obs = {'src': c['src']}
        if 'ok' in o:
            try:
                obs['value'] = enc_value(o['ok'], _Frozen(objs))
            except Unsupported as e:
                obs['value'] = 'unknown-object'
            node = ast.parse(c['src'], mode='eval').body
            if _dotted(node):
                try:
                    ref = eval(compile(ast.Expression(node), '<c08>', 'eval'),
                               {_root_name(node): importlib.import_module(_root_name(node))})
                    obs['dotted_same'] = ref is o['ok'] or deep_eq(ref, o['ok'])
                except Exception:
                    pass
        else:
            obs.update(err=o['err'], exc=o['exc'])
        return obs

    # ------------------------------------------------------------ correspondence
    def compare(self, c, mo, obs):
        if isinstance(mo, str):
            return 'model driver: %s' % mo[:60]
        return getattr(self, 'compare_' + c['k'])(c, mo, obs)

    def compare_scope(self, c, mo, obs):
        d = obs['dispatch']
        kind, vals, tools, fcs = mo
        for (p, k), m, i in zip(c['fc'], fcs, obs['fc']):
            if m == 0:
                return 'find_config model out of fuel'
            if ([] if i is None else [sx.norm(i)]) != m:
                return 'find_config(%r, %r): model %r impl %r' % (p, k, m, i)
        if d.get('path_info') != c['path_info']:
            return 'harness: dispatcher saw %r, case says %r' % (d.get('path_info'), c['path_info'])
        if kind in (4, 5):
            return 'model: oracle table miss / fuel (%d)' % kind
        if kind in (3, 6):
            if not d.get('exc') or obs['status'] != 500:
                return 'model: dispatcher raises (%d); impl exc=%r status=%r' % (kind, d.get('exc'), obs['status'])
            return None
        if d.get('exc'):
            return 'impl dispatcher raised %s, model kind %d' % (d['exc'], kind)
        if d.get('kind') != kind:
            return 'handler kind: model %d impl %r' % (kind, d.get('kind'))
        keys = self.case_keys(c)
        for k, mv in zip(keys, vals):
            iv = d['config'].get(k)
            if ([] if iv is None else [sx.norm(iv)]) != mv:
                return 'request.config[%r]: model %r impl %r' % (k, _txt(mv), iv)
        allok = all(t[0] for t in tools)
        snap = obs['snap']
        if not allok:
            if snap is not None or obs['status'] != 500 or obs['calls'] or obs['tool_runs']:
                return 'model: a toolbox raises; impl status %r snap %r' % (obs['status'], snap is not None)
            return None
        if snap is None:
            return 'impl: config namespaces raised (status %r), model: all toolboxes fine' % obs['status']
        msetups = []
        for ns, (ok, tm, setups) in zip(NSS, tools):
            mtm = {_s(t): {_s(a): _s(v) for a, v in args} for t, args in tm
                   if ns != 'tools' or _s(t).startswith('c08')}
            if mtm != snap['toolmaps'].get(ns, {}):
                return 'toolmaps[%r]: model %r impl %r' % (ns, mtm, snap['toolmaps'].get(ns))
            for t, prio, kw in setups:
                name = _s(t)
                p = _s(prio[0]) if prio else repr(PROBES[0].default_prio[(ns, name)])
                msetups.append([ns, name, p, {_s(a): _s(v) for a, v in kw}])
        if sorted(msetups, key=repr) != sorted(snap['hooks'], key=repr):
            return 'tools set up: model %r impl %r' % (sorted(msetups, key=repr), sorted(snap['hooks'], key=repr))
        runs = sorted(([ns, n, kw] for ns, n, _, kw in msetups), key=repr)
        if sorted(obs['tool_runs'], key=repr) != runs:
            return 'tools run: model %r impl %r' % (runs, obs['tool_runs'])
        return None

    def compare_lit(self, c, mo, obs):
        mast, mres, mres0 = mo
        if sx.norm(obs['ast']) != mast:
            return 'to_ast differs from ast.parse(%s): model %r real %r' % (obs['repr'], mast, sx.norm(obs['ast']))
        return self.cmp_res(mres, mres0, obs, obs['repr'])

    def cmp_res(self, mres, mres0, obs, what):
        def one(m):
            if m[0] == 6:
                return 'skip'
            if m[0] == 0:
                return 'value' in obs and obs['value'] != 'unknown-object' and sx.norm(obs['value']) == m[1]
            if m[0] == 5:
                return 'err' in obs
            return obs.get('err') == m[0]
        r = one(mres)
        if r == 'skip':
            self.count('model-declines')
            return None
        if r:
            return None
        if mres0 != mres and one(mres0) is True:
            return None          # the recorded defective behaviour (no build_Sub); the oracle reports it
        return 'unrepr(%s): model %r impl %r' % (what, mres, {k: obs[k] for k in ('value', 'err', 'exc') if k in obs})

    def compare_ini(self, c, mo, obs):
        if 'exc' in obs:
            if any(m[1][0] not in (0, 6) for m in mo):
                return None
            if any(m[2][0] == 1 and m[1][0] == 0 for m in mo) and "'Sub'" in obs['exc']:
                return None      # the recorded defective behaviour
            return 'INI load raised %s, model evaluates every value' % obs['exc'][:200]
        if obs.get('extra'):
            return 'INI load produced extra keys %r' % obs['extra']
        for m, iv in zip(mo, obs['values']):
            if m[1][0] == 6:
                self.count('model-declines')
                continue
            if m[1][0] != 0:
                return 'model: value is an error %r, impl loaded the file' % (m[1],)
            if iv == 'missing' or sx.norm(iv) != m[1][1]:
                return 'INI value: model %r impl %r' % (m[1][1], iv)
        return None

    def compare_expr(self, c, mo, obs):
        return self.cmp_res(mo[0], mo[1], obs, c['src'])

    # ------------------------------------------------------------ property oracle
    def ref_levels(self, c):
        """the reference merge written from the property text, on the case SPEC (not the real objects).
        Returns None when user dispatch code gets involved, else a list of acceptable merged dicts."""
        segs = self.segs_of(c['path_info'])
        full = segs + ['index']
        sections = {}
        for layer in c['layers']:
            for s, d in layer['sections'].items():
                sections.setdefault(s, {}).update(d)

        def conf_of(o):
            if o is None:
                return {}
            d = {}
            td = o.get('tooldec')
            if td:
                d['%s.%s.on' % (td[0], td[1])] = True
                for a, v in td[2].items():
                    d['%s.%s.%s' % (td[0], td[1], a)] = v
            d.update(o.get('conf') or {})
            return d

        def child(o, name):
            if o is None or o['t'] != 'obj':
                return None
            for n, ch in o['attrs']:
                if n == name:
                    return ch
            return None
        chain = [c['tree']]
        for i, s in enumerate(full):
            cur = chain[-1]
            nxt = child(cur, s.translate(TR))
            if nxt is None and cur is not None and cur.get('disp') and i < len(segs):
                return None
            chain.append(nxt)
        # which object handles the request (C02's rule), to place a default handler's config
        owner = None
        handler = None
        for j in range(len(chain) - 1, -1, -1):
            o = chain[j]
            if o is None:
                continue
            dflt = child(o, 'default')
            if dflt is not None and dflt['t'] == 'fn' and dflt.get('ex'):
                owner, handler = j, dflt
                break
            if (o['t'] == 'fn' and o.get('ex')) or (o['t'] == 'obj' and o.get('cex')):
                handler = o
                break
        results = []
        for default_after_section in (True, False):
            for index_section in (True, False):
                merged = dict(c['gconf'])
                for j, o in enumerate(chain):
                    prefix = '/' if j == 0 else '/' + '/'.join(full[:j])
                    merged.update(conf_of(o))
                    if owner == j and not default_after_section:
                        merged.update(conf_of(handler))
                    if j < len(chain) - 1 or index_section:
                        merged.update(sections.get(prefix, {}))
                    if owner == j and default_after_section:
                        merged.update(conf_of(handler))
                if c['mode'] and handler is not None and owner is None and handler['t'] == 'obj':
                    m = c['method'].upper()
                    f = child(handler, m) or (child(handler, 'GET') if m == 'HEAD' else None)
                    if f is not None and f['t'] == 'fn':
                        merged.update(conf_of(f))
                if merged not in results:
                    results.append(merged)
        return results

    @staticmethod
    def expected_tools(merged):
        """None when the config is malformed for the toolbox (the text does not decide)"""
        out = []
        for ns in NSS:
            tm = {}
            for k, v in merged.items():
                if k.startswith(ns + '.'):
                    parts = k.split('.', 2)
                    if len(parts) < 3:
                        return None
                    tm.setdefault(parts[1], {})[parts[2]] = v
            for t, st in tm.items():
                if st.get('on', False):
                    if (ns, t) not in PROBES[0].default_prio:
                        return None
                    kw = {a: repr(v) for a, v in st.items() if a not in ('on', 'priority')}
                    p = st.get('priority')
                    out.append([ns, t, repr(PROBES[0].default_prio[(ns, t)] if p is None else p), kw])
        return sorted(out, key=repr)

    def oracle(self, c, obs):
        return getattr(self, 'oracle_' + c['k'])(c, obs)

    def oracle_scope(self, c, obs):
        fails = []
        d = obs['dispatch']
        segs = self.segs_of(c['path_info'])
        full = segs + ['index']
        prefixes = {'/'} | {'/' + '/'.join(full[:i]) for i in range(1, len(full) + 1)}
        # find_config: value from the longest section prefix of the path
        sections = {}
        for layer in c['layers']:
            for s, dd in layer['sections'].items():
                sections.setdefault(s, {}).update(dd)
        for (p, k), got in zip(c['fc'], obs['fc']):
            t = p or '/'
            exp = None
            while True:
                if k in sections.get(t, {}):
                    exp = repr(sections[t][k])
                    break
                if t == '/' or '/' not in t:
                    break
                t = t.rsplit('/', 1)[0] or '/'
            if got != exp:
                fails.append(('find-config', 'find_config(%r, %r) gave %r, the longest section prefix that sets it gives %r'
                              % (p, k, got, exp)))
        if d.get('exc') or 'config' not in d:
            return fails
        cfg = d['config']
        for call in obs['calls']:
            if call['config'] != cfg:
                fails.append(('handler-view', 'the handler saw a different request.config than the dispatcher left'))
        # scoped: a section for another path never contributes
        for k in KEYS:
            v = cfg.get(k)
            if v and v.startswith("'S") and ':' in v:
                sec = v[1:-1].split(':', 1)[1]
                if sec not in prefixes:
                    fails.append(('section-leak', 'request %r got %s=%s from the section %r, which is not a segment '
                                  'prefix of the path' % (c['path_info'], k, v, sec)))
        refs = self.ref_levels(c)
        if refs is None:
            return fails
        ok = None
        for merged in refs:
            want = {k: repr(v) for k, v in merged.items() if relevant(k) and k != 'tools.staticdir.section'}
            have = {k: v for k, v in cfg.items() if k != 'tools.staticdir.section'}
            if want == have:
                ok = merged
                break
        if ok is None:
            merged = refs[0]
            bad = sorted(k for k in set(merged) | set(cfg) if k != 'tools.staticdir.section' and relevant(k)
                         and (repr(merged[k]) if k in merged else None) != cfg.get(k))
            k = bad[0]
            exp = repr(merged[k]) if k in merged else None
            fails.append(('merge:%s-expected-%s-got' % (_scope_kind(exp), _scope_kind(cfg.get(k))),
                          'request %r: request.config[%r] is %s, the most-specific-wins merge gives %s'
                          % (c['path_info'], k, cfg.get(k), exp)))
            return fails
        exp = self.expected_tools(ok)
        if exp is None:
            return fails
        if obs['snap'] is None:
            fails.append(('tools-setup-failed', 'config namespaces raised (status %r) for a well-formed tool config'
                          % obs['status']))
            return fails
        if sorted(obs['snap']['hooks'], key=repr) != exp:
            fails.append(('tools-setup', 'tools set up %r, the merged config turns on %r' % (obs['snap']['hooks'], exp)))
        runs = sorted(([ns, t, kw] for ns, t, _, kw in exp), key=repr)
        if sorted(obs['tool_runs'], key=repr) != runs:
            fails.append(('tools-run', 'tools that ran %r, expected %r' % (obs['tool_runs'], runs)))
        return fails

    def oracle_lit(self, c, obs):
        if obs.get('equal'):
            return []
        if 'err' in obs:
            if "'Sub'" in obs['exc']:
                return [(SUB_SIG, 'unrepr(%s) raises %s' % (obs['repr'], obs['exc']))]
            return [('unrepr-literal-error', 'unrepr(%s) raises %s' % (obs['repr'], obs['exc']))]
        return [('unrepr-literal-differs', 'unrepr(%s) is not equal to the value' % obs['repr'])]

    def oracle_ini(self, c, obs):
        if 'exc' in obs:
            if "'Sub'" in obs['exc']:
                return [(SUB_SIG, 'loading the INI file (%s) raises %s' % (c['how'], obs['exc'][:300]))]
            return [('ini-load-error', 'loading the INI file (%s) raises %s' % (c['how'], obs['exc'][:300]))]
        if not all(obs['equal']) or obs.get('extra'):
            return [('ini-value-differs', 'INI file (%s): loaded values differ from the dict' % c['how'])]
        return []

    def oracle_expr(self, c, obs):
        if obs.get('dotted_same') is False:
            return [('dotted-name', 'unrepr(%r) is not the object the dotted name denotes' % c['src'])]
        return []

    # ------------------------------------------------------------ bookkeeping
    def nontrivial(self, c, obs):
        k = c['k']
        if k == 'scope':
            d = obs['dispatch']
            cfg = d.get('config') or {}
            setters = sum(1 for v in self.case_values(c) if isinstance(v, str) and v[:1] in 'GSCH')
            winners = tuple(_scope_kind(cfg.get(x)) for x in KEYS)
            self.count('winner:%s' % winners[0])
            if setters < 2 and not obs['tool_runs']:
                return None
            pi = c['path_info']
            return ('scope', c['mode'], d.get('kind'), d.get('exc'), winners, len(obs['tool_runs']),
                    obs['snap'] is None, len(self.segs_of(pi)), pi.endswith('/'), len(c['layers']),
                    tuple(l['how'] for l in c['layers']))
        if k == 'lit':
            shape = _shape(c['v'])
            self.count('lit:%s' % shape[:1])
            if shape in ('n', 'b', 's', 'y') or (shape == 'i' and c['v'][1] >= 0):
                return None
            return ('lit', shape, obs.get('err'))
        if k == 'ini':
            return ('ini', c['how'], 'exc' in obs, len(obs.get('values', [])),
                    tuple(sorted({_shape(tv)[:1] for dd in c['sections'].values() for tv in dd.values()})))
        self.count('expr:%s' % ('err%d' % obs['err'] if 'err' in obs else 'ok'))
        return ('expr', c['src'] if len(c['src']) < 30 else hash(c['src']), obs.get('err'))

    def shrink(self, c, still_fails):
        if c['k'] == 'lit':
            changed = True
            while changed:
                changed = False
                for sub in _subvalues(c['v']):
                    c2 = {'k': 'lit', 'v': sub}
                    if still_fails(c2):
                        c, changed = c2, True
                        break
            return c
        if c['k'] == 'ini':
            items = [(s, k) for s, d in c['sections'].items() for k in d]

            def mk(its):
                secs = {}
                for s, k in its:
                    secs.setdefault(s, {})[k] = c['sections'][s][k]
                return dict(c, sections=secs)
            items = core.shrink_list(items, lambda its: bool(its) and still_fails(mk(its)))
            return mk(items)
        if c['k'] == 'scope':
            import copy
            c = copy.deepcopy(c)
            for layer in c['layers']:
                for s in list(layer['sections']):
                    saved = layer['sections'].pop(s)
                    if not still_fails(copy.deepcopy(c)):
                        layer['sections'][s] = saved
            for k in list(c['gconf']):
                saved = c['gconf'].pop(k)
                if not still_fails(copy.deepcopy(c)):
                    c['gconf'][k] = saved
            return copy.deepcopy(c)
        return c

    # ------------------------------------------------------------ G: constants of the source
    def ties(self):
        def z(s):
            return '[' + ';'.join(str(ord(ch)) for ch in s) + ']'
        src = open(os.path.join(core.REPO, 'cherrypy', 'lib', 'reprconf.py')).read()
        mod = ast.parse(src)
        B = [n for n in mod.body if isinstance(n, ast.ClassDef) and n.name == '_Builder'][0]
        meths = set()
        for n in B.body:
            if isinstance(n, ast.FunctionDef) and n.name.startswith('build_'):
                meths.add(n.name[6:])
            if isinstance(n, ast.Assign):
                for t in n.targets:
                    if isinstance(t, ast.Name) and t.id.startswith('build_'):
                        meths.add(t.id[6:])
        has_sub = 'Sub' in meths
        ops = {}
        for n in B.body:
            if isinstance(n, ast.FunctionDef) and n.name in ('build_Add', 'build_Mult', 'build_USub', 'build_Sub'):
                ops[n.name[6:]] = ast.unparse(n.body[-1].value)
        want_ops = {'Add': 'operator.add', 'Mult': 'operator.mul', 'USub': 'operator.neg'}
        if has_sub:
            want_ops['Sub'] = 'operator.sub'
        if ops != want_ops:
            raise ValueError('operator builders: %r' % ops)
        tsrc = open(os.path.join(core.REPO, 'cherrypy', '_cptools.py')).read()
        tmod = ast.parse(tsrc)
        cls = {n.name: n for n in tmod.body if isinstance(n, ast.ClassDef)}
        fns = {n.name: n for n in cls['Toolbox'].body if isinstance(n, ast.FunctionDef)}
        on_lit = None
        for n in ast.walk(fns['__exit__']):
            if isinstance(n, ast.Call) and isinstance(n.func, ast.Attribute) and n.func.attr == 'get' and \
                    ast.unparse(n.func.value) == 'settings':
                on_lit = (ast.literal_eval(n.args[0]), ast.literal_eval(n.args[1]))
        tfns = {n.name: n for n in cls['Tool'].body if isinstance(n, ast.FunctionDef)}
        del_lit = [ast.literal_eval(n.targets[0].slice) for n in ast.walk(tfns['_merged_args'])
                   if isinstance(n, ast.Delete)] + \
                  [ast.literal_eval(n.args[0]) for n in ast.walk(tfns['_merged_args'])
                   if isinstance(n, ast.Call) and isinstance(n.func, ast.Attribute) and n.func.attr == 'pop']
        pop_lit = [ast.literal_eval(n.args[0]) for n in ast.walk(tfns['_setup'])
                   if isinstance(n, ast.Call) and isinstance(n.func, ast.Attribute) and n.func.attr == 'pop']
        if on_lit is None or on_lit[1] is not False or len(del_lit) != 1 or len(pop_lit) != 1:
            raise ValueError('Toolbox/Tool literals: %r %r %r' % (on_lit, del_lit, pop_lit))
        text = '\n'.join([
            'From Coq Require Import ZArith List.', 'Import ListNotations.',
            'From CV Require Import Lib.Sx Model.M_dispatch Model.M_unrepr Model.M_config.', 'Open Scope Z_scope.',
            'Lemma tie_builder : builder_methods (Cfg %s) = [%s].' % ('true' if has_sub else 'false',
                                                                    '; '.join(z(m) for m in sorted(meths))),
            'Proof. vm_compute. reflexivity. Qed.',
            'Lemma tie_tool_literals : (s_on, s_on, s_priority) = (%s, %s, %s).'
            % (z(on_lit[0]), z(del_lit[0]), z(pop_lit[0])),
            'Proof. vm_compute. reflexivity. Qed.', ''])
        ok, out = core.coq_check_text('Tie_C08', text)
        return [core.Obligation('G:tie_builder (the build_ methods of _Builder = the node classes of the model%s)'
                                % ('' if has_sub else '; the source has no build_Sub'), ok, '' if ok else out),
                core.Obligation('G:tie_tool_literals (on / priority in Toolbox.__exit__, Tool._merged_args, _setup)',
                                ok, '' if ok else out)]


_MISSING = object()


class _Frozen:
    """object table that does not grow: an object the reference evaluation never met is 'unknown'"""

    def __init__(self, objs):
        self.objs = objs

    def ident(self, o):
        k = id(o)
        if k not in self.objs.tab:
            raise Unsupported('unknown object')
        return self.objs.tab[k]


def enc_value_safe(v):
    try:
        return enc_value(v)
    except Unsupported:
        return 'unknown-object'


def _dotted(n):
    if isinstance(n, ast.Name):
        return n.id not in ('None', 'True', 'False')
    return isinstance(n, ast.Attribute) and _dotted(n.value)


def _root_name(n):
    while isinstance(n, ast.Attribute):
        n = n.value
    return n.id


def _s(codes):
    return ''.join(chr(x) for x in codes)


def _txt(mv):
    return _s(mv[0]) if mv else None


def _scope_kind(tok):
    if tok is None:
        return 'none'
    t = tok.strip("'")
    return {'G': 'global', 'S': 'section', 'C': 'class', 'H': 'handler'}.get(t[:1], 'other')


def _shape(tv):
    t = tv[0]
    if t in ('l', 't'):
        return t + '(' + ''.join(sorted({_shape(x)[:1] for x in tv[1]})) + ')'
    if t == 'd':
        return 'd(' + ''.join(sorted({_shape(v)[:1] for _, v in tv[1]})) + ')'
    if t == 'f':
        return 'f-' if tv[1].startswith('-') else 'f'
    if t == 'c':
        return 'c' + ('-' if tv[1].startswith('-') else '+') + ('-' if tv[2].startswith('-') else '+')
    return t


def _subvalues(tv):
    if tv[0] in ('l', 't'):
        for x in tv[1]:
            yield x
        for i in range(len(tv[1])):
            yield [tv[0], tv[1][:i] + tv[1][i + 1:]]
    elif tv[0] == 'd':
        for k, v in tv[1]:
            yield k
            yield v
        for i in range(len(tv[1])):
            yield ['d', tv[1][:i] + tv[1][i + 1:]]


CHECK = C08
