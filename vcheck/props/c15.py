"""C15 - cached responses are genuine, fresh and never cross Vary variants.

Histories of requests / clock steps / expiry sweeps are run through the extracted model
(coq/Model/M_cache.v) and through the real caching tool (in-process WSGI calls); the clock of
the real code is patched from outside, the expiry thread is never started: one pass of the
real ``MemoryCache.expire_cache`` loop body is executed in the calling thread per ``sweep``."""
import os
import threading

from .. import core, sx
from ..impl import wsgi

METH = {'GET': 0, 'HEAD': 1, 'POST': 2, 'PUT': 3, 'DELETE': 4}
SEL = ['X-A', 'X-B', 'X-C']
BASE = 1000000.0
DATES = {'A': 'Mon, 01 Jan 2001 00:00:00 GMT', 'B': 'Tue, 02 Jan 2001 00:00:00 GMT'}
DATE_ID = {None: 0, 'A': 1, 'B': 2}
BIG = {'maxobjects': 1000, 'maxobj_size': 100000, 'maxsize': 10000000}

# model variant flags passed by encode(): (keyfix, agefix, expfix).  The check asks for the
# REPAIRED behaviour of the two defects that contradict the property (variant key, max-age).
# The expiry-bucket key (header NAMES as written, so the expiry thread never removes a Vary'd
# variant) does not contradict the property text: setup() probes which of the two behaviours the
# tree has and the model follows it (noted in the evidence).
# VERIF_C15_VARIANT=aswritten selects the faithful model of the unrepaired code (development aid).
ASWRITTEN = os.environ.get('VERIF_C15_VARIANT') == 'aswritten'


class _StopSweep(Exception):
    pass


class _Clock:
    """stands in for the ``time`` module inside cherrypy._cprequest and cherrypy.lib.caching"""

    def __init__(self):
        import time as _t
        self._t = _t
        self.now = BASE

    def time(self):
        return self.now

    def sleep(self, s):
        raise _StopSweep()

    def __getattr__(self, k):
        return getattr(self._t, k)

    def __bool__(self):
        return True


class _NoThread:
    """threading.Thread replacement inside cherrypy.lib.caching: never starts anything"""
    started = 0

    def __init__(self, *a, **k):
        self.daemon = False

    def start(self):
        _NoThread.started += 1


class _Threading:
    Thread = _NoThread
    Event = threading.Event


class _H:
    """shared between the harness and the page handler"""
    calls = 0
    plan = None
    vary = None
    produced = None
    flags = None


def make_body(g, size):
    unit = ('%d;' % g).encode()
    return (unit * (size // len(unit) + 1))[:size]


def _page(self, **kw):
    import cherrypy
    _H.calls += 1
    g = _H.calls
    p = _H.plan
    resp = cherrypy.serving.response
    resp.headers['X-Gen'] = str(g)
    if _H.vary:
        resp.headers['Vary'] = ', '.join(_H.vary)
    if p['rpragma']:
        resp.headers['Pragma'] = ', '.join(p['rpragma'])
    if p['rcc']:
        resp.headers['Cache-Control'] = ', '.join(p['rcc'])
    if p.get('lastmod'):
        resp.headers['Last-Modified'] = DATES[p['lastmod']]
    resp.status = p['status']
    body = make_body(g, p['size'])
    _H.produced[g] = body
    return body


def _record():
    import cherrypy
    _H.flags.append(getattr(cherrypy.serving.request, 'cached', None))


def uri_of(rq):
    """what cherrypy.url(qs=request.query_string) distinguishes: path and non-empty query"""
    return rq['path'] + ('?' + rq['qs'] if rq['qs'] else '')


def vary_of(case, rq):
    v = rq['plan'].get('vary')
    return case['vary'].get(rq['path'], []) if v is None else v


class C15(core.Check):
    pid = 'C15'
    props_files = ('Props/C15.v',)
    refuted_files = ('Refuted/R_C15.v',)
    model_fn = ('run_C15', 'Model.M_cache')
    xcheck_n = 30
    rule = ('random structured histories (<= 60 operations) of requests, clock steps and expiry sweeps over '
            '1..4 URL paths x query strings x {GET, HEAD, POST, PUT, DELETE} x values of 0..3 Vary-selected '
            'headers (permutations across headers, absent values, values equal to header names) x request '
            'Pragma/Cache-Control elements (no-cache, no-store, max-age around the delay, malformed max-age, '
            'combinations) x handler plans (status, body size incl. empty, response Pragma/Cache-Control) x '
            'clock steps around delay and max-age boundaries in 1, 1/2 or 1/4 s ticks x maxobjects/maxobj_size/'
            'maxsize limits; plus (thorough) all histories of <= 4 requests over a small alphabet; a history is '
            'non-trivial when at least one response was served from the cache; distinct by the sequence of '
            '(method, outcome, directives class)')
    assumptions = (
        "a URL's Vary list is constant (documented assumption of MemoryCache); generated histories respect it",
        'sequential histories only: AntiStampedeCache waiting between threads (the schedules part of the '
        'quantifier) is not modelled; antistampede_timeout=0 so a stale placeholder does not stall',
        'freshness is judged in whole seconds, as the Age header is: floor(now - created) <= min(delay, max-age)',
        'an absent selecting header and an empty one are the same value (request.headers.get(h, ""))',
        'cherrypy.url() is not anchored: the model receives path[?query] as the URI',
        'the handler sets Vary/Pragma/Cache-Control/status on cherrypy.response and returns bytes; statuses '
        '200/203/404 (body-carrying); Last-Modified / If-(Un)Modified-Since are two fixed date strings (the code '
        'compares them as strings); 304/412 answered from a stored variant are compared with the model but are '
        'not judged by the oracle as "served from the cache" (the property text speaks of served responses)',
    )

    # ------------------------------------------------------------------- ties
    def ties(self):
        """G: constants of the anchored functions, re-read from the sources with ast, equal the model's:
        the invalidating methods (default of caching.get) and the directive / element strings that
        caching.get and tee_output compare against.  Deliberately insensitive to how the tests are
        written (the differential runs cover that)."""
        import ast
        src = open(os.path.join(core.REPO, 'cherrypy', 'lib', 'caching.py')).read()
        tree = ast.parse(src)
        fns = {n.name: n for n in tree.body if isinstance(n, ast.FunctionDef)}
        get, tee = fns['get'], fns['tee_output']
        names = [a.arg for a in get.args.args]
        dflt = get.args.defaults[names.index('invalid_methods') - (len(names) - len(get.args.defaults))]
        invalid = [e.value for e in dflt.elts]
        extra = [m for m in invalid if m not in METH]
        if extra:
            raise ValueError('invalidating methods outside the modelled set: %r' % extra)
        flags = ['true' if m in invalid else 'false' for m in ('GET', 'HEAD', 'POST', 'PUT', 'DELETE')]

        def consts(fn):
            doc = ast.get_docstring(fn)
            return sorted({n.value for n in ast.walk(fn) if isinstance(n, ast.Constant) and isinstance(n.value, str)
                           and n.value != doc and n.value.startswith(('max-', 'no-'))})
        cget, ctee = consts(get), consts(tee)

        def cs(x):
            return '[' + ';'.join(str(ord(ch)) for ch in x) + ']'
        text = '\n'.join([
            'From Coq Require Import ZArith List Bool.', 'Import ListNotations.',
            'From CV Require Import Lib.Sx Lib.ListZ Model.M_cache.', 'Open Scope Z_scope.',
            '(* generated from %s *)' % os.path.join(core.REPO, 'cherrypy/lib/caching.py'),
            'Lemma tie_invalid_methods : map is_invalidating [0;1;2;3;4] = [%s].' % ';'.join(flags),
            'Proof. vm_compute. reflexivity. Qed.',
            '(* max-*/no-* string constants of caching.get, sorted *)',
            'Lemma tie_get_strings : [s_max_age; s_no_cache] = [%s].' % '; '.join(cs(x) for x in cget),
            'Proof. vm_compute. reflexivity. Qed.',
            '(* max-*/no-* string constants of tee_output, sorted *)',
            'Lemma tie_tee_strings : [s_no_cache; s_no_store] = [%s].' % '; '.join(cs(x) for x in ctee),
            'Proof. vm_compute. reflexivity. Qed.', ''])
        ok, out = core.coq_check_text('Tie_C15', text)
        return [core.Obligation('tie:constants(invalid_methods=%r, get strings=%r, tee_output strings=%r) = model'
                                % (invalid, cget, ctee), ok, '' if ok else out)]

    # ------------------------------------------------------------------ setup
    def setup(self):
        self.cherrypy = cherrypy = wsgi.quiet_cherrypy()
        from cherrypy.lib import caching
        import cherrypy._cprequest as cpr
        self.caching, self.cpr = caching, cpr
        self.saved = (cpr.time, caching.time, caching.threading)
        self.clock = _Clock()
        cpr.time = self.clock
        caching.time = self.clock
        caching.threading = _Threading
        _NoThread.started = 0
        root = type('Root', (object,), {})()
        for i in range(4):
            setattr(type(root), 'r%d' % i, cherrypy.expose(_page))
        self.root = root
        self.apps = {}
        if hasattr(cherrypy, '_cache'):
            del cherrypy._cache
        self.flags = [0, 0, 0] if ASWRITTEN else [1, 1, 0]
        probe = {'cfg': dict(BIG, delay=1, tps=1), 'vary': {'/r0': ['X-A']},
                 'ops': [['req', {'m': 'GET', 'path': '/r0', 'qs': '', 'h': {'X-A': '1'}, 'pragma': [], 'cc': [],
                                  'plan': {'status': 200, 'size': 3, 'rpragma': [], 'rcc': []}}],
                         ['tick', 2], ['sweep']]}
        left = self.impl(probe)['final'][2]
        self.flags[2] = 0 if left else 1
        self.notes.append('expiry sweep removes a Vary-selected variant: %s (%s)' % (
            'no' if left else 'yes', 'buckets hold the selecting header NAMES, as written' if left
            else 'buckets hold the variant key'))
        self.notes.append('model variant flags (keyfix, agefix, expfix) = %r' % (tuple(self.flags),))

    def teardown(self):
        cherrypy = getattr(self, 'cherrypy', None)
        if cherrypy is None:
            return
        if hasattr(cherrypy, '_cache'):
            del cherrypy._cache
        self.cpr.time, self.caching.time, self.caching.threading = self.saved
        alive = [t for t in threading.enumerate() if t.name == 'expire_cache']
        if alive:
            self.notes.append('LEAKED expiry threads: %d' % len(alive))

    def app_for(self, cfg):
        k = (cfg['delay'], cfg['maxobjects'], cfg['maxobj_size'], cfg['maxsize'])
        app = self.apps.get(k)
        if app is None:
            conf = {'/': {'tools.caching.on': True, 'tools.caching.delay': cfg['delay'],
                          'tools.caching.maxobjects': cfg['maxobjects'],
                          'tools.caching.maxobj_size': cfg['maxobj_size'],
                          'tools.caching.maxsize': cfg['maxsize'],
                          'tools.caching.antistampede_timeout': 0,
                          'hooks.on_end_request': _record}}
            app = self.apps[k] = self.cherrypy.Application(self.root, '', conf)
        return app

    def extra(self):
        """a handler whose body iterator yields part of the body and then fails: no 200 response with that body ever
        existed, so a later GET of the same URL must reach the handler again and never be answered with the truncated
        body from the cache (both ways the tee can be what drains the body: streamed, and not streamed with
        tools.encode off).  Oracle only."""
        cherrypy = self.cherrypy
        out = []
        calls = []

        class Root:
            @cherrypy.expose
            def page(self, **kw):
                calls.append(1)
                n = len(calls)
                fail = kw.get('fail') == '1' and n == 1

                def body():
                    yield ('head of generation %d|' % n).encode()
                    if fail:
                        raise ValueError('fault in mid-body')
                    yield ('tail of generation %d' % n).encode()
                return body()
        for stream in (False, True):
            if hasattr(cherrypy, '_cache'):
                del cherrypy._cache
            del calls[:]
            conf = {'/': {'tools.caching.on': True, 'tools.caching.delay': 600, 'tools.caching.antistampede_timeout': 0,
                          'tools.encode.on': False, 'response.stream': stream, 'request.show_tracebacks': False}}
            app = cherrypy.Application(Root(), '', conf)
            self.clock.now = BASE
            r1 = wsgi.call(app, 'GET', '/page?fail=1', [])
            self.clock.now = BASE + 1
            r2 = wsgi.call(app, 'GET', '/page?fail=1', [])
            self.count('mid-body fault then GET (%s)' % ('streamed' if stream else 'not streamed'))
            full2 = b'head of generation 2|tail of generation 2'
            obs = {'first': [r1['status'], r1['body'].decode('latin-1')[:80]],
                   'second': [r2['status'], r2['body'].decode('latin-1')[:80], wsgi.header(r2, 'Age')],
                   'handler_calls': len(calls)}
            if len(calls) != 2 or r2['status'] != 200 or r2['body'] != full2:
                out.append(core.Violation(
                    'truncated-response-cached',
                    'the body iterator of GET /page failed after its first chunk (%s); the next GET was answered %s %r '
                    '(Age %s) with %d handler calls in all: a response the handler never completed was served from '
                    'the cache' % ('streamed' if stream else 'not streamed, tools.encode off', r2['status'],
                                   r2['body'][:60], wsgi.header(r2, 'Age'), len(calls)),
                    case={'k': 'mid-body-fault', 'stream': stream}, observed=obs))
                break
        if hasattr(cherrypy, '_cache'):
            del cherrypy._cache
        return out

    # ------------------------------------------------------------- generation
    def gen_cc(self, rng, delay):
        r = rng.random()
        if r < .62:
            return []
        ma = 'max-age=%d' % rng.choice([0, 1, max(0, delay - 1), delay, delay + 1, delay + 2, 2 * delay + 3, 100])
        pool = [[ma], [ma], [ma], [ma], ['no-cache'], ['no-cache'], ['no-store'], ['no-store'],
                ['max-age=x'], ['max-age'], ['max-age='], [ma, 'no-cache'], ['no-cache', 'max-age=zz'],
                ['private'], ['private', ma], ['no-store', ma], ['no-store', 'no-cache'], ['no-cache=x'],
                ['only-if-cached', ma], ['max-age=007'], ['max-age=2', 'max-age=10'], ['max-stale', 'no-store']]
        cc = list(rng.choice(pool))
        rng.shuffle(cc)
        return cc

    def gen_plan(self, rng, cfg):
        sizes = [1, 2, 3, 5, 8, 12]
        if cfg['maxobj_size'] < 1000:
            sizes += [cfg['maxobj_size'] - 1, cfg['maxobj_size'], cfg['maxobj_size'] + 1]
        if cfg['maxsize'] < 1000:
            sizes += [cfg['maxsize'] // 2, cfg['maxsize'] - 1]
        size = 0 if rng.random() < .04 else max(1, rng.choice(sizes))
        r = rng.random()
        rpragma, rcc = [], []
        if r < .06:
            rcc = rng.choice([['no-store'], ['no-store'], ['private', 'no-store'], ['no-cache'], ['max-age=5']])
        elif r < .10:
            rpragma = rng.choice([['no-cache'], ['no-cache'], ['x', 'no-cache'], ['x']])
        return {'status': rng.choice([200, 200, 200, 200, 203, 404]), 'size': size, 'rpragma': rpragma, 'rcc': rcc,
                'lastmod': rng.choice([None, None, None, 'A', 'A', 'B'])}

    def gen_case(self, rng, maxlen=60):
        tps = rng.choice([1, 1, 2, 4])
        delay = rng.choice([0, 1, 2, 2, 3, 3, 5, 10, 10])
        cfg = dict(BIG, delay=delay, tps=tps)
        lim = rng.random()
        if lim < .12:
            cfg['maxobjects'] = rng.choice([1, 2, 3, 4])
        elif lim < .22:
            cfg['maxobj_size'] = rng.choice([3, 6, 9])
        elif lim < .32:
            cfg['maxsize'] = rng.choice([8, 16, 30])
        npath = rng.choice([1, 1, 2, 2, 3, 4])
        paths = ['/r%d' % i for i in range(npath)]
        qss = rng.sample(['', '', 'a=1', 'a=2', 'a=1&b=2', 'b=2&a=1'], rng.choice([1, 1, 2, 3]))
        vary = {}
        for p in paths:
            k = rng.choice([0, 1, 2, 2, 2, 3])
            vary[p] = rng.sample(SEL, k)
        vals = ['1', '2', '3'] if rng.random() < .5 else ['1', '2']
        if rng.random() < .3:
            # values that differ only in parameters, qvalues, element order or blanks: still DIFFERENT values of
            # the selecting header (a cache key built from parsed header elements would merge them)
            vals = rng.sample(['gzip', 'gzip;q=0', 'gzip;q=0.5', 'gzip, deflate', 'deflate, gzip', 'gzip,deflate',
                               'a;x=1', 'a;x=2', 'a', 'a ;x=1', 'A'], rng.choice([2, 3, 4]))
            self.count('structured-selecting-values')
        if rng.random() < .08:
            vals = vals + rng.sample(SEL, 1)
        base = {h: rng.choice(vals) for h in SEL}
        ops = []
        seen = []
        n = rng.randrange(3, maxlen + 1) if rng.random() < .8 else rng.randrange(3, 9)
        while len(ops) < n:
            r = rng.random()
            if r < .22:
                steps = [0, 1, 1, 1, tps - 1, tps, tps, delay * tps - 1, delay * tps, delay * tps + 1,
                         (delay + 1) * tps - 1, (delay + 1) * tps, (delay + 2) * tps, max(1, delay * tps // 2)]
                ops.append(['tick', max(0, rng.choice(steps))])
            elif r < .30:
                ops.append(['sweep'])
            else:
                m = rng.choice(['GET'] * 14 + ['HEAD'] * 3 + ['POST', 'PUT', 'DELETE'])
                path = rng.choice(paths)
                # selecting headers: a permutation / perturbation of the base assignment
                hv = dict(base)
                k = rng.random()
                if k < .35:
                    perm = SEL[:]
                    rng.shuffle(perm)
                    hv = {h: base[q] for h, q in zip(SEL, perm)}
                elif k < .55:
                    hv[rng.choice(SEL)] = rng.choice(vals)
                if rng.random() < .25:
                    hv.pop(rng.choice(SEL))
                if rng.random() < .08:
                    hv = {}
                pragma = []
                if rng.random() < .07:
                    pragma = rng.choice([['no-cache'], ['no-cache'], ['x', 'no-cache'], ['x']])
                qs = rng.choice(qss)
                if seen and rng.random() < .5:
                    # revisit an earlier request's URL and selecting headers (possibly permuted across headers)
                    path, qs, hv = rng.choice(seen)
                    hv = dict(hv)
                    if rng.random() < .2 and len(hv) >= 2:
                        ks = sorted(hv)
                        a, b = rng.sample(ks, 2)
                        hv[a], hv[b] = hv[b], hv[a]
                rq = {'m': m, 'path': path, 'qs': qs, 'h': hv, 'pragma': pragma,
                      'cc': self.gen_cc(rng, delay), 'plan': self.gen_plan(rng, cfg),
                      'ims': rng.choice([None] * 8 + ['A', 'A', 'B']), 'ius': rng.choice([None] * 12 + ['A', 'B'])}
                seen.append((path, qs, hv))
                ops.append(['req', rq])
        return {'cfg': cfg, 'vary': vary, 'ops': ops}

    def exhaustive(self):
        """all histories of <= 4 steps over a small alphabet: one URL with Vary X-A, X-B, two value
        assignments that are permutations of each other, GET/POST, no-cache, max-age beyond delay, clock step"""
        import itertools
        plan = {'status': 200, 'size': 3, 'rpragma': [], 'rcc': []}

        def rq(m, a, b, cc=(), pragma=(), plan=plan, qs=''):
            return ['req', {'m': m, 'path': '/r0', 'qs': qs, 'h': {'X-A': a, 'X-B': b}, 'pragma': list(pragma),
                            'cc': list(cc), 'plan': dict(plan)}]
        alpha = [rq('GET', '1', '2'), rq('GET', '2', '1'), rq('HEAD', '1', '2'), rq('POST', '1', '2'),
                 rq('GET', '1', '2', cc=['no-cache']), rq('GET', '1', '2', pragma=['no-cache']),
                 rq('GET', '1', '2', cc=['max-age=9']), rq('GET', '1', '2', cc=['max-age=1']),
                 rq('GET', '1', '2', cc=['no-store']), rq('GET', '1', '2', plan=dict(plan, rcc=['no-store'])),
                 rq('GET', '1', '2', plan=dict(plan, size=0)), rq('GET', '1', '2', qs='a=1'),
                 ['tick', 2], ['tick', 3], ['sweep']]
        for vary in (['X-A', 'X-B'], []):
            for L in (2, 3, 4):
                for ops in itertools.product(alpha, repeat=L):
                    if not any(o[0] == 'req' for o in ops[1:]):
                        continue
                    yield {'cfg': dict(BIG, delay=2, tps=1), 'vary': {'/r0': vary},
                           'ops': [list(o) if o[0] != 'req' else ['req', dict(o[1])] for o in ops]}

    def cases(self):
        n = 2400 if self.tier == 'quick' else 14000
        out = [self.gen_case(self.rng) for _ in range(n)]
        out += [self.gen_case(self.rng, maxlen=8) for _ in range(n // 2)]
        if self.tier == 'thorough':
            ex = list(self.exhaustive())
            self.count('exhaustive_histories', len(ex))
            out += ex
        return out

    def search_cases(self, around=None):
        for c in around or []:
            yield c
        for _ in range(3000):
            yield self.gen_case(self.rng, maxlen=12)

    # ------------------------------------------------------------- model side
    def encode(self, c):
        cfg = c['cfg']
        ops = []
        for o in c['ops']:
            if o[0] == 'req':
                rq = o[1]
                p = rq['plan']
                ops.append([0, METH[rq['m']], uri_of(rq), [[k, v] for k, v in sorted(rq['h'].items())],
                            list(rq['pragma']), list(rq['cc']),
                            [p['status'], p['size'], list(vary_of(c, rq)), list(p['rpragma']), list(p['rcc']),
                             DATE_ID[p.get('lastmod')]], DATE_ID[rq.get('ims')], DATE_ID[rq.get('ius')]])
            elif o[0] == 'tick':
                ops.append([1, o[1]])
            else:
                ops.append([2])
        return [[cfg['delay'], cfg['maxobjects'], cfg['maxobj_size'], cfg['maxsize'], cfg['tps'],
                 self.flags[0], self.flags[1], self.flags[2]], ops]

    # ----------------------------------------------------- implementation side
    def impl(self, c):
        cherrypy = self.cherrypy
        cfg = c['cfg']
        if hasattr(cherrypy, '_cache'):
            del cherrypy._cache
        app = self.app_for(cfg)
        _H.calls = 0
        _H.produced = {}
        _H.flags = []
        ticks = 0
        self.clock.now = BASE
        outs = []
        for o in c['ops']:
            if o[0] == 'tick':
                ticks += max(0, o[1])
                self.clock.now = BASE + ticks / cfg['tps']
                outs.append(None)
            elif o[0] == 'sweep':
                cache = getattr(cherrypy, '_cache', None)
                if cache is not None:
                    try:
                        cache.expire_cache()
                    except _StopSweep:
                        pass
                outs.append(None)
            else:
                rq = o[1]
                _H.plan = rq['plan']
                _H.vary = vary_of(c, rq)
                before = _H.calls
                nfl = len(_H.flags)
                hs = [(k, v) for k, v in sorted(rq['h'].items())]
                if rq['pragma']:
                    hs.append(('Pragma', ', '.join(rq['pragma'])))
                if rq['cc']:
                    hs.append(('Cache-Control', ', '.join(rq['cc'])))
                if rq.get('ims'):
                    hs.append(('If-Modified-Since', DATES[rq['ims']]))
                if rq.get('ius'):
                    hs.append(('If-Unmodified-Since', DATES[rq['ius']]))
                if rq['m'] in ('POST', 'PUT'):
                    hs.append(('Content-Length', '0'))
                target = rq['path'] + ('?' + rq['qs'] if rq['qs'] or rq.get('qmark') else '')
                res = wsgi.call(app, rq['m'], target, hs)
                gen = wsgi.header(res, 'X-Gen')
                outs.append({
                    'status': res['status'], 'called': _H.calls - before,
                    'gen': int(gen) if gen and gen.isdigit() else None,
                    'age': wsgi.header(res, 'Age'),
                    'cached': _H.flags[nfl] if len(_H.flags) > nfl else None,
                    'headers': sorted([k, v] for k, v in res['headers'] if k.lower() != 'age'),
                    'body': res['body'],
                    'made': _H.produced.get(_H.calls) if _H.calls > before else None,
                    'escaped': res['escaped'], 't': ticks})
        cache = getattr(cherrypy, '_cache', None)
        final = None
        if cache is not None:
            nv = ne = 0
            for uc in cache.store.values():
                for v in uc.values():
                    if isinstance(v, threading.Event):
                        ne += 1
                    else:
                        nv += 1
            final = [cache.cursize, len(cache.store), nv, ne, len(cache.expirations),
                     sum(len(b) for b in cache.expirations.values()), _H.calls]
        else:
            final = [0, 0, 0, 0, 0, 0, _H.calls]
        return {'outs': outs, 'final': final, 'threads_started': _NoThread.started}

    def compare(self, c, mo, obs):
        m_outs = mo[0]
        if len(m_outs) != len(obs['outs']):
            return 'number of operations: model %d impl %d' % (len(m_outs), len(obs['outs']))
        for i, (m, o) in enumerate(zip(m_outs, obs['outs'])):
            if o is None:
                continue
            if not m:
                return 'op %d: model has no request outcome' % i
            kind, g, age, fl, st, size = m
            if o['escaped']:
                return 'op %d: exception reached the server: %s' % (i, o['escaped'])
            ikind = 0 if o['called'] == 1 else {400: 2, 304: 3, 412: 4}.get(o['status'], 1)
            if o['called'] not in (0, 1):
                return 'op %d: handler called %d times' % (i, o['called'])
            if kind != ikind:
                return 'op %d (%s): outcome model %s impl %s' % (i, c['ops'][i][1]['m'],
                                                                  'miss hit 400 304 412'.split()[kind],
                                                                  'miss hit 400 304 412'.split()[ikind])
            if kind == 2:
                if o['cached'] is not True:
                    return 'op %d: request.cached on the 400 path: %r' % (i, o['cached'])
                continue
            if o['gen'] != g:
                return 'op %d: generation model %r impl %r' % (i, g, o['gen'])
            if bool(fl) != bool(o['cached']) or o['cached'] is None:
                return 'op %d: request.cached model %r impl %r' % (i, bool(fl), o['cached'])
            if kind == 4:
                continue
            if kind == 3:
                if o['age'] != str(age) or o['body']:
                    return 'op %d: 304 from the cache: Age model %r impl %r, body %r' % (i, age, o['age'], o['body'][:20])
                continue
            if kind == 1:
                if o['age'] != str(age):
                    return 'op %d: Age model %r impl %r' % (i, age, o['age'])
                if o['status'] != st:
                    return 'op %d: status of the hit model %r impl %r' % (i, st, o['status'])
                if c['ops'][i][1]['m'] == 'GET' and len(o['body']) != size:
                    return 'op %d: body length of the hit model %r impl %r' % (i, size, len(o['body']))
            else:
                if o['age'] is not None:
                    return 'op %d: Age header on a miss: %r' % (i, o['age'])
                if o['status'] != c['ops'][i][1]['plan']['status']:
                    return 'op %d: status of a handler response: %r' % (i, o['status'])
        if list(mo[1:]) != list(obs['final']):
            return ('final cache state (cursize, |store|, variants, placeholders, buckets, bucket objects, calls): '
                    'model %r impl %r' % (list(mo[1:]), obs['final']))
        if obs['threads_started'] and not hasattr(self, '_thr_noted'):
            self._thr_noted = True
            self.notes.append('expiry thread starts intercepted (never started): yes')
        return None

    # --------------------------------------------------------- property oracle
    def oracle(self, c, obs):
        cfg = c['cfg']
        tps, delay = cfg['tps'], cfg['delay']
        fails = []
        prod = {}            # generation -> (index, request, ticks, observation)
        pending = {}         # uri -> (index, method) of an invalidating request not yet followed by GET/HEAD
        for i, (o, ob) in enumerate(zip(c['ops'], obs['outs'])):
            if o[0] != 'req' or ob is None:
                continue
            rq = o[1]
            uri = uri_of(rq)
            m = rq['m']
            called = ob['called'] > 0
            if called and ob['gen'] is not None:
                prod[ob['gen']] = (i, rq, ob['t'], ob)
            if m in ('POST', 'PUT', 'DELETE'):
                if ob['status'] is not None and ob['status'] < 500 and ob['status'] != 411:
                    pending[uri] = (i, m)
                continue
            if m not in ('GET', 'HEAD'):
                continue
            inv = pending.pop(uri, None)
            if inv is not None and not called:
                fails.append(('invalidation:%s' % inv[1],
                              'op %d: %s %s after %s (op %d) on the same URL did not reach the handler'
                              % (i, m, uri, inv[1], inv[0])))
            if m == 'GET' and not called:
                if 'no-cache' in rq['pragma']:
                    fails.append(('nocache:pragma', 'op %d: GET with Pragma: no-cache did not reach the handler' % i))
                if 'no-cache' in rq['cc']:
                    fails.append(('nocache:cache-control',
                                  'op %d: GET with Cache-Control: no-cache did not reach the handler' % i))
            served = (not called) and ob['status'] is not None and ob['status'] not in (400, 304, 412) \
                and not ob['escaped']
            if not served:
                continue
            self.count('hits_judged')
            p = prod.get(ob['gen'])
            if p is None:
                fails.append(('genuine:unknown-generation',
                              'op %d: response without a handler call carries generation %r that no handler call '
                              'produced' % (i, ob['gen'])))
                continue
            pi, prq, pt, pob = p
            if uri_of(prq) != uri:
                fails.append(('genuine:other-url', 'op %d: %s served the response made for %s (op %d)'
                              % (i, uri, uri_of(prq), pi)))
            vary = [k for k, v in ob['headers'] if k.lower() == 'vary']
            names = []
            for k, v in ob['headers']:
                if k.lower() == 'vary':
                    names += [x.strip() for x in v.split(',') if x.strip()]
            for h in names:
                if rq['h'].get(h, '') != prq['h'].get(h, ''):
                    fails.append(('genuine:vary-variant-crossed',
                                  'op %d: request with %s=%r was served the response the handler made (op %d) for '
                                  '%s=%r; Vary: %s; request headers %r vs %r'
                                  % (i, h, rq['h'].get(h, ''), pi, h, prq['h'].get(h, ''), ', '.join(names),
                                     rq['h'], prq['h'])))
                    break
            if ob['status'] != pob['status'] or ob['headers'] != pob['headers'] or \
                    (m == 'GET' and ob['body'] != pob['made']):
                fails.append(('genuine:altered', 'op %d: cached response differs in status/headers/body from the '
                              'one the handler produced at op %d' % (i, pi)))
            # freshness, in whole seconds
            age = (ob['t'] - pt) // tps
            mas = [int(e[8:]) for e in rq['cc'] if e.startswith('max-age=') and e[8:].isdigit() and e[8:].isascii()]
            if age > delay:
                if mas and min(mas) >= age:
                    fails.append(('fresh:max-age-extends-delay',
                                  'op %d: response produced %d s ago served although delay=%d (request max-age=%d '
                                  'is larger and must not extend it)' % (i, age, delay, min(mas))))
                else:
                    fails.append(('fresh:older-than-delay', 'op %d: response produced %d s ago served, delay=%d'
                                  % (i, age, delay)))
            elif mas and age > min(mas):
                fails.append(('fresh:older-than-max-age', 'op %d: response produced %d s ago served to a request '
                              'with max-age=%d' % (i, age, min(mas))))
            if ob['age'] != str(age):
                fails.append(('age-header', 'op %d: Age %r, elapsed whole seconds %d' % (i, ob['age'], age)))
            if 'no-store' in prq['cc']:
                fails.append(('nostore:request', 'op %d: served a response that was made for a request marked '
                              'no-store (op %d)' % (i, pi)))
            if 'no-store' in prq['plan']['rcc']:
                fails.append(('nostore:response', 'op %d: served a response the handler marked Cache-Control: '
                              'no-store (op %d)' % (i, pi)))
        return fails

    def nontrivial(self, c, obs):
        key = []
        hit = False
        for o, ob in zip(c['ops'], obs['outs']):
            if o[0] != 'req':
                key.append(o[0])
                continue
            rq = o[1]
            kind = 'miss' if ob['called'] else {400: '400', 304: '304', 412: '412'}.get(ob['status'], 'hit')
            hit = hit or kind == 'hit'
            key.append((rq['m'], kind, bool(rq['pragma']), tuple(e.split('=')[0] for e in rq['cc']),
                        len(vary_of(c, rq))))
            self.count('req:' + rq['m'])
            self.count('outcome:' + kind)
            if rq['cc']:
                self.count('req-cache-control')
        self.count('histories')
        self.count('ops', len(c['ops']))
        self.count('len:%s' % ('<=8' if len(c['ops']) <= 8 else '<=30' if len(c['ops']) <= 30 else '<=60'))
        if c['cfg']['maxobjects'] < 1000 or c['cfg']['maxobj_size'] < 1000 or c['cfg']['maxsize'] < 1000:
            self.count('with-size-limits')
        self.count('tps:%d' % c['cfg']['tps'])
        return tuple(key) if hit else None

    def shrink(self, c, still_fails):
        c = dict(c)
        c['ops'] = core.shrink_list(c['ops'], lambda ops: still_fails(dict(c, ops=ops)))
        # simplify the surviving requests
        for i, o in enumerate(c['ops']):
            if o[0] != 'req':
                continue
            for field, empty in (('pragma', []), ('cc', []), ('qs', '')):
                if o[1][field]:
                    ops = list(c['ops'])
                    ops[i] = ['req', dict(o[1], **{field: empty})]
                    try:
                        if still_fails(dict(c, ops=ops)):
                            c['ops'] = ops
                            o = ops[i]
                    except Exception:
                        pass
            for h in sorted(o[1]['h']):
                hv = dict(o[1]['h'])
                hv.pop(h)
                ops = list(c['ops'])
                ops[i] = ['req', dict(o[1], h=hv)]
                try:
                    if still_fails(dict(c, ops=ops)):
                        c['ops'] = ops
                        o = ops[i]
                except Exception:
                    pass
        c['vary'] = {p: v for p, v in c['vary'].items() if any(o[0] == 'req' and o[1]['path'] == p for o in c['ops'])}
        return c


CHECK = C15
