"""C12 - client-controlled data cannot break out of headers, error pages or logs.

Every case is one HTTP request driven through vcheck.impl.wsgi against an application whose
handler routes a payload (a list of code points over the full Unicode range) into one sink.
While the request runs, the anchored functions are wrapped from outside (never in /repo):
Response.finalize, _cperror.get_error_page, HTTPRedirect.set_response and LogManager.access
record their inputs and outputs.  The recorded inputs are what the extracted model is run on
(jobs), the recorded outputs and what start_response / the access logger received are what it
is compared with.  The property oracle looks only at start_response arguments, bodies and
captured log records."""
import ast
import base64
import email.header
import html.parser
import json
import logging
import os
import re

from .. import core, sx
from ..impl import wsgi

CTL = set(range(32)) | {127}

SPECIALS = [
    '\r', '\n', '\r\n', '\x00', '\x7f', '\t', '\x0b', '\x0c', '\x1b', '\x1f', '\x80', '\x85', '\xa0', '\xff',
    '<', '>', '&', '"', "'", '\\', '\\\\', '\\"', '\\n', '`', '%', '%0d%0a', ' ', ': ', ';', ',', '=', '?', '#',
    '=?', '?=', '=?utf-8?b?DQo=?=', '=?utf-8?q?=0D=0A?=', '=?iso-8859-1?q?=0A?=', '\r\nX-Inj: 1', '\nX-Inj: 1',
    '\r\n\r\n<html>', '&amp;', '&lt;', '&#10;', '&quot;', '<script>alert(1)</script>', '</title>', '</a>', '</p><p>',
    '-->', '<!--', "' onmouseover='x", '" onmouseover="x', 'javascript:alert(1)',
    '\u0100', '\u20ac', '\u8200', '\u2028', '\ufeff', '\uffff', '\U00010000', '\U0001f600', '\U0010ffff',
    '\ud800', '\udfff', '\udc80', 'abc', '\xe9', '/', '//x', '..', '0', 'OK',
]
RANGES = [(0, 32), (32, 127), (127, 160), (160, 256), (256, 0x800), (0x800, 0xd800), (0xd800, 0xe000),
          (0xe000, 0x10000), (0x10000, 0x110000)]

COOKIE_ATTRS = ['path', 'domain', 'comment', 'expires', 'max-age', 'samesite', 'version', 'secure', 'httponly']
REDIRECT_STATUSES = [None, 300, 301, 302, 303, 307, 308, 305, 304]
ERROR_CODES = [400, 403, 404, 418, 500, 503]

# sink name -> list of args
SINKS = ([('hval', None), ('hname', None), ('hbytes', None), ('cval', None)]
         + [('cattr', a) for a in COOKIE_ATTRS]
         + [('reason', c) for c in (200, 299, 404)]
         + [('redirect', s) for s in REDIRECT_STATUSES] + [('redirect2', 302)]
         + [('errmsg', c) for c in ERROR_CODES] + [('errreason', 403), ('notfound', None), ('exc', None)]
         + [('path404', None), ('sesspath', None), ('echo', None), ('vary', None), ('allow', None)]
         + [('log:r', None), ('log:f', None), ('log:a', None), ('log:u', None), ('log:basic', None),
            ('host', None)])
WIRE_SINKS = {'sesspath', 'echo', 'log:f', 'log:a', 'host'}

BASE_HEADERS = {'content-type', 'server', 'date', 'content-length', 'set-cookie', 'location', 'allow', 'vary',
                'x-out', 'x-echo', 'www-authenticate', 'expires', 'pragma', 'cache-control'}

FIXED_TIME = '[01/Jan/2026:00:00:00]'


def s_of(cps):
    return ''.join(map(chr, cps))


def has_surrogate(s):
    return any(0xd800 <= ord(c) <= 0xdfff for c in s)


def is_latin1(s):
    return all(ord(c) < 256 for c in s)


def wire_header(s, mode):
    """a request header value as a client can put it on the wire, or None if this mode cannot carry s"""
    if mode == 'raw':
        if is_latin1(s) and not any(c in '\r\n\x00' for c in s):
            return s
        return None
    if has_surrogate(s):
        if mode != 'uesc':
            return None
        return '=?unicode_escape?q?%s?=' % ''.join('=%02X' % b for b in s.encode('unicode_escape'))
    if mode == 'b':
        return '=?utf-8?b?%s?=' % base64.b64encode(s.encode('utf-8')).decode('ascii')
    if mode == 'q':
        return '=?utf-8?q?%s?=' % ''.join('=%02X' % b for b in s.encode('utf-8'))
    if mode == 'l1q':
        if not is_latin1(s):
            return None
        return '=?iso-8859-1?q?%s?=' % ''.join('=%02X' % b for b in s.encode('latin-1'))
    if mode == 'uesc':
        return '=?unicode_escape?q?%s?=' % ''.join('=%02X' % b for b in s.encode('unicode_escape'))
    return None


def quote_target(s):
    """percent-encode a payload for the request-target (UTF-8, everything but unreserved)"""
    bs = s.encode('utf-8', 'surrogatepass')
    return ''.join(chr(b) if (chr(b).isalnum() and b < 128) or chr(b) in '-._~' else '%%%02X' % b for b in bs)


class Skeleton(html.parser.HTMLParser):
    """the markup structure of a page: tags and attribute names in order; text and attribute values apart"""

    def __init__(self):
        super().__init__(convert_charrefs=True)
        self.struct = []
        self.text = []
        self.attrs = []

    def handle_starttag(self, tag, attrs):
        self.struct.append(('<', tag, tuple(k for k, _ in attrs)))
        self.attrs += [v for _, v in attrs]

    def handle_endtag(self, tag):
        self.struct.append(('>', tag))

    def handle_startendtag(self, tag, attrs):
        self.struct.append(('<>', tag, tuple(k for k, _ in attrs)))
        self.attrs += [v for _, v in attrs]

    def handle_data(self, data):
        self.text.append(data)

    def handle_comment(self, data):
        self.struct.append(('!--',))

    def handle_decl(self, decl):
        self.struct.append(('!decl',))

    def handle_pi(self, data):
        self.struct.append(('?pi',))

    def unknown_decl(self, data):
        self.struct.append(('!unknown',))


def skeleton(body):
    p = Skeleton()
    p.feed(body)
    p.close()
    return p.struct, ''.join(p.text), p.attrs


class C12(core.Check):
    pid = 'C12'
    props_files = ('Props/C12.v',)
    refuted_files = ('Refuted/R_C12.v',)
    model_fn = ('run_C12', 'Model.M_headers')
    xcheck_n = 30
    rule = ('payloads = 1..6 pieces from a list of specials (CR, LF, CRLF, NUL, DEL, other C0/C1, <, >, &, quotes, '
            'backslashes, RFC 2047 encoded-word syntax, header-injection text, HTML/attribute break-outs, BMP, astral, '
            'lone surrogates) and random code points of 9 ranges; every special alone and embedded x every sink '
            '(response header value/name/bytes value, cookie value and 9 attributes, status reason x 3 codes, HTTPRedirect '
            'x 9 statuses + URL list, HTTPError message x 6 codes, HTTPError reason, NotFound, traceback, 404 path from the '
            'request-target, session cookie path from a request header, echoed request header, Vary, Allow, request '
            'line, Referer, User-Agent, login (set by handler / by auth_basic), Host) x HTTP/1.0|1.1 x wire form of '
            'request headers (raw latin-1, utf-8 b/q words, iso-8859-1 q word, unicode_escape word); non-trivial = '
            'payload contains a control char, non-Latin-1, markup, quote, backslash or encoded-word syntax; distinct by '
            '(sink, protocol, payload classes)')
    assumptions = (
        'http.cookies.Morsel.OutputString (quoting of cookie values, rendering of attributes), str.title, '
        'httputil.valid_status, urllib.parse.urljoin and email.header.decode_header are inputs to the model '
        '(recorded from the running implementation), not modelled',
        'repr(bytes), html.escape, saxutils.quoteattr, b2a_base64 and the UTF-8 codec are modelled in Coq and '
        'validated against CPython by every case (job 6 runs them on the raw payload)',
        'HeaderMap.encode reads protocol/use_rfc_2047 from the class: RFC 2047 applies to HTTP/1.0 responses too',
        'log: every double quote preceded by a backslash is the reading of "double quotes are escaped"; the record '
        'format does not double backslashes, so backslash-quote in the input gives backslash-backslash-quote (noted)',
    )

    # ------------------------------------------------------------------ setup
    def setup(self):
        import cherrypy
        from cherrypy import _cperror, _cprequest
        from cherrypy.lib import cptools, httputil
        self.cherrypy = cherrypy
        self.httputil = httputil
        self._cperror = _cperror
        check = self
        self.cur = None
        self.cache = {}
        cherrypy.log.error_log.addHandler(logging.NullHandler())

        class Root:
            @cherrypy.expose
            def h(self, **kw):
                return check.act()

            @cherrypy.expose
            def s(self, **kw):
                cherrypy.session['x'] = 1
                return 'ok'

            @cherrypy.expose
            def a(self, **kw):
                return 'ok'

        conf = {
            '/': {'request.show_tracebacks': False},
            '/s': {'tools.sessions.on': True, 'tools.sessions.path_header': 'X-Path',
                   'tools.sessions.clean_freq': 0},
            '/a': {'tools.auth_basic.on': True, 'tools.auth_basic.realm': 'r',
                   'tools.auth_basic.checkpassword': lambda realm, u, p: True},
        }
        self.app = wsgi.make_app(Root(), conf)
        cherrypy.log.error_log.addHandler(logging.NullHandler())
        self.app.log.error_log.addHandler(logging.NullHandler())

        # ---- capture of access-log records
        class Cap(logging.Handler):
            def emit(self, record):
                if check.cur is not None:
                    check.cur['records'].append(record.getMessage())
        self.cap = Cap()
        self.app.log.access_log.addHandler(self.cap)
        self.app.log.time = lambda: FIXED_TIME
        orig_access = self.app.log.access

        def access():
            cur = check.cur
            rec = {'exc': None}
            try:
                request = cherrypy.serving.request
                response = cherrypy.serving.response
                remote = request.remote
                if response.output_status is None:
                    st = '-'
                else:
                    st = response.output_status.split(b' ', 1)[0].decode('ISO-8859-1')
                atoms = [remote.name or remote.ip, '-', getattr(request, 'login', None) or '-', FIXED_TIME,
                         request.request_line, st, dict.get(response.headers, 'Content-Length', '') or '-',
                         dict.get(request.headers, 'Referer', ''), dict.get(request.headers, 'User-Agent', ''),
                         dict.get(request.headers, 'Host', '-')]
                rec['atoms'] = [v if isinstance(v, str) else str(v) for v in atoms]
            except Exception as e:
                rec['atoms'] = None
                rec['snap_error'] = repr(e)
            n0 = len(cur['records']) if cur else 0
            try:
                return orig_access()
            except BaseException as e:
                rec['exc'] = type(e).__name__
                raise
            finally:
                if cur is not None:
                    rec['records'] = cur['records'][n0:]
                    cur['logs'].append(rec)
        self.app.log.access = access

        # ---- Response.finalize
        self.orig_finalize = orig_finalize = _cprequest.Response.finalize

        def finalize(resp):
            cur = check.cur
            rec = {'exc': None}
            try:
                return orig_finalize(resp)
            except BaseException as e:
                rec['exc'] = type(e).__name__
                raise
            finally:
                if cur is not None:
                    try:
                        rec['status'] = resp.status
                        items = []
                        for k, v in dict.items(resp.headers):
                            if not isinstance(v, (str, bytes)):
                                v = str(v)
                            items.append([k, v])
                        rec['items'] = items
                        rec['morsels'] = [m.OutputString() for _, m in sorted(resp.cookie.items())]
                        if rec['exc'] is None:
                            rec['out_status'] = resp.output_status
                            rec['out_headers'] = [list(p) for p in resp.header_list]
                        rec['path'] = cherrypy.serving.request.script_name + cherrypy.serving.request.path_info
                        host = dict.get(cherrypy.serving.request.headers, 'Host')
                        rec['host'] = None if host is None else str(host)
                        rec['host_raw'] = None if host is None else str(getattr(host, 'raw', host))
                    except Exception as e:    # fail closed: compare reports it
                        rec['snap_error'] = repr(e)
                    cur['fin'].append(rec)
        _cprequest.Response.finalize = finalize

        # ---- get_error_page
        self.orig_gep = orig_gep = _cperror.get_error_page

        def get_error_page(status, **kwargs):
            cur = check.cur
            rec = {'status': status, 'kwargs': dict(kwargs), 'exc': None, 'out': None}
            try:
                out = orig_gep(status, **kwargs)
                rec['out'] = out if isinstance(out, bytes) else None
                return out
            except BaseException as e:
                rec['exc'] = type(e).__name__
                raise
            finally:
                if cur is not None:
                    cur['errpages'].append(rec)
        _cperror.get_error_page = get_error_page

        # ---- HTTPRedirect.set_response
        self.orig_redir = orig_redir = _cperror.HTTPRedirect.set_response

        def set_response(exc):
            cur = check.cur
            rec = {'urls': list(exc.urls), 'status': exc.status, 'exc': None, 'body': None}
            try:
                r = orig_redir(exc)
                body = cherrypy.serving.response.body
                rec['body'] = b''.join(body) if isinstance(body, (list, tuple)) else repr(body)
                return r
            except BaseException as e:
                rec['exc'] = type(e).__name__
                raise
            finally:
                if cur is not None:
                    cur['redirs'].append(rec)
        _cperror.HTTPRedirect.set_response = set_response

        # the template of the built-in error page as pieces
        tmpl = _cperror._HTTPErrorTemplate
        names = {'status': 0, 'message': 1, 'traceback': 2, 'version': 3}
        pieces = []
        pos = 0
        for m in re.finditer(r'%\((\w+)\)s', tmpl):
            pieces.append([0, tmpl[pos:m.start()]])
            pieces.append([1, names[m.group(1)]])      # KeyError -> fail closed
            pos = m.end()
        pieces.append([0, tmpl[pos:]])
        if any('%' in p[1] for p in pieces if p[0] == 0):
            raise RuntimeError('error template contains a % outside %(name)s fields')
        self.tmpl = pieces
        self.notes += [
            'signatures of the finalize defect (status reason / cookie lines bypass the control-character deletion): '
            'finalize:status-line-ctl, finalize:cookie-line-ctl, finalize:cookie-line-splits-header; repaired by '
            'fixes/C12-finalize.diff; the model carries both variants and D accepts either, the oracle judges',
            'not judged (outside the property text), counted in the distribution: a lone surrogate in a logged atom '
            '(reachable from the wire through an encoded word with charset unicode_escape) makes LogManager.access '
            'raise UnicodeEncodeError, so no access-log record is written (no_access_log_record); backslash-quote in '
            'an atom is logged as backslash-backslash-quote because the second replace() undoes the doubling of '
            'backslashes; an exception whose text holds a lone surrogate escapes bare_error when tracebacks are shown '
            '(exception_reached_server, C01 territory); Latin-1 text that merely looks like an encoded word is emitted '
            'verbatim (RFC 2047 ambiguity, the property speaks of text outside Latin-1 only)',
            'decode_TEXT_maybe / email.header.decode_header are exercised on the request side (wire forms b, q, '
            'iso-8859-1 q, unicode_escape) but not modelled: the theorems hold for every string the decoder can yield',
        ]
        self.ie_sizes = dict(_cperror._ie_friendly_error_sizes)
        self.baselines = {}

    def teardown(self):
        from cherrypy import _cperror, _cprequest
        _cprequest.Response.finalize = self.orig_finalize
        _cperror.get_error_page = self.orig_gep
        _cperror.HTTPRedirect.set_response = self.orig_redir

    # ------------------------------------------------------------------ ties (G)
    def ties(self):
        """header_translate_deletechars as the source computes it equals the model's table and covers {0..31,127}."""
        path = os.path.join(core.REPO, 'cherrypy', 'lib', 'httputil.py')
        tree = ast.parse(open(path).read())
        found = None
        for node in tree.body:
            # if str == bytes: ... else: header_translate_table = None; header_translate_deletechars = <expr>
            if isinstance(node, ast.If) and isinstance(node.test, ast.Compare):
                for st in node.orelse:
                    if (isinstance(st, ast.Assign) and len(st.targets) == 1 and isinstance(st.targets[0], ast.Name)):
                        if st.targets[0].id == 'header_translate_deletechars':
                            found = self._eval_bytes(st.value)
                        if st.targets[0].id == 'header_translate_table':
                            if not (isinstance(st.value, ast.Constant) and st.value.value is None):
                                raise ValueError('header_translate_table is not None')
            if isinstance(node, ast.Assign) and any(isinstance(t, ast.Name) and t.id.startswith('header_translate_')
                                                    for t in node.targets):
                raise ValueError('unconditional assignment to header_translate_*')
        if found is None:
            raise ValueError('header_translate_deletechars not found')
        # the call site must still be item.translate(header_translate_table, header_translate_deletechars)
        src = open(path).read()
        if not re.search(r'return\s+item\.translate\(\s*header_translate_table,\s*header_translate_deletechars\)', src):
            raise ValueError('encode_header_item no longer translates with header_translate_deletechars')
        text = '\n'.join([
            'From Coq Require Import ZArith List Bool.', 'Import ListNotations.',
            'From CV Require Import Model.M_headers Proof.P_headers.', 'Open Scope Z_scope.',
            'Definition gen_deletechars : list Z := [%s].' % '; '.join(str(b) for b in found),
            'Lemma tie_deletechars_model : gen_deletechars = deletechars.',
            'Proof. vm_compute. reflexivity. Qed.',
            'Lemma tie_deletechars : ctl_covered gen_deletechars = true.',
            'Proof. vm_compute. reflexivity. Qed.',
            'Lemma tie_deletechars_sound : forall b, (0 <= b < 32 \\/ b = 127) -> In b gen_deletechars.',
            'Proof. apply ctl_covered_sound. exact tie_deletechars. Qed.', ''])
        ok, out = core.coq_check_text('Tie_C12', text)
        obs = [core.Obligation('tie_deletechars(generated from httputil.py: {0..31,127} <= deletechars = model table)',
                               ok, '' if ok else out)]
        obs.append(self.tie_finalize())
        # runtime value agrees with the source reading
        import cherrypy.lib.httputil as hu
        same = (list(hu.header_translate_deletechars) == found and hu.header_translate_table is None)
        obs.append(core.Obligation('tie_deletechars_runtime(imported module value = value read from source)', same,
                                   '' if same else repr(hu.header_translate_deletechars)))
        return obs

    def tie_finalize(self):
        """every method Response.finalize calls on the header map, in source order (0 encode, 1 encode_header_item,
        2 output, 3 anything else): the status line and the cookie lines are clean only if nothing is emitted
        through the bare encode(), which skips the deletion (the variant the theorems are about: repaired = true)"""
        path = os.path.join(core.REPO, 'cherrypy', '_cprequest.py')
        tree = ast.parse(open(path).read())
        fin = None
        for node in ast.walk(tree):
            if isinstance(node, ast.ClassDef) and node.name == 'Response':
                for f in node.body:
                    if isinstance(f, ast.FunctionDef) and f.name == 'finalize':
                        fin = f
        if fin is None:
            raise ValueError('Response.finalize not found')
        aliases = {'headers'}
        calls = []
        for node in ast.walk(fin):
            if isinstance(node, ast.Attribute) and isinstance(node.value, ast.Attribute) \
                    and isinstance(node.value.value, ast.Name) and node.value.value.id == 'self' \
                    and node.value.attr == 'headers':
                calls.append((node.lineno, node.col_offset, node.attr))
            if isinstance(node, ast.Attribute) and isinstance(node.value, ast.Name) and node.value.id in aliases:
                calls.append((node.lineno, node.col_offset, node.attr))
        code = {'encode': 0, 'encode_header_item': 1, 'output': 2}
        seq = [code.get(a, 3) for _, _, a in sorted(calls)]
        if 2 not in seq:
            raise ValueError('finalize no longer calls headers.output()')
        text = '\n'.join([
            'From Coq Require Import ZArith List Bool.', 'Import ListNotations.', 'Open Scope Z_scope.',
            'Definition gen_finalize_header_calls : list Z := [%s].' % '; '.join(map(str, seq)),
            'Lemma tie_finalize_headers : existsb (Z.eqb 0) gen_finalize_header_calls = false',
            '  /\\ existsb (Z.eqb 1) gen_finalize_header_calls = true.',
            'Proof. vm_compute. split; reflexivity. Qed.', ''])
        ok, out = core.coq_check_text('Tie_C12_finalize', text)
        return core.Obligation('tie_finalize_headers(finalize emits nothing through the bare HeaderMap.encode: calls %r)'
                               % seq, ok, '' if ok else out)

    def _eval_bytes(self, node):
        """evaluate the closed expression bytes(range(n)) + bytes([k]) ... ; anything else fails closed"""
        if isinstance(node, ast.BinOp) and isinstance(node.op, ast.Add):
            return self._eval_bytes(node.left) + self._eval_bytes(node.right)
        if isinstance(node, ast.Constant) and isinstance(node.value, bytes):
            return list(node.value)
        if isinstance(node, ast.Call) and isinstance(node.func, ast.Name) and node.func.id == 'bytes' \
                and len(node.args) == 1 and not node.keywords:
            a = node.args[0]
            if isinstance(a, ast.Call) and isinstance(a.func, ast.Name) and a.func.id == 'range' \
                    and all(isinstance(x, ast.Constant) and isinstance(x.value, int) for x in a.args) \
                    and not a.keywords:
                return list(range(*[x.value for x in a.args]))
            if isinstance(a, ast.List) and all(isinstance(x, ast.Constant) and isinstance(x.value, int)
                                               for x in a.elts):
                return [x.value for x in a.elts]
        raise ValueError('unsupported expression for header_translate_deletechars: %s' % ast.dump(node))

    # ------------------------------------------------------------------ generation
    def gen_payload(self, rng):
        parts = []
        for _ in range(rng.randrange(1, 7)):
            r = rng.random()
            if r < .6:
                parts.append(rng.choice(SPECIALS))
            elif r < .9:
                lo, hi = rng.choice(RANGES)
                parts.append(chr(rng.randrange(lo, hi)))
            else:
                parts.append(rng.choice(['a', 'Zz', '09', 'x y', 'path/', 'k=v']))
        return [ord(c) for c in ''.join(parts)]

    def mk(self, sink, arg, cps, proto, wire=None):
        return {'sink': sink, 'arg': arg, 'cps': list(cps), 'proto': proto, 'wire': wire}

    def wire_modes(self, s):
        return [m for m in ('raw', 'b', 'q', 'l1q', 'uesc') if wire_header(s, m) is not None]

    def cases(self):
        rng = self.rng
        out = []
        # systematic: every special alone and embedded x every sink x protocol
        embed = [lambda x: x, lambda x: 'a' + x + 'b'] if self.tier == 'quick' else \
                [lambda x: x, lambda x: 'a' + x + 'b', lambda x: x + x, lambda x: '/p' + x, lambda x: x + '舀']
        protos = ['HTTP/1.1', 'HTTP/1.0']
        k = 0
        for sink, arg in SINKS:
            for sp in SPECIALS:
                for e in embed:
                    s = e(sp)
                    k += 1
                    # quick: alternate protocols instead of the full product
                    for proto in (protos if self.tier != 'quick' else [protos[k % 2]]):
                        if sink in WIRE_SINKS:
                            modes = self.wire_modes(s)
                            if not modes:
                                continue
                            for w in (modes if self.tier != 'quick' else [modes[k % len(modes)]]):
                                out.append(self.mk(sink, arg, map(ord, s), proto, w))
                        else:
                            out.append(self.mk(sink, arg, map(ord, s), proto))
        n = 2500 if self.tier == 'quick' else 60000
        for _ in range(n):
            sink, arg = rng.choice(SINKS)
            cps = self.gen_payload(rng)
            proto = rng.choice(protos)
            w = None
            if sink in WIRE_SINKS:
                modes = self.wire_modes(s_of(cps))
                if not modes:
                    continue
                w = rng.choice(modes)
            out.append(self.mk(sink, arg, cps, proto, w))
        seen, uniq = set(), []
        for c in out:
            k = self.key(c)
            if k not in seen:
                seen.add(k)
                uniq.append(c)
        return uniq

    def search_cases(self, around=None):
        rng = self.rng
        for c in around or []:
            yield c
        for sink, arg in SINKS:
            for sp in SPECIALS:
                s = 'a' + sp + 'b'
                w = None
                if sink in WIRE_SINKS:
                    modes = self.wire_modes(s)
                    if not modes:
                        continue
                    w = modes[-1]
                yield self.mk(sink, arg, map(ord, s), 'HTTP/1.1', w)
        for _ in range(5000):
            sink, arg = rng.choice(SINKS)
            cps = self.gen_payload(rng)
            w = None
            if sink in WIRE_SINKS:
                modes = self.wire_modes(s_of(cps))
                if not modes:
                    continue
                w = rng.choice(modes)
            yield self.mk(sink, arg, cps, rng.choice(['HTTP/1.1', 'HTTP/1.0']), w)

    # ------------------------------------------------------------------ the application's handler
    def act(self):
        cherrypy = self.cherrypy
        cur = self.cur
        c = cur['case']
        sink, arg = c['sink'], c['arg']
        p = s_of(c['cps'])
        resp, req = cherrypy.response, cherrypy.request
        if sink == 'hval':
            resp.headers['X-Out'] = p
        elif sink == 'hname':
            resp.headers[p] = 'v'
        elif sink == 'hbytes':
            resp.headers['X-Out'] = p.encode('utf-8', 'surrogatepass')
        elif sink == 'cval':
            resp.cookie['c'] = p
        elif sink == 'cattr':
            resp.cookie['c'] = 'v'
            resp.cookie['c'][arg] = p
        elif sink == 'reason':
            resp.status = '%d %s' % (arg, p)
        elif sink in ('redirect', 'redirect2'):
            e = cherrypy.HTTPRedirect(p if sink == 'redirect' else ['/first', p, p + '2'], arg)
            cur['urls'] = list(e.urls)
            raise e
        elif sink == 'errmsg':
            raise cherrypy.HTTPError(arg, p)
        elif sink == 'errreason':
            raise cherrypy.HTTPError('%d %s' % (arg, p), 'msg')
        elif sink == 'notfound':
            raise cherrypy.NotFound(p)
        elif sink == 'exc':
            req.show_tracebacks = True
            raise ValueError(p)
        elif sink == 'echo':
            v = req.headers.get('X-In', '')
            cur['seen'] = v
            resp.headers['X-Echo'] = v
        elif sink == 'vary':
            cherrypy.lib.set_vary_header(resp, p)
        elif sink == 'allow':
            from cherrypy.lib import cptools
            cptools.allow([p, 'GET'])
        elif sink == 'log:u':
            req.login = p
        return 'ok'

    def request_of(self, c):
        """(method, target, headers) a client sends for the case"""
        sink = c['sink']
        p = s_of(c['cps'])
        target, headers = '/h', []
        if sink == 'path404':
            target = '/nf/' + quote_target(p)
        elif sink == 'log:r':
            target = '/h/' + quote_target(p) + '?q=' + quote_target(p)
        elif sink == 'sesspath':
            target = '/s'
            headers.append(('X-Path', wire_header(p, c['wire'])))
        elif sink == 'echo':
            headers.append(('X-In', wire_header(p, c['wire'])))
        elif sink == 'log:f':
            headers.append(('Referer', wire_header(p, c['wire'])))
        elif sink == 'log:a':
            headers.append(('User-Agent', wire_header(p, c['wire'])))
        elif sink == 'host':
            headers.append(('Host', wire_header(p, c['wire'])))
        elif sink == 'log:basic':
            target = '/a'
            cred = p.encode('utf-8', 'surrogatepass') + b':pw'
            headers.append(('Authorization', 'Basic ' + base64.b64encode(cred).decode('ascii')))
        return 'GET', target, headers

    # ------------------------------------------------------------------ implementation side
    def key(self, c):
        return json.dumps(c, sort_keys=True, default=core._jsonable)

    def impl(self, c):
        k = self.key(c)
        if self.cache.get(k):
            return self.cache[k].pop(0)
        return self.observe(c)

    def observe(self, c):
        cur = {'case': c, 'fin': [], 'errpages': [], 'redirs': [], 'logs': [], 'records': [], 'urls': None,
               'seen': None}
        self.cur = cur
        try:
            method, target, headers = self.request_of(c)
            r = wsgi.call(self.app, method, target, headers, b'', c['proto'])
        finally:
            self.cur = None
        self.count('sink:' + c['sink'])
        self.count('proto:' + c['proto'])
        if c.get('wire'):
            self.count('wire:' + c['wire'])
        self.count('status:%s' % r['status'])
        obs = {'status_line': r['status_line'], 'headers': [list(h) for h in r['headers']],
               'start_calls': [[sc['status'], [list(h) for h in sc['headers']]] for sc in r['start_calls']],
               'body': r['body'], 'escaped': r['escaped'], 'problems': r['problems'],
               'fin': cur['fin'], 'errpages': cur['errpages'], 'redirs': cur['redirs'], 'logs': cur['logs'],
               'records': cur['records'], 'urls': cur['urls'], 'seen': cur['seen']}
        return obs

    # ------------------------------------------------------------------ model side
    def jobs(self, c, obs):
        """[(tag, model input, what the implementation produced)]"""
        jobs = []
        for rec in obs['fin']:
            if 'snap_error' in rec:
                jobs.append(('snap_error', [99], rec['snap_error']))
                continue
            st = rec['status']
            if rec['exc'] == 'HTTPError' or not isinstance(st, str) or not re.match(r'^\d{3} ', st):
                continue                       # valid_status refused the status: not this model's business
            items = [[isinstance(k, bytes), k, isinstance(v, bytes), v] for k, v in rec['items']]
            jobs.append(('finalize', [0, int(st[:3]), st[4:], items, rec['morsels']], rec))
        for rec in obs['errpages']:
            try:
                code, reason, defmsg = self.httputil.valid_status(rec['status'])
            except ValueError:
                continue
            kw = rec['kwargs']
            if set(kw) - {'status', 'message', 'traceback', 'version'}:
                jobs.append(('snap_error', [99], 'unexpected kwargs %r' % sorted(kw)))
                continue
            opt = [([kw[n]] if kw.get(n) is not None else []) for n in ('status', 'message', 'traceback', 'version')]
            jobs.append(('errpage', [1, self.tmpl, '%s %s' % (code, reason), defmsg, self.cherrypy.__version__] + opt,
                         rec))
        for rec in obs['redirs']:
            jobs.append(('redirect', [2, rec['status'], rec['urls']], rec))
        for rec in obs['logs']:
            if rec.get('atoms') is None:
                jobs.append(('snap_error', [99], rec.get('snap_error')))
                continue
            jobs.append(('log', [3, rec['atoms']], rec))
        for sc in obs['start_calls']:
            for k, v in sc[1]:
                for x in (k, v):
                    if isinstance(x, str) and re.match(r'^=\?utf-8\?b\?[A-Za-z0-9+/=]*\?=$', x):
                        jobs.append(('word', [4, x], x))
        if c['sink'] == 'host' and obs['fin'] and obs['fin'][0].get('host_raw') is not None:
            jobs.append(('host', [5, obs['fin'][0]['host_raw']], obs['fin'][0]['host']))
        jobs.append(('prims', [6, s_of(c['cps'])], None))
        return jobs

    def encode(self, c):
        obs = self.observe(c)
        self.cache.setdefault(self.key(c), []).append(obs)
        return [j[1] for j in self.jobs(c, obs)]

    @staticmethod
    def _fin_expect(rec):
        if rec['exc'] is not None:
            return {'UnicodeEncodeError': [1], 'ValueError': [2]}.get(rec['exc'], ['exc', rec['exc']])
        return [0, sx.norm(rec['out_status']), [[sx.norm(k), sx.norm(v)] for k, v in rec['out_headers']]]

    def compare(self, c, mo, obs):
        jobs = self.jobs(c, obs)
        if not isinstance(mo, list) or len(mo) != len(jobs):
            return 'model returned %r for %d jobs' % (mo if not isinstance(mo, list) else len(mo), len(jobs))
        last_fin = None
        for (tag, inp, rec), m in zip(jobs, mo):
            if tag == 'snap_error':
                return 'snapshot failed: %s' % rec
            if tag == 'finalize':
                exp = self._fin_expect(rec)
                if m[0] != exp:
                    if m[1] == exp:
                        self.count('finalize_matches_unrepaired_variant')
                    else:
                        return 'finalize: impl %r, model repaired %r / as-written %r' % (exp, m[0], m[1])
                if rec['exc'] is None:
                    last_fin = rec
            elif tag == 'errpage':
                if rec['exc'] is not None:
                    exp = {'UnicodeEncodeError': [1]}.get(rec['exc'], ['exc', rec['exc']])
                else:
                    exp = [0, sx.norm(rec['out'])]
                if m != exp:
                    return 'get_error_page: impl %r model %r' % (exp, m)
            elif tag == 'redirect':
                if rec['exc'] is not None:
                    exp = {'UnicodeEncodeError': [1], 'ValueError': [2]}.get(rec['exc'], ['exc', rec['exc']])
                elif rec['status'] in (304, 305):
                    exp = [0, 0]
                    if rec['body'] != b'':
                        return 'redirect %s left a body %r' % (rec['status'], rec['body'])
                else:
                    exp = [0, 1, sx.norm(rec['body'])]
                if m != exp:
                    return 'HTTPRedirect.set_response body: impl %r model %r' % (exp, m)
            elif tag == 'log':
                if rec['exc'] is not None:
                    exp = [1] if rec['exc'] == 'UnicodeEncodeError' else ['exc', rec['exc']]
                elif len(rec['records']) != 1:
                    return 'access() emitted %d records' % len(rec['records'])
                else:
                    exp = [0, sx.norm(rec['records'][0])]
                if m != exp:
                    return 'access log record: impl %r model %r' % (exp, m)
            elif tag == 'word':
                try:
                    parts = email.header.decode_header(rec)
                    dec = ''.join(a.decode(cs) if cs else (a.decode('latin-1') if isinstance(a, bytes) else a)
                                  for a, cs in parts)
                    exp = [0, sx.norm(dec)]
                except Exception as e:
                    exp = [1]
                if m != exp:
                    return 'encoded word %r: email.header %r model %r' % (rec, exp, m)
            elif tag == 'host':
                if rec is None or m != sx.norm(str(rec)):
                    return 'SanitizedHost: impl %r model %r' % (rec, m)
            elif tag == 'prims':
                d = self.prims_expected(s_of(c['cps']))
                if m != d:
                    return 'primitives (escape, unescape.escape, quoteattr, log atom, b64 round trip): python %r model %r' % (d, m)
        # hand-over: what the server received is what the last successful finalize produced (unless bare_error)
        bare = obs['body'].startswith(b'Unrecoverable error in the server.')
        if last_fin is not None and not bare and obs['start_calls']:
            sl, hs = obs['start_calls'][-1]
            if sl != last_fin['out_status'].decode('latin-1') or \
                    hs != [[k.decode('latin-1'), v.decode('latin-1')] for k, v in last_fin['out_headers']]:
                return 'start_response arguments differ from the last finalize result'
        # body hand-over for error pages: page + IE padding
        if obs['errpages'] and obs['errpages'][-1]['out'] is not None and not bare and obs['status_line']:
            page = obs['errpages'][-1]['out']
            code = int(obs['status_line'][:3])
            s = self.ie_sizes.get(code, 0)
            exp = page
            if s and len(page) < s + 1:
                exp = page + b' ' * (s + 1 - len(page))
            if obs['body'] != exp:
                return 'error body differs from get_error_page result + IE padding'
        if obs['redirs'] and obs['redirs'][-1]['exc'] is None and not bare and not obs['errpages']:
            if obs['body'] != obs['redirs'][-1]['body']:
                return 'redirect body differs from what set_response left'
        return None

    def prims_expected(self, s):
        import html
        from xml.sax import saxutils
        try:
            v = s.replace('"', '\\"').encode('utf8')
            v = repr(v)[2:-1]
            v = v.replace('\\\\', '\\')
            atom = [0, sx.norm(v)]
        except UnicodeEncodeError:
            atom = [1]
        try:
            bs = s.encode('utf-8')
            rt = [0, sx.norm(base64.b64decode(base64.b64encode(bs), validate=True))]
        except UnicodeEncodeError:
            rt = [1]
        return [sx.norm(html.escape(s, quote=False)), sx.norm(html.unescape(html.escape(s, quote=False))),
                sx.norm(saxutils.quoteattr(s)), atom, rt]

    # ------------------------------------------------------------------ property oracle
    def baseline(self, c):
        """markup structure of the page the same sink produces for a harmless payload"""
        k = (c['sink'], c['arg'], c['proto'])
        if k not in self.baselines:
            b = self.observe(self.mk(c['sink'], c['arg'], map(ord, 'Zq7'), c['proto'],
                                     'raw' if c['sink'] in WIRE_SINKS else None))
            try:
                self.baselines[k] = (skeleton(b['body'].decode('utf-8'))[0], b['status_line'])
            except Exception:
                self.baselines[k] = (None, None)
        return self.baselines[k]

    def oracle(self, c, obs):
        fails = []
        sink = c['sink']
        p = s_of(c['cps'])
        if obs['escaped']:
            # containment of errors is C01's claim, not C12's: counted, not judged here
            self.count('exception_reached_server(not judged by C12):' + sink)
        # 1. control characters in anything start_response received; smuggled header lines
        for sl, hs in obs['start_calls']:
            if any(ord(ch) in CTL for ch in sl):
                fails.append(('finalize:status-line-ctl', 'status line %r contains a control character' % sl))
            for k, v in hs:
                if not isinstance(k, str) or not isinstance(v, str):
                    fails.append(('header-type', 'non-str header %r' % ((k, v),)))
                    continue
                cookie = k.lower() == 'set-cookie' or (sink in ('cattr', 'sesspath', 'cval')
                                                       and k.lower() not in BASE_HEADERS)
                if any(ord(ch) in CTL for ch in k):
                    fails.append(('header-name-ctl', 'header name %r contains a control character' % k))
                if any(ord(ch) in CTL for ch in v):
                    if cookie:
                        fails.append(('finalize:cookie-line-ctl',
                                      'Set-Cookie value %r contains a control character' % v))
                    else:
                        fails.append(('header-value-ctl:' + sink, 'header %s value %r contains a control character'
                                      % (k, v)))
                if any(ord(ch) > 255 for ch in k + v):
                    fails.append(('header-not-latin1', 'header %r is not Latin-1' % ((k, v),)))
                if sink != 'hname' and k.lower() not in BASE_HEADERS:
                    fails.append(('finalize:cookie-line-splits-header' if sink in ('cattr', 'sesspath', 'cval')
                                  else 'unexpected-header:' + sink,
                                  'the response carries a header %r: %r the application never set' % (k, v)))
            if sink in ('cattr', 'cval', 'sesspath') and sum(1 for k, _ in hs if k.lower() == 'set-cookie') > 1:
                fails.append(('finalize:cookie-line-splits-header', 'one cookie produced several Set-Cookie headers'))
        # 2. RFC 2047: text outside Latin-1 is emitted as an encoded word that decodes to the original
        want = None
        if sink == 'hval' or sink == 'vary':
            want = ('x-out' if sink == 'hval' else 'vary', p)
        elif sink == 'echo' and obs['seen'] is not None:
            want = ('x-echo', obs['seen'])
        if want and obs['start_calls'] and not has_surrogate(want[1]) and not is_latin1(want[1]):
            vals = [v for k, v in obs['start_calls'][-1][1] if k.lower() == want[0]]
            status = obs['status_line'] or ''
            if status.startswith('200'):
                ok = False
                for v in vals:
                    try:
                        parts = email.header.decode_header(v)
                        dec = ''.join(a.decode(cs) if cs else (a.decode('latin-1') if isinstance(a, bytes) else a)
                                      for a, cs in parts)
                        ok = ok or (dec == want[1] and v.startswith('=?') and v.endswith('?='))
                    except Exception:
                        pass
                if not ok:
                    fails.append(('rfc2047-roundtrip:' + sink,
                                  'non-Latin-1 header text %r was emitted as %r, which does not decode to it'
                                  % (want[1], vals)))
        # 3. error and redirect pages: the payload is text / an attribute value only
        ct = wsgi.header(obs, 'Content-Type') or ''
        if ct.startswith('text/html') and obs['body']:
            try:
                struct, text, attrs = skeleton(obs['body'].decode('utf-8'))
            except UnicodeDecodeError:
                struct = None
                fails.append(('html-not-utf8:' + sink, 'the HTML body is not UTF-8'))
            if struct is not None:
                base, base_status = self.baseline(c)
                same_kind = base is not None and (base_status or '')[:3] == (obs['status_line'] or '')[:3]
                if same_kind and struct != base:
                    fails.append(('html-structure:' + sink,
                                  'the payload changed the markup of the page: %r instead of %r'
                                  % (struct[:40], base[:40])))
                if same_kind:
                    expect_text = None
                    if sink in ('errmsg', 'notfound', 'exc'):
                        expect_text = p if sink != 'errmsg' or p else None
                    elif sink == 'errreason':
                        expect_text = p.strip() or None
                    elif sink == 'path404' and obs['fin'] and 'path' in obs['fin'][0]:
                        expect_text = "The path '%s' was not found." % obs['fin'][0]['path']
                    if expect_text and not has_surrogate(expect_text) and expect_text not in text:
                        fails.append(('html-text:' + sink, 'the page text %r does not contain the payload %r verbatim'
                                      % (text[:200], expect_text)))
                    if sink in ('redirect', 'redirect2') and obs['urls'] and (obs['status_line'] or '')[:3] in (
                            '300', '301', '302', '303', '307', '308'):
                        if attrs != obs['urls']:
                            fails.append(('html-attr:' + sink, 'href values %r are not the URLs %r' % (attrs, obs['urls'])))
                        for u in obs['urls']:
                            if u not in text:
                                fails.append(('html-text:' + sink, 'link text %r lacks the URL %r' % (text[:200], u)))
        # 4. access log: single line, printable ASCII, every non-structural double quote escaped
        for rec in obs['records']:
            if '\n' in rec or '\r' in rec:
                fails.append(('log-multiline', 'access-log record spans lines: %r' % rec))
            elif any(ord(ch) < 32 or ord(ch) == 127 for ch in rec):
                fails.append(('log-ctl', 'access-log record contains a control character: %r' % rec))
            if any(ord(ch) > 127 for ch in rec):
                fails.append(('log-nonascii', 'access-log record contains a non-ASCII character: %r' % rec))
            # the default format has six structural quotes; an atom ending in a backslash makes the closing
            # one look escaped, so fewer than six bare quotes is not a failure, more than six is
            if len(re.findall(r'(?<!\\)"', rec)) > 6 or not re.match(
                    r'^\S+ \S+ .+ \[[^\]]*\] ".*" (\d{3}|-) \S+ ".*" ".*"$', rec):
                fails.append(('log-unescaped-quote', 'access-log record has an unescaped double quote or lost its '
                              'field structure: %r' % rec))
        if not obs['records']:
            self.count('no_access_log_record')
        for rec in obs['records']:
            if re.search(r'(?<!\\)(\\\\)+"', rec):
                self.count('log_backslash_backslash_quote(ambiguous, noted)')
        return fails

    def nontrivial(self, c, obs):
        s = s_of(c['cps'])
        cls = []
        if any(ord(ch) in CTL for ch in s):
            cls.append('ctl')
        if not is_latin1(s):
            cls.append('wide')
        if has_surrogate(s):
            cls.append('surr')
        if any(ch in '<>&' for ch in s):
            cls.append('html')
        if any(ch in '"\'' for ch in s):
            cls.append('quote')
        if '\\' in s:
            cls.append('bs')
        if '=?' in s:
            cls.append('ew')
        if any(128 <= ord(ch) < 256 for ch in s):
            cls.append('hi')
        if not cls:
            return None
        for x in cls:
            self.count('payload:' + x)
        return (c['sink'], str(c['arg']), c['proto'], c.get('wire'), tuple(cls))

    def shrink(self, c, still_fails):
        def ok(cps):
            d = dict(c, cps=cps)
            if c['sink'] in WIRE_SINKS and wire_header(s_of(cps), c['wire']) is None:
                return False
            return still_fails(d)
        cps = core.shrink_list(c['cps'], ok)
        return dict(c, cps=cps)


CHECK = C12
