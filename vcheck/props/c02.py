"""C02 - only exposed handlers are reachable, and the most specific one is chosen.

Random object trees are built as REAL Python classes/instances (class source is generated and
exec'd so that the real @cherrypy.expose / @cherrypy.popargs decorators run), mounted with
vcheck.impl.wsgi.make_app and requested through the in-process WSGI driver.  For the model the harness
materialises, for every reachable object, exactly what getattr(obj, name, None) gives for the names
find_handler can ask for, and the behaviour of every _cp_dispatch as a finite table."""
import ast
import itertools
import os
import string

from .. import core, sx
from ..impl import wsgi

PROBE = ['pk.a', 'pk.b', 'pk.g', 'tools.staticdir.dir', 'tools.staticdir.section']
GCONF = [['pk.g', 'G0']]
TR = str.maketrans(string.punctuation, '_' * len(string.punctuation))   # the harness's own table
NODE_BUDGET = 1500
CURRENT = [None]


class TooBig(Exception):
    pass


def _rec(hid, args):
    import cherrypy
    W = CURRENT[0]
    owner = W.owner.get(hid)
    args = list(args)
    if args and owner is not None and isinstance(args[0], owner):
        args = args[1:]
    W.calls.append([hid, [a if isinstance(a, str) else repr(a) for a in args],
                    cherrypy.serving.request.is_index])
    return b'ok'


def _seen(vpath):
    """called first thing by every hand-written _cp_dispatch: what the dispatcher handed it (recorded during the real
    request only, not while the harness tabulates the dispatcher for the model)"""
    W = CURRENT[0]
    if W is not None:
        W.seen.append(list(vpath))


class World:
    """the real objects of one tree spec"""

    def __init__(self, spec):
        import cherrypy
        self.cherrypy = cherrypy
        self.reg = {}        # id -> python object (function / instance / class)
        self.byid = {}       # id(pyobj) -> id
        self.owner = {}      # handler id -> class whose instance is `self`
        self.recording = set()   # ids of callables that record their call
        self.classes = set()
        self.calls = []
        self.seen = []
        self.has_popargs = False
        self.disp = None
        self.marks = []      # (what, object, expected truth of `exposed`) as the decorators were applied
        self.root = self.build(spec)

    def register(self, hid, o):
        self.reg[hid] = o
        self.byid[id(o)] = hid

    def ident(self, o):
        f = getattr(o, '__func__', None)
        if f is not None and id(f) in self.byid:
            return self.byid[id(f)]
        return self.byid.get(id(o), 0)

    def ret_expr(self, ret):
        if ret is None:
            return 'None'
        if ret == '@self':
            return 'self'
        return 'getattr(self, %r, None)' % ret

    def build(self, spec):
        t = spec['t']
        if t == 'val':
            v = spec['v']
            return list(v) if isinstance(v, list) else v
        if t == 'fn':     # a free function object (only used as a popargs handler factory)
            raise ValueError('fn outside a class')
        assert t == 'obj'
        oid = spec['id']
        fnreg = {}
        ns = {'cherrypy': self.cherrypy, '_rec': _rec, '_fnreg': fnreg, '_seen': _seen}
        L = []
        disp = spec.get('disp')
        if disp and disp['k'] == 'popargs':
            self.has_popargs = True
            h = disp.get('h')
            if h:
                hobj = self.build(h['obj'])
                ns['_pa_handler'] = hobj if h['how'] == 'obj' else (lambda _o=hobj, **kw: _o)
        if spec.get('cex'):
            L.append('@cherrypy.expose')
        if disp and disp['k'] == 'popargs' and disp.get('as') == 'class':
            L.append('@cherrypy.popargs(%s)' % self.popargs_args(disp))
        L.append('class K%d(object):' % oid)
        L.append('    pass')
        if spec.get('conf') is not None:
            L.append('    _cp_config = %r' % (spec['conf'],))
        if spec.get('call'):
            L.append('    def __call__(*args, **kwargs):')
            L.append('        return _rec(%d, args)' % oid)
        if spec.get('falsy'):
            L.append('    def __len__(self):')
            L.append('        return 0')
        fns = []
        for name, ch in spec['attrs']:
            if ch['t'] != 'fn':
                continue
            ex = ch.get('ex')
            if ex == 'dec':
                L.append('    @cherrypy.expose')
            elif ex == 'call':
                L.append('    @cherrypy.expose()')
            elif ex == 'alias':
                al = ch['alias']
                L.append('    @cherrypy.expose(%s)' % (repr(al[0]) if len(al) == 1 and ch.get('pos')
                                                      else 'alias=%r' % (al if len(al) > 1 else al[0],)))
            L.append('    def %s(*args, **kwargs):' % name)
            L.append('        return _rec(%d, args)' % ch['id'])
            L.append('    _fnreg[%d] = %s' % (ch['id'], name))
            if ex == 'set':
                L.append('    %s.exposed = %r' % (name, ch['exv']))
            if ch.get('conf') is not None:
                L.append('    %s._cp_config = %r' % (name, ch['conf']))
            fns.append((name, ch))
        if disp:
            k = disp['k']
            if k == 'pop':
                L += ['    def _cp_dispatch(self, vpath):',
                      '        _seen(vpath)',
                      '        for _ in range(%d):' % disp['n'],
                      '            if vpath:',
                      '                vpath.pop(0)',
                      '        return %s' % self.ret_expr(disp.get('ret'))]
            elif k == 'peek':
                L += ['    def _cp_dispatch(self, vpath):',
                      '        _seen(vpath)',
                      '        return getattr(self, vpath[0], None) if vpath else None']
            elif k == 'add':
                L += ['    def _cp_dispatch(self, vpath):',
                      '        _seen(vpath)',
                      '        vpath.append("zz")',
                      '        return self']
            elif k == 'popend':
                L += ['    def _cp_dispatch(self, vpath):',
                      '        _seen(vpath)',
                      '        if vpath:',
                      '            vpath.pop()',
                      '        return %s' % self.ret_expr(disp.get('ret'))]
            elif k == 'table':
                # children looked up by the segment as it is spelled in the URL (a dict keyed by 'v1.0', 'a-b', ...)
                L += ['    def _cp_dispatch(self, vpath):',
                      '        _seen(vpath)',
                      '        if not vpath:',
                      '            return None',
                      '        hit = %r.get(vpath[0])' % (dict(disp['tbl']),),
                      '        if hit is None:',
                      '            return None',
                      '        vpath.pop(0)',
                      '        return self if hit == "@self" else getattr(self, hit, None)']
            elif k == 'popargs' and disp.get('as') != 'class':
                L.append('    _cp_dispatch = cherrypy.popargs(%s)' % self.popargs_args(disp))
            elif k == 'val':
                L.append('    _cp_dispatch = %r' % (disp['v'],))
            if disp.get('ex') and k in ('pop', 'peek', 'add', 'popend', 'table'):
                L.append('    _cp_dispatch.exposed = True')
        if disp and disp['k'] == 'popargs':
            # for the oracle's reference of what cherrypy.popargs must consume
            L.append('K%d._c02_popargs = (%r, %r)' % (oid, list(disp['names']), bool(disp.get('h'))))
        src = '\n'.join(L) + '\n'
        exec(compile(src, '<K%d>' % oid, 'exec'), ns)
        cls = ns['K%d' % oid]
        inst = cls()
        self.register(oid, inst)
        self.register(-oid, cls)
        self.classes.add(-oid)
        if spec.get('call'):
            self.owner[oid] = cls
            self.recording.add(oid)
        if spec.get('cex'):
            self.marks.append(('class K%d decorated with @expose' % oid, cls, True))
        for name, ch in fns:
            f = fnreg[ch['id']]
            ex = ch.get('ex')
            if ex in ('dec', 'call', 'alias'):
                self.marks.append(('method %s (id %d) decorated with expose [%s]' % (name, ch['id'], ex), f, True))
            elif ex is None:
                self.marks.append(('undecorated method %s (id %d)' % (name, ch['id']), f, False))
            if ex == 'alias':
                claimed = [n for n, _ in spec['attrs']] + ['_cp_dispatch', '_cp_config', '__call__', '__len__'] + \
                    [x.replace('.', '_') for _, c2 in fns for x in c2.get('alias', [])]
                for al in ch['alias']:
                    if claimed.count(al.replace('.', '_')) != 1:
                        continue        # another definition of the same name may legitimately win
                    self.marks.append(('alias %r of method %s' % (al, name), cls.__dict__.get(al.replace('.', '_')),
                                       True if cls.__dict__.get(al.replace('.', '_')) is f else 'alias-missing'))
            self.register(ch['id'], f)
            self.owner[ch['id']] = cls
            self.recording.add(ch['id'])
        for name, ch in spec['attrs']:
            if ch['t'] != 'fn':
                setattr(inst, name, self.build(ch))
        if 'iex' in spec:
            inst.exposed = spec['iex']
        return inst

    @staticmethod
    def popargs_args(disp):
        a = ', '.join(repr(n) for n in disp['names'])
        if disp.get('h'):
            a += (', ' if a else '') + 'handler=_pa_handler'
        return a

    # ---- materialisation for the model ----
    def materialise(self, segs, method):
        names = sorted({s.translate(TR) for s in segs} | {'index', 'default', '_cp_dispatch', 'GET',
                                                           method.upper()})
        self.n_nodes = 0
        fuel = len(segs) + 3
        cp = self.cherrypy

        class _Req:
            params = {}
        cp.serving.request = _Req()
        try:
            its = {tuple(segs)}
            root = self.mat(self.root, its, fuel, names, False)
            na = []
            for n in names:
                v = getattr(None, n, None)
                if v is not None:
                    na.append([n, self.mat(v, {tuple(segs[i:]) for i in range(1, len(segs) + 1)} | {()},
                                           fuel - 1, names, False)])
        finally:
            cp.serving.clear()
        return root, na

    def mat(self, o, its, fuel, names, is_disp):
        self.n_nodes += 1
        if self.n_nodes > NODE_BUDGET:
            raise TooBig()
        flags = [bool(getattr(o, 'exposed', False)), hasattr(o, '__call__'), bool(o)]
        conf = []
        if hasattr(o, '_cp_config'):
            try:
                conf = [[str(k), str(v)] for k, v in dict(o._cp_config).items()]
            except Exception:
                conf = []
        verbs = [m for m in dir(o) if m.isupper()]
        attrs = []
        dyn = []
        if fuel > 0:
            sub = set(it[1:] for it in its)
            for n in names:
                v = getattr(o, n, None)
                if v is None:
                    continue
                if n == '_cp_dispatch':
                    attrs.append([n, self.mat_disp(v, its, fuel - 1, names)])
                else:
                    attrs.append([n, self.mat(v, sub, fuel - 1, names, False)])
        return [self.ident(o), flags, conf, verbs, attrs, dyn]

    def check_popargs(self, o, it, vp, res):
        owner = getattr(o, '__self__', None)
        spec = getattr(owner, '_c02_popargs', None)
        if spec is None:
            return
        ref_obj, ref_vp = popargs_reference(owner, spec[0], spec[1], it)
        same = isinstance(ref_obj, str) and ref_obj == 'any' or res is ref_obj or (res is not None and res == ref_obj)
        if list(vp) != list(ref_vp) or not same:
            self.popargs_bad.append('popargs(%s%s) on vpath %r left %r and returned %s; it must leave %r' % (
                ', '.join(spec[0]), ', handler=...' if spec[1] else '', list(it), list(vp),
                'the expected object' if same else 'another object', list(ref_vp)))

    def mat_disp(self, o, its, fuel, names):
        """what getattr(node, '_cp_dispatch') gave: flags + the call table (fuel = that of node's children)"""
        node = self.mat(o, its, 0, names, True)
        dyn = node[5]
        if callable(o):
            for it in sorted(its):
                vp = list(it)
                try:
                    res = o(vpath=vp)
                except Exception:
                    dyn.append([list(it)])       # the call raises
                    continue
                if not all(isinstance(x, str) for x in vp):
                    continue                     # no entry: the model answers "oracle miss"
                self.check_popargs(o, it, vp, res)
                nxt = {tuple(vp), tuple(vp[1:])}
                dyn.append([list(it), [] if res is None else [self.mat(res, nxt, fuel, names, False)],
                            list(vp)])
        return node


def popargs_reference(owner, names, has_handler, it):
    """what the dispatch method generated by cherrypy.popargs must do with a virtual path (documented behaviour):
    bind the leading segments to the named arguments; with handler= hand the rest on untouched; otherwise resolve
    ONE further segment as an attribute of the object and consume it, or return the object itself"""
    n = min(len(names), len(it))
    rest = list(it[n:])
    if has_handler:
        return ('any', rest)
    if rest:
        return (getattr(owner, rest[0], None), rest[1:])
    return (owner, rest)


class Recorder:
    """request.dispatch wrapper: records what the dispatcher was given and what it left behind"""

    def __init__(self, inner):
        self.inner = inner

    def __call__(self, path_info):
        import cherrypy
        W = CURRENT[0]
        rec = W.disp = {'path_info': path_info, 'exc': None}
        try:
            self.inner(path_info)
        except BaseException as e:
            rec['exc'] = type(e).__name__
            raise
        req = cherrypy.serving.request
        h = req.handler
        rec['is_index'] = req.is_index
        rec['config'] = {k: str(req.config[k]) for k in PROBE if k in req.config}
        if isinstance(h, cherrypy.NotFound):
            rec['kind'] = 0
        elif isinstance(h, cherrypy.HTTPError):
            rec['kind'] = 2 if h.status == 405 else 9
        elif isinstance(h, cherrypy._cpdispatch.PageHandler):
            rec['kind'] = 1
            rec['id'] = W.ident(h.callable)
            rec['callable'] = hasattr(h.callable, '__call__')
            rec['args'] = list(h.args)
        else:
            rec['kind'] = 8


def collapse(p):
    while '//' in p:
        p = p.replace('//', '/')
    return p or '/'


def quote_path(rng, p):
    """a raw request-target whose server-side decoding is p ('%2F' stays '%2F')"""
    out = []
    i = 0
    while i < len(p):
        if p.startswith('%2F', i):
            out.append(rng.choice(['%2F', '%2F', '%2f', '%252F']))
            i += 3
            continue
        ch = p[i]
        i += 1
        if ch == '/':
            out.append('/')
        elif ch.isalnum() and ord(ch) < 128 or ch in '_-.~':
            out.append(ch if rng.random() < .93 else '%%%02X' % ord(ch))
        elif ord(ch) < 128 and ch not in '%?# ' and rng.random() < .5 and ch in "!$&'()*+,;=:@":
            out.append(ch)
        else:
            out.append(''.join('%%%02X' % b for b in ch.encode('utf-8')))
    return ''.join(out)


FN_NAMES = ['index', 'default', 'a', 'b', 'c', 'a_b', 'x_y', '_p', '__d__', 'a_2Fb', '_', '__', 'exposed']
VERBS = ['GET', 'POST', 'PUT', 'HEAD', 'DELETE']
OBJ_NAMES = ['a', 'b', 'c', 'a_b', 'x_y', '_p', 'sub', 'index', 'default', '__d__', 'a.b', 'GET']
VAL_NAMES = ['a', 'b', 'v', 'index', 'default', 'get', 'a_b', '_p', 'exposed']
VARIANT = {'a_b': ['a_b', 'a.b', 'a-b', 'a+b', 'a~b', 'a:b', 'a,b'], 'x_y': ['x_y', 'x.y', 'x!y', 'x@y'],
           '_p': ['_p', '.p', '-p'], '__d__': ['__d__', '..d..', '_.d._'], 'a_2Fb': ['a%2Fb', 'a_2Fb'],
           '_': ['.', '_', '-', ';'], '__': ['..', '__', '.-']}
EXTRA = ['zz', 'q', '7', 'x%2Fy', '%2F', 'index', 'default', '__class__', '__doc__', '__call__',
         '__init__', '__dict__', 'exposed', '_cp_dispatch', '_cp_config', 'ü', 'a b', 'A', 'Index']
TABLE_KEYS = ['v1.0', 'a-b', 'x.y', 'q', 'k~1', 'x%2Fy', 'zz', 'a.b', '-p']
METHODS = ['GET', 'GET', 'GET', 'HEAD', 'POST', 'PUT', 'DELETE', 'get', 'Post', 'OPTIONS']
EXV = [True, False, 1, 0, 'yes', '']


class C02(core.Check):
    pid = 'C02'
    props_files = ('Props/C02.v',)
    refuted_files = ()
    model_fn = ('run_C02', 'Model.M_dispatch')
    xcheck_n = 30
    rule = ('random object trees (depth <= 4; nodes with any subset of exposed class / exposed instance mark / '
            'callable instance / falsy instance / _cp_config / index / default / _cp_dispatch (pop k, peek, '
            'pop-from-end, segment-adding, exposed, non-callable, real cherrypy.popargs) / non-callable attributes '
            '/ underscore, dunder and punctuated names; methods marked with @expose, @expose(), aliases or a '
            'hand-set truthy/falsy mark) x paths built from the tree\'s names in punctuated spellings, unknown '
            'names, dunder names, %2F, non-ASCII, empty segments, trailing slash x Dispatcher | MethodDispatcher x '
            'verbs; thorough adds all small trees x all paths of <= 3 segments over a 6-name alphabet; a case is '
            'non-trivial when a handler or resource was selected or a _cp_dispatch was consulted; distinct by '
            '(mode, outcome, selected via default/index/node, trail depth, #args, dispatch kind, status)')
    assumptions = ('_cp_dispatch / popargs are user code: an oracle table vpath |-> (object, vpath) obtained by '
                   'calling the real callable; they are assumed deterministic',
                   'Python attribute lookup (getattr/hasattr/dir/bool) is an input of the model, materialised '
                   'from the real objects',
                   'request methods are ASCII tokens (str.upper is modelled on ASCII only)',
                   'RoutesDispatcher is outside the model (the routes package is not installed)')

    # ---------------- generation ----------------
    def gen_conf(self, rng, p=.3):
        if rng.random() > p:
            return None
        d = {}
        for k in rng.sample(['pk.a', 'pk.b', 'pk.g', 'tools.staticdir.dir'], rng.choice([1, 1, 2])):
            d[k] = 'v%d' % rng.randrange(100)
        return d

    def gen_fn(self, rng, ids, name=None):
        ex = rng.choice([None, None, 'dec', 'dec', 'dec', 'call', 'set', 'alias'] +
                        (['dec', 'dec', 'call', 'dec'] if name in ('index', 'default') else []))
        f = {'t': 'fn', 'id': next(ids), 'ex': ex}
        if ex == 'set':
            f['exv'] = rng.choice(EXV)
        if ex == 'alias':
            f['alias'] = rng.sample(['al', 'a.b', 'x_y', 'index', 'zz'], rng.choice([1, 1, 2]))
            f['pos'] = rng.random() < .5
        c = self.gen_conf(rng, .2)
        if c is not None:
            f['conf'] = c
        return f

    def gen_disp(self, rng, ids, depth, attr_names):
        k = rng.choice(['pop', 'pop', 'peek', 'add', 'popend', 'popargs', 'popargs', 'val', 'table', 'table'])
        d = {'k': k}
        rets = [None, '@self'] + list(attr_names)
        if k == 'table':
            keys = rng.sample(TABLE_KEYS, rng.choice([1, 2, 3]))
            d['tbl'] = [[key, rng.choice(rets[1:])] for key in keys]
        if k == 'pop':
            d['n'] = rng.choice([0, 1, 1, 2, 3])
            d['ret'] = rng.choice(rets)
            d['ex'] = rng.random() < .12
        elif k == 'popend':
            d['ret'] = rng.choice(rets)
        elif k == 'popargs':
            d['names'] = rng.sample(['year', 'month', 'day'], rng.choice([1, 1, 2, 3]))
            d['as'] = rng.choice(['class', 'member'])
            if rng.random() < .4:
                d['h'] = {'how': rng.choice(['obj', 'factory']), 'obj': self.gen_obj(rng, ids, min(depth + 1, 3), 3)}
                if d['h']['how'] == 'obj':
                    d['h']['obj']['call'] = False
        elif k == 'val':
            d['v'] = rng.choice([5, 'text', [], 0])
        return d

    def gen_obj(self, rng, ids, depth, maxdepth, method_mode=False):
        o = {'t': 'obj', 'id': next(ids), 'attrs': []}
        if rng.random() < (.55 if method_mode else .25):
            o['cex'] = True
        if rng.random() < .12:
            o['iex'] = rng.choice(EXV)
        if rng.random() < (.3 if method_mode or not o.get('cex') else .75):
            o['call'] = True
        if rng.random() < .05:
            o['falsy'] = True
        c = self.gen_conf(rng)
        if c is not None:
            o['conf'] = c
        used = set()
        n = rng.choice([0, 1, 2, 2, 3, 3, 4, 5])
        for _ in range(n):
            kind = rng.choice(['fn', 'fn', 'fn', 'obj', 'obj', 'val'])
            if kind == 'obj' and depth >= maxdepth:
                kind = 'fn'
            if kind == 'fn':
                pool = FN_NAMES + (VERBS * 3 if method_mode else ['GET'])
                name = rng.choice(pool if rng.random() < .7 else ['index', 'default'] + (VERBS if method_mode else []))
                if name in used:
                    continue
                ch = self.gen_fn(rng, ids, name)
            elif kind == 'obj':
                name = rng.choice(OBJ_NAMES)
                if name in used:
                    continue
                ch = self.gen_obj(rng, ids, depth + 1, maxdepth, method_mode)
            else:
                name = rng.choice(VAL_NAMES)
                if name in used:
                    continue
                ch = {'t': 'val', 'v': rng.choice([None, 0, 3, 'text', [], [1], True])}
            used.add(name)
            o['attrs'].append([name, ch])
        if rng.random() < .22:
            o['disp'] = self.gen_disp(rng, ids, depth, [n for n, _ in o['attrs']])
        return o

    def spell(self, rng, name):
        v = VARIANT.get(name)
        if v and rng.random() < .7:
            return rng.choice(v)
        return name

    def gen_path(self, rng, tree):
        segs = []
        cur = tree
        while cur is not None and cur['t'] == 'obj' and cur['attrs'] and rng.random() < .8 and len(segs) < 5:
            disp = cur.get('disp')
            if disp and disp['k'] == 'table' and rng.random() < .6:
                key, ret = rng.choice(disp['tbl'])      # a child reached through the node's own lookup table
                segs.append(key)
                if ret != '@self':
                    cur = dict(cur['attrs']).get(ret)
                continue
            name, ch = rng.choice(cur['attrs'])
            if any(c in name for c in '/?#'):
                break
            segs.append(self.spell(rng, name))
            cur = ch
        if cur is not None and cur['t'] == 'fn' and segs and segs[-1] == 'index' and rng.random() < .6:
            segs.pop()         # ask for the object itself: the hidden index token finds the method
        r = rng.random()
        nx = 0 if r < .5 else 1 if r < .78 else 2 if r < .93 else 3
        for _ in range(nx):
            if len(segs) >= 6:
                break
            segs.append(rng.choice(EXTRA) if rng.random() < .8 else self.spell(rng, rng.choice(FN_NAMES)))
        if rng.random() < .1 and segs:
            segs.insert(rng.randrange(len(segs) + 1), rng.choice(EXTRA))
        pieces = list(segs)
        p = '/' + '/'.join(pieces)
        if rng.random() < .12 and len(pieces) > 1:
            i = rng.randrange(1, len(pieces))
            p = '/' + '/'.join(pieces[:i]) + '//' + '/'.join(pieces[i:])
        if segs and rng.random() < .3:
            p += '/'
        if rng.random() < .04:
            p += '/'
        target = quote_path(rng, p)
        if rng.random() < .08:
            target += '?k=1'
        return collapse(p), target

    def gen_sections(self, rng, paths):
        secs = {}
        cands = set(['/'])
        for p in paths:
            ss = [s for s in p.split('/') if s]
            for i in range(1, len(ss) + 1):
                cands.add('/' + '/'.join(ss[:i]))
                if rng.random() < .1:
                    cands.add('/' + '/'.join(ss[:i]).translate(TR))
        for c in sorted(cands):
            if rng.random() < .3:
                d = {}
                for k in rng.sample(['pk.a', 'pk.b', 'pk.g', 'tools.staticdir.dir'], rng.choice([1, 1, 2])):
                    d[k] = 's%d' % rng.randrange(100)
                secs[c] = d
        return secs

    def gen_group(self, rng, npaths):
        ids = itertools.count(1)
        mode = 1 if rng.random() < .3 else 0
        tree = self.gen_obj(rng, ids, 1, rng.choice([2, 3, 4, 4]), method_mode=bool(mode))
        if not mode and rng.random() < .7:
            tree.pop('cex', None)
            tree.pop('iex', None)
        pts = [self.gen_path(rng, tree) for _ in range(npaths)]
        secs = self.gen_sections(rng, [p for p, _ in pts])
        out = []
        for pi, target in pts:
            out.append({'mode': mode, 'method': rng.choice(METHODS) if mode or rng.random() < .2 else 'GET',
                        'path_info': pi, 'target': target, 'tree': tree, 'sections': secs})
        return out

    def cases(self):
        ngroups = 520 if self.tier == 'quick' else 5000
        out = []
        for _ in range(ngroups):
            out += self.gen_group(self.rng, 6)
        if self.tier == 'thorough':
            out += list(self.exhaustive())
        good = []
        for c in out:
            try:
                self.encode(c)
            except TooBig:
                self.count('dropped:materialisation-too-big')
                continue
            good.append(c)
        return good

    def exhaustive(self):
        """all trees of a small shape x all paths of <= 3 segments over a 6-name alphabet (+ trailing slash)"""
        def fn(i, ex):
            return {'t': 'fn', 'id': i, 'ex': 'dec' if ex else None}
        leaf_opts = [None, True, False]       # absent / exposed method / unexposed method
        alpha = ['a', 'b', 'index', 'default', 'zz', 'x%2Fy']
        paths = [()]
        for L in (1, 2, 3):
            paths += list(itertools.product(alpha, repeat=L))
        child_opts = [None, ('fn', True), ('fn', False)]
        for ci, cd, cex in itertools.product(leaf_opts, leaf_opts, [False, True]):
            child_opts.append(('obj', ci, cd, cex, cex))     # an exposed child object is a callable instance
        for ri, rd, ra, rb in itertools.product(leaf_opts, leaf_opts, child_opts, [None, ('fn', True)]):
            attrs = []
            if ri is not None:
                attrs.append(['index', fn(2, ri)])
            if rd is not None:
                attrs.append(['default', fn(3, rd)])
            for nm, opt, base in (('a', ra, 10), ('b', rb, 20)):
                if opt is None:
                    continue
                if opt[0] == 'fn':
                    attrs.append([nm, fn(base, opt[1])])
                else:
                    _, ci, cd, cex, ccall = opt
                    sub = []
                    if ci is not None:
                        sub.append(['index', fn(base + 1, ci)])
                    if cd is not None:
                        sub.append(['default', fn(base + 2, cd)])
                    o = {'t': 'obj', 'id': base, 'attrs': sub}
                    if cex:
                        o['cex'] = True
                    if ccall:
                        o['call'] = True
                    attrs.append([nm, o])
            tree = {'t': 'obj', 'id': 1, 'attrs': attrs}
            for p in paths:
                for slash in ((False, True) if p else (False,)):
                    pi = '/' + '/'.join(p) + ('/' if slash else '')
                    yield {'mode': 0, 'method': 'GET', 'path_info': pi, 'target': pi, 'tree': tree, 'sections': {}}

    def search_cases(self, around=None):
        for c in around or []:
            yield c
        for _ in range(2500):
            for c in self.gen_group(self.rng, 6):
                try:
                    self.encode(c)
                except TooBig:
                    continue
                yield c

    # ---------------- the real objects ----------------
    _wkey = None
    _world = None

    def world(self, c):
        key = id(c['tree'])
        if self._wkey != key or self._world is None or self._world_tree is not c['tree']:
            self._world = World(c['tree'])
            self._world_tree = c['tree']
            self._wkey = key
        return self._world

    def app_for(self, W, c):
        """one Application per (tree, dispatcher, sections); Application.__init__ registers loggers and an
        engine listener for ever, so the previous one is unregistered from outside"""
        import cherrypy
        key = (c['mode'], id(c['sections']))
        cur = getattr(W, 'app', None)
        if cur is not None and cur[0] == key and cur[2] is c['sections']:
            return cur[1]
        self.drop_app(getattr(self, '_last_app', None))
        inner = cherrypy.dispatch.MethodDispatcher() if c['mode'] else cherrypy.dispatch.Dispatcher()
        conf = {k: dict(v) for k, v in c['sections'].items()}
        conf.setdefault('/', {})
        conf['/'].update({'tools.trailing_slash.on': False, 'request.dispatch': Recorder(inner)})
        app = wsgi.make_app(W.root, conf)
        W.app = (key, app, c['sections'])
        self._last_app = app
        self.count('applications built')
        return app

    @staticmethod
    def drop_app(app):
        if app is None:
            return
        import logging
        import cherrypy
        try:
            cherrypy.engine.unsubscribe('graceful', app.log.reopen_files)
        except Exception:
            pass
        for lg in (app.log.error_log, app.log.access_log):
            logging.Logger.manager.loggerDict.pop(lg.name, None)

    @staticmethod
    def segs_of(path_info):
        return [s for s in path_info.split('/') if s]

    # ---------------- model side ----------------
    def encode(self, c):
        cache = self.__dict__.setdefault('_enc', {})
        hit = cache.get(id(c))
        if hit is not None and hit[0] is c:
            return hit[1]
        e = self.encode_(c)
        cache[id(c)] = (c, e)
        return e

    def encode_(self, c):
        W = self.world(c)
        W.popargs_bad = []
        root, na = W.materialise(self.segs_of(c['path_info']), c['method'])
        c['_popargs_bad'] = W.popargs_bad[:3]
        aconf = [[k, [[kk, str(vv)] for kk, vv in v.items()]] for k, v in c['sections'].items()]
        return [c['mode'], c['method'], c['path_info'], root, na, aconf, GCONF, PROBE]

    # ---------------- implementation side ----------------
    def setup(self):
        cp = wsgi.quiet_cherrypy()
        cp.config.update({k: v for k, v in GCONF})

    def teardown(self):
        import cherrypy
        self.drop_app(getattr(self, '_last_app', None))
        self._last_app = None
        for k, _ in GCONF:
            cherrypy.config.pop(k, None)

    def impl(self, c):
        import cherrypy
        W = self.world(c)
        CURRENT[0] = W
        W.calls = []
        W.seen = []
        W.disp = None
        app = self.app_for(W, c)
        hdrs = [] if c['method'].upper() in ('GET', 'HEAD') else [('Content-Length', '0')]
        res = wsgi.call(app, c['method'], c['target'], hdrs)
        CURRENT[0] = None
        d = W.disp or {}
        obs = {'status': res['status'], 'allow': wsgi.header(res, 'Allow'), 'calls': W.calls,
               'dispatch': d, 'escaped': res['escaped'], 'seen': W.seen[:1]}
        self.count('mode:%s' % ('method' if c['mode'] else 'default'))
        self.count('status:%s' % res['status'])
        self.count('segments:%d' % len(self.segs_of(c['path_info'])))
        return obs

    def compare(self, c, mo, obs):
        d = obs['dispatch']
        if d.get('path_info') != c['path_info']:
            return 'harness: the dispatcher saw path_info %r, the case says %r' % (d.get('path_info'), c['path_info'])
        kind = mo[0]
        if kind == 4:
            return 'harness: the _cp_dispatch oracle table has no entry the model needs'
        if kind == 5:
            return 'model ran out of fuel'
        if kind == 3:
            if d.get('exc') != 'CherryPyException' or obs['status'] != 500:
                return 'model: "vpath segment added" error; impl exc=%r status=%r' % (d.get('exc'), obs['status'])
            return None
        if kind == 6:
            if d.get('exc') in (None, 'CherryPyException') or obs['status'] != 500:
                return 'model: _cp_dispatch raises; impl exc=%r status=%r' % (d.get('exc'), obs['status'])
            return None
        if d.get('exc'):
            return 'impl dispatcher raised %s, model kind %d' % (d['exc'], kind)
        _, mid, mcall, margs, mii, mallow, mvals = mo
        if d.get('kind') != kind:
            return 'handler kind: model %d impl %r' % (kind, d.get('kind'))
        if kind == 1:
            if d['id'] != mid:
                return 'selected callable: model id %d impl id %d' % (mid, d['id'])
            if sx.norm(d['args']) != margs:
                return 'positional args: model %r impl %r' % (margs, d['args'])
        ii = d.get('is_index')
        if ([] if ii is None else [1 if ii else 0]) != mii:
            return 'is_index: model %r impl %r' % (mii, ii)
        for k, mv in zip(PROBE, mvals):
            iv = d['config'].get(k)
            if ([] if iv is None else [sx.norm(iv)]) != mv:
                return 'request.config[%r]: model %r impl %r' % (k, mv, iv)
        ia = obs['allow']
        if ([] if ia is None else [sx.norm(ia)]) != mallow:
            return 'Allow: model %r impl %r' % (mallow, ia)
        W = self.world(c)
        if kind == 0 and (obs['status'] != 404 or obs['calls']):
            return 'NotFound handler but status %r calls %r' % (obs['status'], obs['calls'])
        if kind == 2 and (obs['status'] != 405 or obs['calls']):
            return '405 handler but status %r calls %r' % (obs['status'], obs['calls'])
        if kind == 1 and mid in W.recording and mcall:
            exp = [[mid, d['args']]]
            if [x[:2] for x in obs['calls']] != exp or obs['status'] != 200:
                return 'handler %d args %r selected but calls %r status %r' % (mid, d['args'], obs['calls'],
                                                                              obs['status'])
            if ii is not None and obs['calls'][0][2] != ii:
                return 'is_index changed between dispatch and handler'
        return None

    # ---------------- property oracle (independent of the model) ----------------
    def reference(self, W, c):
        """deepest-first resolver over the real objects; None when a _cp_dispatch gets involved"""
        segs = self.segs_of(c['path_info'])
        chain = [W.root]
        for s in segs + ['index']:
            cur = chain[-1]
            nxt = getattr(cur, s.translate(TR), None)
            if nxt is None and cur is not None and getattr(cur, '_cp_dispatch', None) is not None \
                    and len(chain) <= len(segs):
                return None
            chain.append(nxt)
        self._named = sum(1 for o in chain[1:] if o is not None)
        for j in range(len(chain) - 1, -1, -1):
            o = chain[j]
            if o is None:
                continue
            dflt = getattr(o, 'default', None)
            if getattr(dflt, 'exposed', False):
                return (dflt, segs[j:], 'default', j)
            if getattr(o, 'exposed', False):
                return (o, segs[j:], 'index' if j == len(chain) - 1 else 'node', j)
        return ('none',)

    def oracle(self, c, obs):
        W = self.world(c)
        fails = []
        for msg in c.get('_popargs_bad') or []:
            # cherrypy.popargs is part of the dispatch mechanism: a segment it consumed must not be offered again
            fails.append(('popargs-consumption', msg))
        segs = [s.replace('%2F', '/') for s in self.segs_of(c['path_info'])]
        mode = 'method' if c['mode'] else 'default'
        for hid, args, _ in obs['calls']:
            o = W.reg.get(hid)
            if not getattr(o, 'exposed', False) and not c['mode']:
                fails.append(('unexposed-called', 'a callable without a true `exposed` mark ran (id %d, args %r)'
                              % (hid, args)))
            if args and segs[len(segs) - len(args):] != args or len(args) > len(segs):
                fails.append(('args-not-a-path-suffix', 'positional args %r are not the trailing path segments of %r'
                              % (args, segs)))
        for what, o, exp in W.marks:
            if exp == 'alias-missing':
                fails.append(('expose-alias', '%s is not installed in the class namespace' % what))
            elif bool(getattr(o, 'exposed', False)) != exp:
                fails.append(('expose-mark', '%s: `exposed` is %r' % (what, getattr(o, 'exposed', None))))
        if obs.get('seen') and not W.has_popargs:
            # the first _cp_dispatch consulted gets the not yet matched segments of the request path, as spelled (the
            # hidden index token is documented not to be shown to it)
            full = self.segs_of(c['path_info'])
            if not any(obs['seen'][0] == full[i:] for i in range(len(full) + 1)):
                fails.append(('dispatch-saw-altered-segments', 'the first _cp_dispatch consulted was handed %r, which is '
                              'not a tail of the request path %r' % (obs['seen'][0], full)))
        if len(obs['calls']) > 1:
            fails.append(('several-handlers', 'more than one handler ran: %r' % obs['calls']))
        if obs['dispatch'].get('exc'):
            return fails
        ref = self.reference(W, c)
        if ref is None:
            if not obs['calls'] and obs['status'] == 200:
                fails.append(('200-without-handler', 'status 200 but no generated handler ran'))
            return fails
        if ref == ('none',):
            if obs['calls']:
                fails.append(('ran-without-candidate:' + mode, 'no exposed object on the path, yet %r ran' % obs['calls']))
            elif obs['status'] != 404:
                fails.append(('not-404:' + mode, 'no exposed object on the path: status %r' % obs['status']))
            return fails
        h, rest, how, j = ref
        rest = [s.replace('%2F', '/') for s in rest]
        if not h:
            return fails       # a falsy exposed object: the text does not decide (404 in the code)
        if c['mode'] == 0:
            hid = W.ident(h)
            if hid in W.recording and hasattr(h, '__call__'):
                got = [x[:2] for x in obs['calls']]
                if not got:
                    fails.append(('handler-not-called:' + how, 'expected %s handler id %d with %r, nothing ran (status %r)'
                                  % (how, hid, rest, obs['status'])))
                elif got[0][0] != hid:
                    fails.append(('wrong-handler:' + how, 'expected the %s handler id %d (trail index %d), id %d ran'
                                  % (how, hid, j, got[0][0])))
                elif got[0][1] != rest:
                    fails.append(('wrong-args:' + how, 'handler id %d got %r, the unmatched segments are %r'
                                  % (hid, got[0][1], rest)))
            return fails
        # method dispatcher: h is the resource
        verbs = [m for m in dir(h) if m.isupper()]
        if all(callable(getattr(h, m, None)) for m in verbs):
            exp = sorted(set(verbs) | ({'HEAD'} if 'GET' in verbs else set()))
            if obs['allow'] != ', '.join(exp):
                fails.append(('allow', 'Allow is %r, the resource has verb methods %r' % (obs['allow'], exp)))
        meth = c['method'].upper()
        f = getattr(h, meth, None)
        if f is None and meth == 'HEAD':
            f = getattr(h, 'GET', None)
        if f is None:
            if obs['calls']:
                fails.append(('ran-without-verb', 'resource has no %s, yet %r ran' % (meth, obs['calls'])))
            elif obs['status'] != 405:
                fails.append(('not-405', 'resource exists without %s: status %r' % (meth, obs['status'])))
        elif f:
            fid = W.ident(f)
            if fid in W.recording and hasattr(f, '__call__'):
                got = [x[:2] for x in obs['calls']]
                if got != [[fid, rest]]:
                    fails.append(('wrong-verb-handler', 'expected verb method id %d with %r, got %r (status %r)'
                                  % (fid, rest, got, obs['status'])))
        return fails

    def nontrivial(self, c, obs):
        d = obs['dispatch']
        W = self.world(c)
        ref = self.reference(W, c)
        if ref is None:
            tag = ('dyn', (c['tree'].get('disp') or {}).get('k'))
        elif ref == ('none',):
            tag = ('none',)
        else:
            tag = (ref[2], ref[3], len(ref[1]))
        self.count('resolved-by:%s' % tag[0])
        if ref == ('none',):
            self.count('no-candidate:path-names-%s' % ('unexposed-objects' if self._named else 'nothing'))
        if d.get('kind') in (None, 0) and ref == ('none',) and not d.get('exc') and not self._named:
            return None
        pi = c['path_info']
        return (c['mode'], d.get('kind'), d.get('exc'), tag, obs['status'], len(self.segs_of(pi)),
                pi.endswith('/'), '%2F' in pi, pi.translate(TR) != pi.replace('/', '_'),
                c['method'].upper() if c['mode'] else '', d.get('is_index'))

    def shrink(self, c, still_fails):
        c = dict(c)
        # drop path segments, then attributes of the tree
        segs = self.segs_of(c['path_info'])

        def with_segs(ss):
            p = '/' + '/'.join(ss) + ('/' if c['path_info'].endswith('/') and ss else '')
            return dict(c, path_info=p, target=quote_path(_NoRng(), p))
        segs = core.shrink_list(segs, lambda ss: still_fails(with_segs(ss)))
        c = with_segs(segs)
        import copy
        changed = True
        while changed:
            changed = False
            tree = c['tree']
            for path in list(self._attr_paths(tree)):
                t2 = copy.deepcopy(tree)
                self._remove(t2, path)
                c2 = dict(c, tree=t2)
                try:
                    if still_fails(c2):
                        c = c2
                        changed = True
                        break
                except Exception:
                    pass
        if c['sections']:
            try:
                if still_fails(dict(c, sections={})):
                    c = dict(c, sections={})
            except Exception:
                pass
        return c

    def _attr_paths(self, tree, pre=()):
        for i, (n, ch) in enumerate(tree['attrs']):
            yield pre + (i,)
            if ch['t'] == 'obj':
                yield from self._attr_paths(ch, pre + (i,))

    def _remove(self, tree, path):
        for i in path[:-1]:
            tree = tree['attrs'][i][1]
        del tree['attrs'][path[-1]]

    # ---------------- G: constants of the source ----------------
    def ties(self):
        src = open(os.path.join(core.REPO, 'cherrypy', '_cpdispatch.py')).read()
        mod = ast.parse(src)

        def z(s):
            return '[' + ';'.join(str(ord(ch)) for ch in s) + ']'
        # punctuation_to_underscores (Python 3 branch)
        table = None
        for n in mod.body:
            if isinstance(n, ast.If) and 'version_info' in ast.dump(n.test):
                for m in n.orelse:
                    if isinstance(m, ast.Assign) and len(m.targets) == 1 and \
                            getattr(m.targets[0], 'id', None) == 'punctuation_to_underscores':
                        code = compile(ast.Expression(m.value), '<tie>', 'eval')
                        table = eval(code, {'__builtins__': {}, 'str': str, 'string': string, 'len': len})
        if not isinstance(table, dict) or set(table.values()) != {95}:
            raise ValueError('punctuation_to_underscores: unexpected shape')
        cls = {n.name: n for n in mod.body if isinstance(n, ast.ClassDef)}
        D = cls['Dispatcher']
        if [ast.unparse(b) for b in cls['MethodDispatcher'].bases] != ['Dispatcher']:
            raise ValueError('MethodDispatcher base')
        dmn = None
        for n in D.body:
            if isinstance(n, ast.Assign) and getattr(n.targets[0], 'id', None) == 'dispatch_method_name':
                dmn = ast.literal_eval(n.value)
        fns = {n.name: n for n in D.body if isinstance(n, ast.FunctionDef)}
        init = fns['__init__']
        defaults = dict(zip([a.arg for a in init.args.args][-len(init.args.defaults):],
                            [ast.unparse(x) for x in init.args.defaults]))
        if defaults.get('translate') != 'punctuation_to_underscores' or defaults.get('dispatch_method_name') != 'None':
            raise ValueError('Dispatcher.__init__ defaults')
        fh = fns['find_handler']
        idx = dflt = rootname = None
        for n in ast.walk(fh):
            if isinstance(n, ast.Assign) and getattr(n.targets[0], 'id', None) == 'fullpath':
                if isinstance(n.value, ast.BinOp) and isinstance(n.value.right, ast.List):
                    idx = ast.literal_eval(n.value.right)
            if isinstance(n, ast.Assign) and getattr(n.targets[0], 'id', None) == 'object_trail':
                rootname = ast.literal_eval(n.value.elts[0].elts[0])
            if isinstance(n, ast.Call) and getattr(n.func, 'id', None) == 'hasattr' and \
                    ast.unparse(n.args[0]) == 'candidate':
                dflt = ast.literal_eval(n.args[1])
        if not (isinstance(idx, list) and len(idx) == 1 and isinstance(dflt, str) and isinstance(rootname, str)
                and isinstance(dmn, str)):
            raise ValueError('find_handler literals not found')
        reps = set()
        for cname in ('Dispatcher', 'MethodDispatcher'):
            call = [n for n in cls[cname].body if isinstance(n, ast.FunctionDef) and n.name == '__call__'][0]
            for n in ast.walk(call):
                if isinstance(n, ast.Call) and isinstance(n.func, ast.Attribute) and n.func.attr == 'replace':
                    reps.add(tuple(ast.literal_eval(a) for a in n.args))
        if len(reps) != 1:
            raise ValueError('vpath replace calls: %r' % (reps,))
        (ra, rb), = reps
        probe = 'x' + ra + 'y' + ra[:-1] + ra + ra.lower() + 'z'
        text = '\n'.join([
            'From Coq Require Import ZArith List.', 'Import ListNotations.',
            'From CV Require Import Lib.Sx Model.M_dispatch.', 'Open Scope Z_scope.',
            'Lemma tie_punct : punct = [%s].' % ';'.join(str(k) for k in sorted(table)),
            'Proof. vm_compute. reflexivity. Qed.',
            'Lemma tie_names : (s_index, s_default, s_root, s_cp_dispatch) = (%s, %s, %s, %s).'
            % (z(idx[0]), z(dflt), z(rootname), z(dmn)),
            'Proof. vm_compute. reflexivity. Qed.',
            'Lemma tie_restore : restore %s = %s.' % (z(probe), z(probe.replace(ra, rb))),
            'Proof. vm_compute. reflexivity. Qed.', ''])
        ok, out = core.coq_check_text('Tie_C02', text)
        return [core.Obligation('G:tie_punct (translate table of the source = model)', ok, '' if ok else out),
                core.Obligation('G:tie_names (index/default/root/_cp_dispatch literals)', ok, '' if ok else out),
                core.Obligation('G:tie_restore (vpath %2F replacement)', ok, '' if ok else out)]


class _NoRng:
    """deterministic stand-in for the PRNG in quote_path (used by the shrinker)"""

    def random(self):
        return 0.0

    def choice(self, l):
        return l[0]


CHECK = C02
